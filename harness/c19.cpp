// C19 — noise injection and SNR/THD measurement are calibrated; random streams reproduce.
//
// ORACLE (on the implementation, long double statistics, the property's own tolerances):
//   A. awgn(x, snr): noise = y - x has power P_x / 10^(snr/10) within 6 standard errors (real: variance of the
//      sample variance; complex: sum over both components, and each component half of it), zero mean, white
//      (lags 1..8, re/im cross-correlation), uncorrelated with x, Gaussian shape (skewness / excess kurtosis);
//      SNR -10..80 dB, amplitudes over 120 dB, lengths 1e4..1e6 (1e4..1e5 quick), tones / multitones / broadband / DC.
//      Every trial also: the noise power of EACH SIXTEENTH of the record (7 s.e.; a block left without noise or
//      given it twice shows up), no run of samples returned unchanged, and the tie y == x + sigma*randn(n) bit for bit
//      against a separate randn(n) after the same rng(seed).  Length classes: k*2^16, k*2^17, k*2^18 (k = 1..4),
//      2^18 +- 1, 10^6, 999424, primes 46349 / 65537 / 999983 (real and complex), amplitude classes 1e-100 .. 1e100,
//      operands that are temporaries, input left unchanged.
//   B. thd / sinad / snr on the stated tone family (1..5 harmonics at -10..-40 dBc, random phases, every component
//      >= 100 bins from the others, DC and Nyquist, amplitudes over 80 dB, lengths 2048..2^17 incl. non powers of two,
//      on-bin / coherent / off-bin, aliased harmonics): thd within 0.1 dB, frequencies within 0.1 bin, sinad within
//      1.5 dB; scale invariance c*x, c > 0 (c = 10^-3..10^3, powers of two, 1e+-8, 1e-17, 1e+-100).
//      The BOUNDARY of the family at every length class (2048 .. 2^17, 2049 .. 131071, 100001, 100003, 120000): some
//      distance exactly d bins, d = 100, 100.5, 101, 128, 130, random in [100, 130] — fundamental to DC (in bins of the
//      transform and in bins of the record), top harmonic to Nyquist, aliased harmonics d bins from the fundamental /
//      from DC / from Nyquist / from each other.  Results after failed calls (nharm = 1, record above the size limit)
//      equal the results before.
//   C. after rng(seed) every generator replays bit-identically (seeds 0..1000, interleaved programs, different
//      histories before the two runs incl. an odd number of randn() calls and a failed call), randi inside its inclusive bounds and
//      reaching both of them, single-value and negative ranges.
// CORR (against the Lean model, Model/Noise.lean): awgn element-wise with the drawn values as inputs; the whole
//   _harm_analyze / snr / sinad / thd skeleton on given spectra (exhaustive small spectra with ties and zeros, random
//   spectra, real periodograms); _periodogram (replicated with the public API, replica tied to the internal one
//   bit for bit through thd(Time) == thd(replica, Psd)) against the model's textbook DFT; thd/snr/sinad(Time) against
//   the model's whole pipeline; rand / randn / awgn streams against the model's mt19937 + libstdc++ distributions,
//   incl. single calls of 2^16 .. 2^20 values (compared through a digest: count, FNV-1a over the 64-bit patterns,
//   first and last value) with scalar draws after them (the engine has advanced by exactly the right amount).
#include "common.hpp"
#include <algorithm>
#include <climits>
using namespace dsplib;
typedef long double ld;
static vh::Out out;
static const ld PI_L = 3.141592653589793238462643383279502884L;

static std::string jd(double d) { return vh::jnum(d); }
static bool same_bits(double a, double b) { return std::memcmp(&a, &b, 8) == 0 || (std::isnan(a) && std::isnan(b)); }
// which of the two randn(n) calls of the complex overload is evaluated first (unspecified in C++): probe_awgn_order()
static bool g_imag_first = true;
// per-block noise power: 16 comparisons per trial, chi-square tail of the shortest blocks (625 samples) => 7 s.e.
static const int NBLK = 16;
static const ld BLK_SE = 7;

// ------------------------------------------------------------------------------------------------
// A. awgn
// ------------------------------------------------------------------------------------------------
struct Stat {
    ld mean = 0, pow = 0, skew = 0, kurt = 0;
    ld ac[9] = {0};   // normalised autocorrelation, lags 1..8
};

static Stat stat_of(const std::vector<ld>& n) {
    Stat s;
    const size_t N = n.size();
    ld m1 = 0, m2 = 0;
    for (ld v : n) { m1 += v; m2 += v * v; }
    s.mean = m1 / N;
    s.pow = m2 / N;
    ld m3 = 0, m4 = 0;
    for (ld v : n) { const ld d = v - s.mean; m3 += d * d * d; m4 += d * d * d * d; }
    const ld var = s.pow - s.mean * s.mean;
    if (var > 0) {
        s.skew = (m3 / N) / (var * sqrtl(var));
        s.kurt = (m4 / N) / (var * var) - 3;
        for (int k = 1; k <= 8; ++k) {
            ld a = 0;
            for (size_t t = 0; t + k < N; ++t) a += n[t] * n[t + k];
            s.ac[k] = a / N / s.pow;
        }
    }
    return s;
}

static ld xcorr(const std::vector<ld>& a, const std::vector<ld>& b, int lag) {   // sum a[t] b[t+lag] / N
    const long N = long(a.size());
    ld s = 0;
    for (long t = std::max(0L, long(-lag)); t < N && t + lag < N; ++t) s += a[t] * b[t + lag];
    return s / N;
}

static const char* kind_name(int k) {
    static const char* nm[] = {"tone", "multitone", "gauss", "uniform", "dc"};
    return nm[k];
}

static void awgn_real_trial(vh::Rng& g, int N, double snr, double amp, int kind, int libseed) {
    arr_real x(N);
    const double f = 0.001 + 0.498 * g.unit(), ph = 6.283185307179586 * g.unit();
    const double f2 = 0.001 + 0.498 * g.unit(), f3 = 0.001 + 0.498 * g.unit();
    for (int t = 0; t < N; ++t) {
        double v = 0;
        switch (kind) {
        case 0: v = std::cos(6.283185307179586 * f * t + ph); break;
        case 1: v = std::cos(6.283185307179586 * f * t + ph) + 0.5 * std::sin(6.283185307179586 * f2 * t) + 0.25 * std::cos(6.283185307179586 * f3 * t); break;
        case 2: v = g.gauss(); break;
        case 3: v = g.sym(); break;
        default: v = 1; break;
        }
        x[t] = amp * v;
    }
    const std::string js = std::string("{\"op\":\"awgn_real\",\"n\":") + std::to_string(N) + ",\"snr\":" + jd(snr) + ",\"amp\":" + jd(amp) +
                           ",\"kind\":\"" + kind_name(kind) + "\",\"rng\":" + std::to_string(libseed) + "}";
    vh::set_current("C19:crash:awgn-real", js);
    rng(libseed);
    const arr_real y = awgn(x, snr);
    vh::clear_current();
    out.n_oracle++;
    out.stat(std::string("awgn_real_") + kind_name(kind));
    if (y.size() != N) { out.fail("C19:awgn-real-size", js); return; }
    ld px = 0;
    for (int t = 0; t < N; ++t) px += ld(x[t]) * x[t];
    px /= N;
    const ld pt = px / powl(10.0L, ld(snr) / 10);
    std::vector<ld> n(N), xs(N);
    bool finite = true;
    for (int t = 0; t < N; ++t) { n[t] = ld(y[t]) - ld(x[t]); xs[t] = x[t]; if (!std::isfinite(y[t])) finite = false; }
    if (!finite) { out.fail("C19:awgn-real-nonfinite", js); return; }
    const Stat s = stat_of(n);
    const ld rn = sqrtl(ld(N));
    // noise power: the sample variance of N Gaussian samples has standard error P*sqrt(2/N)
    if (fabsl(s.pow - pt) > 6 * pt * sqrtl(2.0L / N)) out.fail("C19:awgn-real-power", js);
    if (fabsl(s.mean) > 6 * sqrtl(pt) / rn) out.fail("C19:awgn-real-mean", js);
    for (int k = 1; k <= 8; ++k)
        if (fabsl(s.ac[k]) > 6 / rn) out.fail("C19:awgn-real-white", js);
    if (fabsl(xcorr(n, xs, 0)) > 6 * sqrtl(pt * px) / rn) out.fail("C19:awgn-real-signal-corr", js);
    if (fabsl(s.skew) > 8 * sqrtl(6.0L / N) || fabsl(s.kurt) > 8 * sqrtl(24.0L / N)) out.fail("C19:awgn-real-shape", js);
    const long dev = lroundl(1000 * fabsl(s.pow - pt) / (pt * sqrtl(2.0L / N)));
    out.stats["awgn_real_max_dev_milli_se"] = std::max(out.stats["awgn_real_max_dev_milli_se"], (long long)dev);
    // every sixteenth of the record has its share of the noise; no sample comes back unchanged
    {
        long untouched = 0, first_un = -1;
        for (int t = 0; t < N; ++t) if (y[t] == x[t]) { if (untouched++ == 0) first_un = t; }
        if (untouched > 3)
            out.fail("C19:awgn-real-samples-without-noise", js.substr(0, js.size() - 1) + ",\"unchanged_samples\":" + std::to_string(untouched) + ",\"first\":" + std::to_string(first_un) + "}");
        for (int b = 0; b < NBLK; ++b) {
            const long lo = long((long long)N * b / NBLK), hi = long((long long)N * (b + 1) / NBLK);
            ld p = 0;
            for (long t = lo; t < hi; ++t) p += n[t] * n[t];
            p /= (hi - lo);
            const ld se = pt * sqrtl(2.0L / (hi - lo));
            if (!(fabsl(p - pt) <= BLK_SE * se))
                out.fail("C19:awgn-real-block-power", js.substr(0, js.size() - 1) + ",\"block\":[" + std::to_string(lo) + "," + std::to_string(hi) + "],\"power_over_expected\":" + jd(double(p / pt)) + "}");
            out.stats["awgn_block_max_dev_milli_se"] = std::max(out.stats["awgn_block_max_dev_milli_se"], (long long)lroundl(1000 * fabsl(p - pt) / se));
        }
    }
    // tie to the stream: y = x + sigma * randn(n) with the values a separate randn(n) returns after the same rng(seed)
    {
        rng(libseed);
        const arr_real z = randn(N);
        const double sd = rms(x) * std::pow(10, ((-1) * snr / 20));
        long bad = -1;
        for (int t = 0; t < N && bad < 0; ++t) if (!same_bits(y[t], x[t] + z[t] * sd)) bad = t;
        if (bad >= 0) out.fail("C19:awgn-real-not-x-plus-sigma-randn", js.substr(0, js.size() - 1) + ",\"first_differing_sample\":" + std::to_string(bad) + "}");
    }
    out.stat(N >= (1 << 16) && N % (1 << 16) == 0 ? "awgn_len_multiple_of_65536" : "awgn_len_other");
    if (out.stats["awgn_real_tone"] + out.stats["awgn_real_gauss"] <= 2) out.sample(js);
}

static void awgn_cmplx_trial(vh::Rng& g, int N, double snr, double amp, int kind, int libseed) {
    arr_cmplx x(N);
    const double f = -0.5 + g.unit(), ph = 6.283185307179586 * g.unit(), f2 = -0.5 + g.unit();
    for (int t = 0; t < N; ++t) {
        double re = 0, im = 0;
        switch (kind) {
        case 0: re = std::cos(6.283185307179586 * f * t + ph); im = std::sin(6.283185307179586 * f * t + ph); break;
        case 1: re = std::cos(6.283185307179586 * f * t + ph) + 0.5 * std::cos(6.283185307179586 * f2 * t);
                im = std::sin(6.283185307179586 * f * t + ph) + 0.5 * std::sin(6.283185307179586 * f2 * t); break;
        case 2: re = g.gauss(); im = g.gauss(); break;
        case 3: re = g.sym(); im = 0; break;        // purely real complex signal: all signal power in one component
        default: re = 0.6; im = -0.8; break;
        }
        x[t] = cmplx_t{amp * re, amp * im};
    }
    const std::string js = std::string("{\"op\":\"awgn_cmplx\",\"n\":") + std::to_string(N) + ",\"snr\":" + jd(snr) + ",\"amp\":" + jd(amp) +
                           ",\"kind\":\"" + kind_name(kind) + "\",\"rng\":" + std::to_string(libseed) + "}";
    vh::set_current("C19:crash:awgn-cmplx", js);
    rng(libseed);
    const arr_cmplx y = awgn(x, snr);
    vh::clear_current();
    out.n_oracle++;
    out.stat(std::string("awgn_cmplx_") + kind_name(kind));
    if (y.size() != N) { out.fail("C19:awgn-cmplx-size", js); return; }
    ld px = 0;
    for (int t = 0; t < N; ++t) px += ld(x[t].re) * x[t].re + ld(x[t].im) * x[t].im;
    px /= N;
    const ld pt = px / powl(10.0L, ld(snr) / 10);   // total over both components
    std::vector<ld> nr(N), ni(N), xr(N), xi(N);
    bool finite = true;
    for (int t = 0; t < N; ++t) {
        nr[t] = ld(y[t].re) - ld(x[t].re); ni[t] = ld(y[t].im) - ld(x[t].im); xr[t] = x[t].re; xi[t] = x[t].im;
        if (!std::isfinite(y[t].re) || !std::isfinite(y[t].im)) finite = false;
    }
    if (!finite) { out.fail("C19:awgn-cmplx-nonfinite", js); return; }
    const Stat sr = stat_of(nr), si = stat_of(ni);
    const ld rn = sqrtl(ld(N)), pc = pt / 2;
    // total power = mean of 2N squared Gaussians of variance pt/2: standard error pt/sqrt(N)
    if (fabsl(sr.pow + si.pow - pt) > 6 * pt / rn) out.fail("C19:awgn-cmplx-power", js);
    if (fabsl(sr.pow - pc) > 6 * pc * sqrtl(2.0L / N) || fabsl(si.pow - pc) > 6 * pc * sqrtl(2.0L / N)) out.fail("C19:awgn-cmplx-component-power", js);
    if (fabsl(sr.mean) > 6 * sqrtl(pc) / rn || fabsl(si.mean) > 6 * sqrtl(pc) / rn) out.fail("C19:awgn-cmplx-mean", js);
    for (int k = 1; k <= 8; ++k)
        if (fabsl(sr.ac[k]) > 6 / rn || fabsl(si.ac[k]) > 6 / rn) out.fail("C19:awgn-cmplx-white", js);
    for (int k = -8; k <= 8; ++k)
        if (fabsl(xcorr(nr, ni, k)) > 6 * pc / rn) out.fail("C19:awgn-cmplx-reim-corr", js);
    if (fabsl(xcorr(nr, xr, 0) + xcorr(ni, xi, 0)) > 6 * sqrtl(pc * px) / rn || fabsl(xcorr(nr, xi, 0) - xcorr(ni, xr, 0)) > 6 * sqrtl(pc * px) / rn)
        out.fail("C19:awgn-cmplx-signal-corr", js);
    if (fabsl(sr.skew) > 8 * sqrtl(6.0L / N) || fabsl(sr.kurt) > 8 * sqrtl(24.0L / N) || fabsl(si.skew) > 8 * sqrtl(6.0L / N) ||
        fabsl(si.kurt) > 8 * sqrtl(24.0L / N))
        out.fail("C19:awgn-cmplx-shape", js);
    const long dev = lroundl(1000 * fabsl(sr.pow + si.pow - pt) / (pt / rn));
    out.stats["awgn_cmplx_max_dev_milli_se"] = std::max(out.stats["awgn_cmplx_max_dev_milli_se"], (long long)dev);
    {
        long untouched = 0, first_un = -1;
        for (int t = 0; t < N; ++t) if (y[t].re == x[t].re || y[t].im == x[t].im) { if (untouched++ == 0) first_un = t; }
        if (untouched > 3)
            out.fail("C19:awgn-cmplx-samples-without-noise", js.substr(0, js.size() - 1) + ",\"unchanged_samples\":" + std::to_string(untouched) + ",\"first\":" + std::to_string(first_un) + "}");
        for (int b = 0; b < NBLK; ++b) {
            const long lo = long((long long)N * b / NBLK), hi = long((long long)N * (b + 1) / NBLK);
            ld pr = 0, pi = 0;
            for (long t = lo; t < hi; ++t) { pr += nr[t] * nr[t]; pi += ni[t] * ni[t]; }
            pr /= (hi - lo); pi /= (hi - lo);
            const ld se = pc * sqrtl(2.0L / (hi - lo)), set = pt / sqrtl(ld(hi - lo));
            if (!(fabsl(pr + pi - pt) <= BLK_SE * set) || !(fabsl(pr - pc) <= BLK_SE * se) || !(fabsl(pi - pc) <= BLK_SE * se))
                out.fail("C19:awgn-cmplx-block-power", js.substr(0, js.size() - 1) + ",\"block\":[" + std::to_string(lo) + "," + std::to_string(hi) + "],\"power_over_expected\":[" + jd(double(pr / pc)) + "," + jd(double(pi / pc)) + "]}");
            out.stats["awgn_block_max_dev_milli_se"] = std::max(out.stats["awgn_block_max_dev_milli_se"], (long long)lroundl(1000 * fabsl(pr + pi - pt) / set));
        }
    }
    {
        rng(libseed);
        const arr_real z1 = randn(N), z2 = randn(N);
        const arr_real& zre = g_imag_first ? z2 : z1;
        const arr_real& zim = g_imag_first ? z1 : z2;
        const double sd = std::sqrt(0.5) * rms(x) * std::pow(10, ((-1) * snr / 20));
        long bad = -1;
        for (int t = 0; t < N && bad < 0; ++t) if (!same_bits(y[t].re, x[t].re + zre[t] * sd) || !same_bits(y[t].im, x[t].im + zim[t] * sd)) bad = t;
        if (bad >= 0) out.fail("C19:awgn-cmplx-not-x-plus-sigma-randn", js.substr(0, js.size() - 1) + ",\"first_differing_sample\":" + std::to_string(bad) + "}");
    }
    out.stat(N >= (1 << 16) && N % (1 << 16) == 0 ? "awgn_len_multiple_of_65536" : "awgn_len_other");
    if (out.stats["awgn_cmplx_multitone"] <= 1 && kind == 1) out.sample(js);
}

static void probe_awgn_order() {
    arr_cmplx z(8);
    for (int i = 0; i < 8; ++i) z[i] = cmplx_t{1, 1};
    rng(12345);
    const arr_real a = randn(8), b = randn(8);
    rng(12345);
    const arr_cmplx r = awgn(z, 0);
    const double sd = std::sqrt(0.5) * rms(z);
    int m_if = 0, m_rf = 0;
    for (int i = 0; i < 8; ++i) {
        if (r[i].re == 1 + b[i] * sd && r[i].im == 1 + a[i] * sd) ++m_if;
        if (r[i].re == 1 + a[i] * sd && r[i].im == 1 + b[i] * sd) ++m_rf;
    }
    if (m_if == 8) g_imag_first = true;
    else if (m_rf == 8) g_imag_first = false;
    else out.fail("C19:awgn-cmplx-not-two-randn-draws", "{\"op\":\"awgn_cmplx\",\"n\":8,\"snr\":0,\"rng\":12345}");
    out.stats["awgn_cmplx_imag_drawn_first"] = g_imag_first ? 1 : 0;
}

// operands that are temporaries give what named operands give (bit for bit, sign of zero included), the result owns its
// storage (bound to const&, range-for over the call expression), the input is left unchanged
static void awgn_value_category(vh::Rng& g) {
    static const int ns[] = {1, 2, 7, 64, 1000, 70000};
    for (int n : ns) {
        arr_real x(n);
        arr_cmplx xc(n);
        for (int i = 0; i < n; ++i) { x[i] = (i % 5 == 3) ? -0.0 : g.sym(); xc[i] = cmplx_t{g.sym(), (i % 7 == 2) ? -0.0 : g.sym()}; }
        if (n > 1) x[0] = 1;   // a non-zero signal
        const arr_real x0(x);
        const arr_cmplx xc0(xc);
        const double snr = -10 + 90 * g.unit();
        const int seed = g.range(0, 100000);
        const std::string js = "{\"op\":\"awgn_temporaries\",\"n\":" + std::to_string(n) + ",\"snr\":" + jd(snr) + ",\"rng\":" + std::to_string(seed) + "}";
        vh::set_current("C19:crash:awgn-temporaries", js);
        rng(seed);
        const arr_real y1 = awgn(x, snr);
        rng(seed);
        const arr_real& y2 = awgn(arr_real(x), snr);
        rng(seed);
        const arr_real& y3 = awgn(x * 1.0, snr);
        rng(seed);
        const arr_real& y4 = awgn(x.slice(0, n), snr);
        rng(seed);
        std::vector<double> y5;
        for (double v : awgn(x + zeros(n) * 0.0, snr)) y5.push_back(v);
        bool ok = y2.size() == n && y3.size() == n && y4.size() == n && int(y5.size()) == n;
        for (int i = 0; ok && i < n; ++i) ok = same_bits(y1[i], y2[i]) && same_bits(y1[i], y4[i]) && same_bits(x[i], x0[i]);
        // x * 1.0 keeps every bit; x + (+0) turns -0 into +0: compare on the values
        for (int i = 0; ok && i < n; ++i) ok = same_bits(y1[i], y3[i]) && y1[i] == y5[i];
        rng(seed);
        const arr_cmplx c1 = awgn(xc, snr);
        rng(seed);
        const arr_cmplx& c2 = awgn(arr_cmplx(xc), snr);
        rng(seed);
        const arr_cmplx& c3 = awgn(xc * 1.0, snr);
        bool okc = c2.size() == n && c3.size() == n;
        for (int i = 0; okc && i < n; ++i)
            okc = same_bits(c1[i].re, c2[i].re) && same_bits(c1[i].im, c2[i].im) && same_bits(c1[i].re, c3[i].re) && same_bits(c1[i].im, c3[i].im) &&
                  same_bits(xc[i].re, xc0[i].re) && same_bits(xc[i].im, xc0[i].im);
        vh::clear_current();
        out.n_oracle += 2;
        out.stat("awgn_temporaries", 2);
        if (!ok) out.fail("C19:awgn-real-temporary-operand", js);
        if (!okc) out.fail("C19:awgn-cmplx-temporary-operand", js);
    }
}

// CORR: the element-wise update with the drawn values as inputs
static void awgn_corr(vh::Rng& g, int n, bool cplx) {
    const double snr = g.coin() ? -10 + 90 * g.unit() : double(g.range(-10, 80));
    const double amp = std::pow(10.0, 3 * g.sym());
    const int seed = g.range(0, 100000);
    if (!cplx) {
        arr_real x(n);
        for (int i = 0; i < n; ++i) x[i] = amp * g.sym();
        rng(seed);
        const arr_real z = randn(n);
        rng(seed);
        const arr_real y = awgn(x, snr);
        out.corr("awgnR " + vh::hx(snr) + " " + vh::hxs(x) + " " + vh::hxs(z), vh::hxs(y));
    } else {
        arr_cmplx x(n);
        for (int i = 0; i < n; ++i) x[i] = cmplx_t{amp * g.sym(), amp * g.sym()};
        rng(seed);
        const arr_real z1 = randn(n), z2 = randn(n);
        rng(seed);
        const arr_cmplx y = awgn(x, snr);
        const arr_real& zre = g_imag_first ? z2 : z1;
        const arr_real& zim = g_imag_first ? z1 : z2;
        out.corr("awgnC " + vh::hx(snr) + " " + vh::hxs(x) + " " + vh::hxs(zre) + " " + vh::hxs(zim), vh::hxs(y));
    }
}

// ------------------------------------------------------------------------------------------------
// B. thd / sinad / snr
// ------------------------------------------------------------------------------------------------
// _periodogram of lib/snr.cpp (anonymous namespace there) re-stated with the public API; tied to the internal one
// by requiring thd(sig, Time) == thd(replica(sig), Psd) bit for bit.
static arr_real kaiser38(int n) { return window::kaiser(n, 38); }
static arr_real replica_periodogram(const arr_real& sig) {
    auto x = sig - mean(sig);
    auto w = kaiser38(x.size());
    w /= rms(w);
    const int n = 1 << nextpow2(sig.size());
    const real_t u = real_t(sig.size()) * n / 2;
    const arr_cmplx rf = fft(x * w, n).slice(0, n / 2);
    const arr_real spec = abs2(rf) / u;
    return spec;
}

static bool same_bits(const arr_real& a, const arr_real& b) {
    if (a.size() != b.size()) return false;
    for (int i = 0; i < a.size(); ++i) if (!same_bits(a[i], b[i])) return false;
    return true;
}

static double fold(double f) {   // alias into [0, 0.5]
    f = std::fmod(f, 1.0);
    return f > 0.5 ? 1.0 - f : f;
}

struct ToneCase {
    int N = 0, nfft = 0, H = 0;
    bool aliased = false;
    int grid = 0;   // 0 off-bin, 1 on an nfft bin, 2 coherent (on an N bin)
    int edge = -1;  // >= 0: constructed on the boundary of the family (boundary_case)
    double f0 = 0, A = 1;
    std::vector<double> dbc, ph;   // dbc[h] of harmonic h+2; ph[0..H]
    std::string json() const {
        std::string s = "{\"op\":\"tones\",\"n\":" + std::to_string(N) + ",\"f0\":" + jd(f0) + ",\"amp\":" + jd(A) + ",\"aliased\":" + (aliased ? "1" : "0") +
                        ",\"dbc\":[";
        for (size_t i = 0; i < dbc.size(); ++i) s += (i ? "," : "") + jd(dbc[i]);
        s += "],\"phase\":[";
        for (size_t i = 0; i < ph.size(); ++i) s += (i ? "," : "") + jd(ph[i]);
        s += "]";
        if (edge >= 0) s += ",\"boundary\":" + std::to_string(edge) + ",\"f0_bins\":" + jd(f0 * nfft);
        return s + "}";
    }
};

// eps (bins): rounding allowance of the distance computation for members constructed ON the boundary
static bool separated(const ToneCase& c, double eps = 0) {
    std::vector<double> b;
    for (int h = 1; h <= c.H + 1; ++h) b.push_back((c.aliased ? fold(h * c.f0) : h * c.f0) * c.nfft);
    for (size_t i = 0; i < b.size(); ++i) {
        if (b[i] < 100 - eps || b[i] > c.nfft / 2.0 - 100 + eps) return false;
        if (!c.aliased && (i + 1) * c.f0 > 0.5) return false;
        for (size_t j = 0; j < i; ++j) if (std::fabs(b[i] - b[j]) < 100 - eps) return false;
    }
    return true;
}

static void fill_levels(vh::Rng& g, ToneCase& c) {
    c.A = std::pow(10.0, 2 * g.sym());
    c.dbc.clear();
    c.ph.clear();
    for (int h = 0; h < c.H; ++h) c.dbc.push_back(-10 - 30 * g.unit());
    if (g.range(0, 5) == 0) c.dbc[0] = -10;
    if (g.range(0, 5) == 0) c.dbc[c.H - 1] = -40;
    for (int h = 0; h <= c.H; ++h) c.ph.push_back(6.283185307179586 * g.unit());
}

static ToneCase make_case(vh::Rng& g, int N) {
    ToneCase c;
    c.N = N;
    c.nfft = 1 << nextpow2(N);
    for (int attempt = 0; attempt < 4000; ++attempt) {
        c.H = g.range(1, 5);
        c.aliased = (g.range(0, 4) == 0);
        c.grid = g.range(0, 2);
        double f = c.aliased ? g.unit() * 0.5 : 100.0 / c.nfft + g.unit() * ((0.5 - 100.0 / c.nfft) / (c.H + 1) - 100.0 / c.nfft);
        if (c.grid == 1) f = std::round(f * c.nfft) / c.nfft;
        if (c.grid == 2) f = std::round(f * N) / N;
        c.f0 = f;
        if (separated(c)) break;
        c.H = 0;
    }
    if (c.H == 0) { c.H = 1; c.aliased = false; c.grid = 0; c.f0 = 0.11; }   // always separated for nfft >= 2048
    fill_levels(g, c);
    return c;
}

// A member of the stated tone family ON ITS BOUNDARY: one distance (several in the aliased constellations) is exactly
// d bins, d in [100, 130].  "Bin" of the transform (1/nfft) for edges 0, 2, 4..6, of the record (1/N, coherent for
// integer d; never closer than 100 transform bins) for edges 1, 3.
//   0 / 1  fundamental d bins from DC (the harmonics are then d bins from each other)
//   2 / 3  top harmonic d bins from Nyquist
//   4      aliased, f0 = (1 - d/nfft)/3: 2nd harmonic folds to f0 + d, 3rd to d bins from DC, 4th to f0 - d, ...
//   5      aliased, f0 = (1 + d/nfft)/3: mirrored (f0 - d, d from DC, f0 + d, ...)
//   6      aliased, f0 = 1/4 + d/(2 nfft): 2nd harmonic folds to d bins from Nyquist, 4th to 2d bins from DC
static const int NEDGE = 7;
static ToneCase boundary_case(vh::Rng& g, int N, int edge, double d) {
    ToneCase c;
    c.N = N;
    c.nfft = 1 << nextpow2(N);
    c.edge = edge;
    const double nf = c.nfft;
    for (int H = g.range(1, 5); H >= 1; --H) {
        c.H = H;
        c.aliased = edge >= 4;
        switch (edge) {
        case 0: c.f0 = d / nf; break;
        case 1: c.f0 = d / N; break;
        case 2: c.f0 = (0.5 - d / nf) / (H + 1); break;
        case 3: c.f0 = (0.5 - d / N) / (H + 1); break;
        case 4: c.f0 = (1 - d / nf) / 3; break;
        case 5: c.f0 = (1 + d / nf) / 3; break;
        default: c.f0 = 0.25 + d / (2 * nf); break;
        }
        const double bn = c.f0 * nf, bN = c.f0 * N;
        c.grid = (bn == std::floor(bn)) ? 1 : (bN == std::floor(bN)) ? 2 : 0;
        if (separated(c, 1e-6)) { fill_levels(g, c); return c; }
    }
    c.H = 0;   // no member of the family with this constellation at this length
    return c;
}

static arr_real synth(const ToneCase& c, double noise_dbc, vh::Rng* g) {
    arr_real x(c.N);
    std::vector<ld> a(c.H + 1, 1.0L);
    for (int h = 0; h < c.H; ++h) a[h + 1] = powl(10.0L, ld(c.dbc[h]) / 20);
    const ld na = g ? powl(10.0L, ld(noise_dbc) / 20) * sqrtl(0.5L) : 0;
    for (int t = 0; t < c.N; ++t) {
        ld v = 0;
        for (int h = 0; h <= c.H; ++h) {
            ld cyc = ld(h + 1) * ld(c.f0) * t;
            cyc -= floorl(cyc);
            v += a[h] * cosl(2 * PI_L * cyc + ld(c.ph[h]));
        }
        if (g) v += na * g->gauss();
        x[t] = double(ld(c.A) * v);
    }
    return x;
}

static std::string thd_tokens(const arr_real& spec_or_sig, int nharm, bool aliased, SinadType ty) {
    try {
        const ThdRes r = thd(spec_or_sig, nharm, aliased, ty);
        return vh::hx(r.value) + " " + vh::hxs(r.harmpow) + " " + vh::hxs(r.harmfreq);
    } catch (const std::exception&) {
        return "ERR";
    }
}

static void harm_corr(const arr_real& spec, int nharm, bool aliased) {
    const std::string lhs = "harm " + std::to_string(nharm) + " " + (aliased ? "1" : "0") + " " + vh::hxs(spec);
    vh::set_current("C19:crash:harm-analyze", "{\"op\":\"psd\",\"nharm\":" + std::to_string(nharm) + ",\"aliased\":" + (aliased ? "1" : "0") + ",\"spec\":" +
                                                  (spec.size() <= 64 ? vh::jarr(spec) : std::string("\"(long)\"")) + "}");
    std::string rhs = thd_tokens(spec, nharm, aliased, SinadType::Psd);
    rhs += " " + vh::hx(snr(spec, nharm, aliased, SinadType::Psd));
    rhs += " " + vh::hx(sinad(spec, SinadType::Psd));
    vh::clear_current();
    out.corr(lhs, rhs);
    out.stat("corr_harm");
}

static long long& smax(const char* k) { return out.stats[k]; }

static const double XSCALE[] = {1e-100, 1e-17, 1e-8, 1e8, 1e100};

// A component EXACTLY midway between two bins of the transform has two equal top bins in exact arithmetic, and for some
// phases / amplitudes / scale factors they are equal as doubles too.  With strict descents starting at the peak bin only,
// _get_psd_tone of lib/snr.cpp integrated half of the lobe (-3.01 dB, centroid off by > 1 bin; repaired in /repo 4c73026:
// the descents start at both ends of the plateau of bins equal to the peak).  The probe stays: oracle failures on an
// input whose spectrum shows such an exact tie are reported under their own key (C19:thd-lobe-top-tie, the failed
// clause in the witness), so a regression is named for what it is.
static bool lobe_top_tie(const ToneCase& c, const arr_real& spec) {
    for (int h = 1; h <= c.H + 1; ++h) {
        const double b = (c.aliased ? fold(h * c.f0) : h * c.f0) * c.nfft;
        const int k = int(std::floor(b));
        if (std::fabs(b - k - 0.5) < 1e-6 && k >= 0 && k + 1 < spec.size() && spec[k] == spec[k + 1]) return true;
    }
    return false;
}

static void measure_case(vh::Rng& g, const ToneCase& c, bool corr) {
    const int N = c.N;
    const std::string js = c.json();
    const arr_real x = synth(c, 0, nullptr);
    const int nh = c.H + 1;
    const arr_real spec = replica_periodogram(x);
    const bool tie_x = lobe_top_tie(c, spec);
    if (tie_x) out.stat("tones_lobe_top_exact_tie");
    auto fail = [&](const char* key, const std::string& j, bool tie) {
        if (tie) out.fail("C19:thd-lobe-top-tie", j.substr(0, j.size() - 1) + ",\"failed\":\"" + key + "\"}");
        else out.fail(key, j);
    };
    vh::set_current("C19:crash:thd", js);
    const ThdRes r = thd(x, nh, c.aliased);
    const double sd = sinad(x);
    const double sn = snr(x, nh, c.aliased);
    vh::clear_current();
    out.n_oracle++;
    out.stat(std::string("tones_H") + std::to_string(c.H));
    out.stat(c.aliased ? "tones_aliased" : "tones_plain");
    out.stat(c.grid == 0 ? "tones_offbin" : c.grid == 1 ? "tones_onbin" : "tones_coherent");
    out.stat((N & (N - 1)) == 0 ? "tones_len_pow2" : "tones_len_other");
    if (c.edge >= 0) out.stat(std::string("tones_boundary_edge") + std::to_string(c.edge));
    if (N > 100000) out.stat("tones_len_above_100000");
    ld hp = 0;
    for (int h = 0; h < c.H; ++h) hp += powl(10.0L, ld(c.dbc[h]) / 10);
    const double want = double(10 * log10l(hp));
    const double e_thd = std::fabs(r.value - want);
    if (!(e_thd <= 0.1)) fail("C19:thd-value", js, tie_x);
    double e_f = 0;
    if (r.harmfreq.size() != nh || r.harmpow.size() != nh) out.fail("C19:thd-shape", js);
    else {
        for (int h = 0; h < nh; ++h) {
            const double ft = c.aliased ? fold((h + 1) * c.f0) : (h + 1) * c.f0;
            const double e = std::fabs(r.harmfreq[h] - ft) * c.nfft;
            e_f = std::isnan(e) ? 1e9 : std::max(e_f, e);
        }
        if (!(e_f <= 0.1)) fail("C19:thd-freq", js, tie_x);
        double e_h = 0;   // per-harmonic level (statistic only: the property bounds the total)
        for (int h = 1; h < nh; ++h) e_h = std::max(e_h, std::fabs((r.harmpow[h] - r.harmpow[0]) - c.dbc[h - 1]));
        smax("thd_max_harm_err_femto_dB") = std::max(smax("thd_max_harm_err_femto_dB"), (long long)std::llround(1e15 * std::min(1.0, e_h)));
    }
    const double e_sd = std::fabs(sd - (-want));
    if (!(e_sd <= 1.5)) fail("C19:sinad-value", js, tie_x);
    smax("thd_max_err_femto_dB") = std::max(smax("thd_max_err_femto_dB"), (long long)std::llround(1e15 * std::min(1.0, e_thd)));
    smax("thd_max_freq_err_femto_bin") = std::max(smax("thd_max_freq_err_femto_bin"), (long long)std::llround(1e15 * std::min(e_f, 1.0)));
    smax("sinad_max_err_microdB") = std::max(smax("sinad_max_err_microdB"), (long long)std::llround(1e6 * e_sd));

    // the harness's re-statement of _periodogram is the library's (bit for bit)
    {
        const ThdRes rp = thd(spec, nh, c.aliased, SinadType::Psd);
        if (!same_bits(rp.value, r.value) || !same_bits(rp.harmpow, r.harmpow) || !same_bits(rp.harmfreq, r.harmfreq) ||
            !same_bits(sinad(spec, SinadType::Psd), sd) || !same_bits(snr(spec, nh, c.aliased, SinadType::Psd), sn))
            out.fail("C19:periodogram-replica-differs", js);
    }

    // scale invariance: an arbitrary positive factor (|delta| <= 1e-9 dB) and a power of two (exact)
    {
        const bool xs = g.range(0, 5) == 0;   // scale classes far outside 10^+-3
        const double cf = xs ? XSCALE[g.range(0, 4)] : std::pow(10.0, 3 * g.sym());
        if (xs) out.stat("scale_extreme_factor");
        const arr_real xc = x * cf;
        const ThdRes rc = thd(xc, nh, c.aliased);
        const double sdc = sinad(xc), snc = snr(xc, nh, c.aliased);
        const std::string js2 = js.substr(0, js.size() - 1) + ",\"scale\":" + jd(cf) + "}";
        bool bad_t = !(std::fabs(rc.value - r.value) <= 1e-9), bad_s = !(std::fabs(sdc - sd) <= 1e-9), bad_f = false;
        for (int h = 0; h < nh && h < rc.harmfreq.size(); ++h)
            if (!(std::fabs(rc.harmfreq[h] - r.harmfreq[h]) * c.nfft <= 1e-9)) bad_f = true;
        if (bad_t || bad_s || bad_f) {
            const bool tie = tie_x || lobe_top_tie(c, replica_periodogram(xc));   // a tie made or broken by the factor's rounding
            if (bad_t) fail("C19:scale-thd", js2, tie);
            if (bad_s) fail("C19:scale-sinad", js2, tie);
            if (bad_f) fail("C19:scale-freq", js2, tie);
        }
        // snr of a noise-free signal is the ratio to the ROUNDING noise of the transform: not a defined quantity;
        // its dependence on the factor is recorded, the clause is checked on signals with a noise floor below
        smax("scale_snr_noisefree_max_delta_millidB") =
            std::max(smax("scale_snr_noisefree_max_delta_millidB"), (long long)std::llround(1e3 * std::min(1e6, std::fabs(snc - sn))));
        const int e2 = g.range(-20, 20);
        const double p2 = std::ldexp(1.0, e2);
        const arr_real xp = x * p2;
        const ThdRes rq = thd(xp, nh, c.aliased);
        if (!same_bits(rq.value, r.value) || !same_bits(rq.harmfreq, r.harmfreq) || !same_bits(sinad(xp), sd) || !same_bits(snr(xp, nh, c.aliased), sn))
            out.fail("C19:scale-pow2-not-exact", js.substr(0, js.size() - 1) + ",\"scale\":" + jd(p2) + "}");
        out.n_oracle += 2;
    }
    // failed calls in the history: after a rejected nharm and a rejected (oversize) record the same call returns the same
    if (g.range(0, 3) == 0) {
        int thrown = 0;
        vh::set_current("C19:crash:thd-after-failed-call", js);
        try { (void)thd(x, 1, c.aliased); } catch (const std::exception&) { ++thrown; }
        try { (void)thd(spec, 1, c.aliased, SinadType::Psd); } catch (const std::exception&) { ++thrown; }
        try { (void)sinad(zeros((1 << 18) + 1)); } catch (const std::exception&) { ++thrown; }
        try { (void)snr(zeros((1 << 18) + 1), nh, c.aliased); } catch (const std::exception&) { ++thrown; }
        const ThdRes ra = thd(x, nh, c.aliased);
        const double sda = sinad(x), sna = snr(x, nh, c.aliased);
        vh::clear_current();
        out.n_oracle++;
        out.stat("tones_after_failed_calls");
        if (thrown != 4) out.fail("C19:thd-invalid-call-accepted", js.substr(0, js.size() - 1) + ",\"thrown\":" + std::to_string(thrown) + "}");
        if (!same_bits(ra.value, r.value) || !same_bits(ra.harmpow, r.harmpow) || !same_bits(ra.harmfreq, r.harmfreq) || !same_bits(sda, sd) || !same_bits(sna, sn))
            out.fail("C19:thd-differs-after-failed-call", js);
    }
    // the same family with a noise floor (-40..-110 dBc): snr / sinad / thd under an arbitrary positive factor
    {
        const double ndb = -40 - 70 * g.unit();
        vh::Rng g2(g.next());
        const arr_real xn = synth(c, ndb, &g2);
        const double cf = std::pow(10.0, 3 * g.sym());
        const arr_real xc = xn * cf;
        const std::string js2 = js.substr(0, js.size() - 1) + ",\"noise_dbc\":" + jd(ndb) + ",\"scale\":" + jd(cf) + "}";
        vh::set_current("C19:crash:snr", js2);
        const double s0 = snr(xn, nh, c.aliased), s1 = snr(xc, nh, c.aliased);
        const double d0 = sinad(xn), d1 = sinad(xc);
        const double t0 = thd(xn, nh, c.aliased).value, t1 = thd(xc, nh, c.aliased).value;
        vh::clear_current();
        out.n_oracle++;
        if (!(std::fabs(s1 - s0) <= 1e-9)) out.fail("C19:scale-snr", js2);
        if (!(std::fabs(d1 - d0) <= 1e-9)) out.fail("C19:scale-sinad", js2);
        if (!(std::fabs(t1 - t0) <= 1e-9)) out.fail("C19:scale-thd", js2);
        smax("scale_max_delta_femto_dB") = std::max(smax("scale_max_delta_femto_dB"),
                                                    (long long)std::llround(1e15 * std::min(1.0, std::max({std::fabs(s1 - s0), std::fabs(d1 - d0), std::fabs(t1 - t0)}))));
        if (corr) harm_corr(replica_periodogram(xn), nh, c.aliased);
    }
    if (corr) harm_corr(spec, nh, c.aliased);
    if (out.stats["tones_plain"] + out.stats["tones_aliased"] <= 3) out.sample(js);
}

static void measure_trial(vh::Rng& g, int N, bool corr) { measure_case(g, make_case(g, N), corr); }

static void boundary_trial(vh::Rng& g, int N, int edge, double d, bool corr = false) {
    const ToneCase c = boundary_case(g, N, edge, d);
    if (c.H == 0) { out.stat("tones_boundary_not_in_family"); return; }
    measure_case(g, c, corr);
    if (out.stats["tones_boundary_samples"]++ < 2) out.sample(c.json());
}

// CORR: _periodogram against the model's textbook DFT, and the Time-domain entry points against the whole model
static void time_corr(vh::Rng& g, int N) {
    arr_real x(N);
    const int nfft = 1 << nextpow2(N);
    const double f1 = (8 + g.unit() * (nfft / 2 - 16)) / nfft, f2 = (8 + g.unit() * (nfft / 2 - 16)) / nfft;
    const double a2 = std::pow(10.0, -(10 + 30 * g.unit()) / 20), na = std::pow(10.0, -(30 + 40 * g.unit()) / 20), amp = std::pow(10.0, 2 * g.sym());
    const double p1 = 6.283185307179586 * g.unit(), p2 = 6.283185307179586 * g.unit(), dc = g.coin() ? 0.0 : g.sym();
    for (int t = 0; t < N; ++t)
        x[t] = amp * (std::cos(6.283185307179586 * f1 * t + p1) + a2 * std::cos(6.283185307179586 * f2 * t + p2) + na * g.gauss() + dc);
    const arr_real w = kaiser38(N);
    out.corr("pgram " + vh::hxs(x) + " " + vh::hxs(w), vh::hxs(replica_periodogram(x)));
    const int nharm = g.range(2, 4);
    const bool al = g.coin();
    const ThdRes r = thd(x, nharm, al);
    out.corr("measT " + std::to_string(nharm) + " " + (al ? "1" : "0") + " " + vh::hxs(x) + " " + vh::hxs(w),
             vh::hx(r.value) + " " + vh::hxs(r.harmfreq) + " " + vh::hx(snr(x, nharm, al)) + " " + vh::hx(sinad(x)));
    out.stat("corr_time");
}

// exhaustive small spectra over a 4-letter alphabet (ties, zeros, plateaus, peaks at both ends)
static void small_spectra(int nmax) {
    static const double alpha[4] = {0.0, 1.0, 2.0, 3.0};
    for (int n = 1; n <= nmax; ++n) {
        long total = 1;
        for (int i = 0; i < n; ++i) total *= 4;
        for (long code = 0; code < total; ++code) {
            arr_real s(n);
            long cd = code;
            for (int i = 0; i < n; ++i) { s[i] = alpha[cd & 3]; cd >>= 2; }
            for (int nharm = 1; nharm <= 3; ++nharm)
                for (int al = 0; al < 2; ++al) {
                    if (nharm == 1 && al == 1) continue;
                    harm_corr(s, nharm, al != 0);
                }
        }
    }
}

static void random_spectra(vh::Rng& g, int count) {
    for (int r = 0; r < count; ++r) {
        const int n = g.range(7, r % 8 == 0 ? 2000 : 200);
        arr_real s(n);
        const int mode = g.range(0, 3);
        for (int i = 0; i < n; ++i) {
            switch (mode) {
            case 0: s[i] = double(g.range(0, 5)); break;                         // many ties and zeros
            case 1: s[i] = -std::log(1 - g.unit() * 0.999999); break;            // exponential: a noise periodogram
            case 2: s[i] = std::pow(10.0, 6 * g.sym()); break;                   // wide dynamic range
            default: s[i] = (g.range(0, 3) == 0) ? 0.0 : g.unit(); break;        // zeros inside
            }
        }
        const int npk = g.range(0, 4);   // a few lobes
        for (int p = 0; p < npk; ++p) {
            const int c0 = g.range(0, n - 1), wd = g.range(1, 9);
            const double pk = std::pow(10.0, 2 + 4 * g.unit());
            for (int i = std::max(0, c0 - wd); i <= std::min(n - 1, c0 + wd); ++i) s[i] += pk * std::exp(-0.5 * (i - c0) * (i - c0));
        }
        harm_corr(s, g.range(1, 6), g.coin());
    }
}

// ------------------------------------------------------------------------------------------------
// C. random streams
// ------------------------------------------------------------------------------------------------
struct Op {
    int kind = 0, n = 0, lo = 0, hi = 0;
    double a = 0, b = 1, snr = 0;
};
static const char* op_name(int k) {
    static const char* nm[] = {"rand", "rand_n", "rand_range", "randn", "randn_n", "randi_max", "randi_max_n", "randi_range", "randi_range_n", "awgn_real", "awgn_cmplx"};
    return nm[k];
}
static const int NOPS = 11;

static void pick_range(vh::Rng& g, int& lo, int& hi) {
    switch (g.range(0, 6)) {
    case 0: lo = hi = g.range(-50, 50); break;                                   // single value
    case 1: hi = -g.range(1, 1000); lo = hi - g.range(0, 7); break;              // negative, narrow
    case 2: lo = -g.range(1, 1000000); hi = g.range(-1000000, -1); if (lo > hi) std::swap(lo, hi); break;   // negative
    case 3: lo = -g.range(0, 5); hi = g.range(0, 5); break;                      // around zero
    case 4: lo = INT_MIN; hi = INT_MAX; break;
    case 5: lo = INT_MAX - g.range(0, 3); hi = INT_MAX; break;
    default: lo = g.range(-100000, 100000); hi = lo + g.range(0, 100000); break;
    }
}

static Op make_op(vh::Rng& g) {
    Op o;
    o.kind = g.range(0, NOPS - 1);
    o.n = g.range(0, 9);
    if (o.kind == 5 || o.kind == 6) { o.lo = 1; o.hi = g.range(0, 3) == 0 ? 1 : g.range(1, 1000); }
    if (o.kind == 7 || o.kind == 8) pick_range(g, o.lo, o.hi);
    if (o.kind == 2) { o.a = 10 * g.sym(); o.b = o.a + 10 * g.unit(); }
    o.snr = -10 + 90 * g.unit();
    o.a = (o.kind == 2) ? o.a : g.sym();
    return o;
}

static uint64_t bits(double d) { uint64_t u; std::memcpy(&u, &d, 8); return u; }

// runs the program on the library's thread-local stream; appends every returned value; reports range violations
static void run_prog(const std::vector<Op>& prog, std::vector<uint64_t>& out_bits, std::string& viol, std::string* toks = nullptr) {
    struct Sink {
        std::vector<uint64_t>& b;
        std::string* t;
        size_t count = 0;
        void push_back(uint64_t u) { b.push_back(u); }
        void real(double d) { b.push_back(bits(d)); if (t) { *t += " " + vh::hx(d); } ++count; }
        void integer(int v) { b.push_back(uint64_t(int64_t(v))); if (t) { *t += " " + std::to_string(v); } ++count; }
    } o{out_bits, toks};
    for (const Op& p : prog) {
        switch (p.kind) {
        case 0: { const double v = dsplib::rand(); o.real(v); if (!(v >= 0 && v < 1)) viol = "rand"; break; }
        case 1: { const arr_real v = rand(p.n); if (v.size() != p.n) viol = "rand_n size"; for (int i = 0; i < v.size(); ++i) { o.real(v[i]); if (!(v[i] >= 0 && v[i] < 1)) viol = "rand_n"; } break; }
        case 2: { const arr_real v = rand({p.a, p.b}, p.n); if (v.size() != p.n) viol = "rand_range size"; for (int i = 0; i < v.size(); ++i) { o.real(v[i]); if (!(v[i] >= p.a && v[i] <= p.b)) viol = "rand_range"; } break; }
        case 3: { o.real(randn()); break; }
        case 4: { const arr_real v = randn(p.n); if (v.size() != p.n) viol = "randn_n size"; for (int i = 0; i < v.size(); ++i) o.real(v[i]); break; }
        case 5: { const int v = randi(p.hi); o.integer(v); if (v < 1 || v > p.hi) viol = "randi_max"; break; }
        case 6: { const arr_int v = randi(p.hi, p.n); if (v.size() != p.n) viol = "randi_max_n size"; for (int i = 0; i < v.size(); ++i) { o.integer(v[i]); if (v[i] < 1 || v[i] > p.hi) viol = "randi_max_n"; } break; }
        case 7: { const int v = randi({p.lo, p.hi}); o.integer(v); if (v < p.lo || v > p.hi) viol = "randi_range"; break; }
        case 8: { const arr_int v = randi({p.lo, p.hi}, p.n); if (v.size() != p.n) viol = "randi_range_n size"; for (int i = 0; i < v.size(); ++i) { o.integer(v[i]); if (v[i] < p.lo || v[i] > p.hi) viol = "randi_range_n"; } break; }
        case 9: {
            arr_real x(p.n);
            for (int i = 0; i < p.n; ++i) x[i] = p.a + std::cos(0.7 * i);
            const arr_real y = awgn(x, p.snr);
            if (y.size() != p.n) viol = "awgn_real size";
            for (int i = 0; i < y.size(); ++i) o.real(y[i]);
            break;
        }
        default: {
            arr_cmplx x(p.n);
            for (int i = 0; i < p.n; ++i) x[i] = cmplx_t{p.a + std::cos(0.7 * i), std::sin(0.3 * i)};
            const arr_cmplx y = awgn(x, p.snr);
            if (y.size() != p.n) viol = "awgn_cmplx size";
            for (int i = 0; i < y.size(); ++i) { o.real(y[i].re); o.real(y[i].im); }
            break;
        }
        }
    }
}

static std::string prog_json(int seed, const std::vector<Op>& prog) {
    std::string s = "{\"op\":\"replay\",\"seed\":" + std::to_string(seed) + ",\"prog\":[";
    for (size_t i = 0; i < prog.size(); ++i) {
        const Op& p = prog[i];
        s += std::string(i ? "," : "") + "[\"" + op_name(p.kind) + "\"," + std::to_string(p.n) + "," + std::to_string(p.lo) + "," + std::to_string(p.hi) + "," + jd(p.a) + "," +
             jd(p.b) + "," + jd(p.snr) + "]";
    }
    return s + "]}";
}

static void replay_trial(vh::Rng& g, int seed) {
    std::vector<Op> prog;
    const int len = g.range(3, 14);
    for (int i = 0; i < len; ++i) prog.push_back(make_op(g));
    // every generator at least once in the first and the last seed of a run
    if (seed % 50 == 0) { prog.clear(); for (int k = 0; k < NOPS; ++k) { Op o = make_op(g); while (o.kind != k) o = make_op(g); o.n = std::max(o.n, 1); prog.push_back(o); } }
    const std::string js = prog_json(seed, prog);
    std::vector<uint64_t> o1, o2, o3;
    std::string viol;
    vh::set_current("C19:crash:generators", js);
    // history before run 1: an even number of scalar randn() calls (possibly zero)
    for (int i = 2 * g.range(0, 2); i > 0; --i) (void)randn();
    rng(seed);
    run_prog(prog, o1, viol);
    // history before run 2: an ODD number of scalar randn() calls and other generators — a distribution object that
    // outlived its call (static) would hand its cached second value to the first randn() after the re-seed
    for (int i = 2 * g.range(0, 2) + 1; i > 0; --i) (void)randn();
    if (g.coin()) (void)randi({-3, 3}, g.range(1, 5));
    if (g.coin()) (void)rand(g.range(1, 5));
    rng(seed);
    run_prog(prog, o2, viol);
    // run 3: re-seed in the middle of a partially consumed normal pair inside an array call (odd n)
    (void)randn(2 * g.range(0, 3) + 1);
    rng(seed);
    if (g.coin()) {
        // ... and a failed library call (rejected nharm, oversize record) in the MIDDLE of the program: it must leave the
        // thread's stream alone
        const size_t cut = size_t(g.range(0, int(prog.size())));
        run_prog(std::vector<Op>(prog.begin(), prog.begin() + cut), o3, viol);
        try { (void)thd(zeros(16), 1); out.fail("C19:thd-invalid-call-accepted", "{\"op\":\"thd\",\"n\":16,\"nharm\":1}"); } catch (const std::exception&) {}
        try { (void)sinad(zeros((1 << 18) + 1)); out.fail("C19:thd-invalid-call-accepted", "{\"op\":\"sinad\",\"n\":262145}"); } catch (const std::exception&) {}
        run_prog(std::vector<Op>(prog.begin() + cut, prog.end()), o3, viol);
        out.stat("replay_failed_call_in_history");
    } else
        run_prog(prog, o3, viol);
    vh::clear_current();
    out.n_oracle += 3;
    for (const Op& p : prog) out.stat(std::string("replay_op_") + op_name(p.kind));
    if (!viol.empty()) out.fail("C19:generator-out-of-range", js.substr(0, js.size() - 1) + ",\"which\":\"" + viol + "\"}");
    if (o1 != o2 || o1 != o3) {
        size_t i = 0;
        while (i < o1.size() && i < o2.size() && o1[i] == o2[i] && (i >= o3.size() || o1[i] == o3[i])) ++i;
        out.fail("C19:replay-differs", js.substr(0, js.size() - 1) + ",\"first_differing_value\":" + std::to_string(i) + "}");
    }
    // a different seed gives a different stream (rng(seed) must not ignore its argument)
    rng(seed);
    const double r0 = dsplib::rand();
    const double z0 = randn();
    rng(seed == INT_MAX ? seed - 1 : seed + 1);
    const double r1 = dsplib::rand();
    const double z1 = randn();
    if (r0 == r1 && z0 == z1) out.fail("C19:rng-seed-ignored", "{\"op\":\"rng\",\"seed\":" + std::to_string(seed) + "}");
    if (seed == 1 || seed == 50) out.sample(js);
}

// randi reaches BOTH inclusive bounds and nothing outside (small ranges, many draws)
static void randi_endpoints(vh::Rng& g, int count) {
    for (int r = 0; r < count; ++r) {
        const int w = g.range(0, 7);
        int lo = 0;
        switch (r % 4) {
        case 0: lo = -g.range(1, 100) - w; break;   // negative range
        case 1: lo = -g.range(0, w); break;         // straddles zero
        case 2: lo = 1; break;                      // randi(imax) form
        default: lo = g.range(0, 1000000); break;
        }
        const int hi = lo + w;
        rng(g.range(0, 1000));
        const int nd = 4000;
        arr_int v = (lo == 1 && g.coin()) ? randi(hi, nd) : randi({lo, hi}, nd);
        bool sl = false, sh = false, bad = false;
        for (int i = 0; i < v.size(); ++i) {
            if (v[i] == lo) sl = true;
            if (v[i] == hi) sh = true;
            if (v[i] < lo || v[i] > hi) bad = true;
        }
        for (int i = 0; i < 200; ++i) {   // scalar forms
            const int s = (lo == 1 && (i & 1)) ? randi(hi) : randi({lo, hi});
            if (s < lo || s > hi) bad = true;
        }
        out.n_oracle++;
        out.stat("randi_width_" + std::to_string(w + 1));
        const std::string js = "{\"op\":\"randi\",\"lo\":" + std::to_string(lo) + ",\"hi\":" + std::to_string(hi) + ",\"draws\":" + std::to_string(nd) + "}";
        if (bad) out.fail("C19:generator-out-of-range", js.substr(0, js.size() - 1) + ",\"which\":\"randi\"}");
        if (!sl || !sh) out.fail("C19:randi-bound-never-reached", js);
    }
}

// CORR: rand / randn / randi / awgn streams against the model's mt19937 + libstdc++ distributions
static void stream_corr(vh::Rng& g, int seed) {
    std::vector<Op> prog;
    const int len = g.range(2, 8);
    std::string lhs = "stream " + std::to_string(seed) + " " + (g_imag_first ? "1" : "0") + " " + std::to_string(len);
    for (int i = 0; i < len; ++i) {
        Op o = make_op(g);
        o.n = g.range(0, 7);
        prog.push_back(o);
        lhs += " " + std::to_string(o.kind) + " " + std::to_string(o.n) + " " + std::to_string(o.lo) + " " + std::to_string(o.hi) + " " + vh::hx(o.a) + " " + vh::hx(o.b) + " " +
               vh::hx(o.snr);
    }
    std::vector<uint64_t> o;
    std::string viol, toks;
    rng(seed);
    run_prog(prog, o, viol, &toks);
    out.corr(lhs, std::to_string(o.size()) + toks);
    out.stat("corr_stream");
}

// CORR: one call returning 2^16 .. 2^20 values inside a program (small calls before, scalar draws after: the engine has
// advanced by exactly the right amount), compared through a digest: count, FNV-1a over the 64-bit patterns, first, last
static void stream_digest_corr(vh::Rng& g, int seed, int kind, int n) {
    std::vector<Op> prog;
    Op pre = make_op(g);
    pre.n = g.range(0, 7);
    Op big = make_op(g);
    while (big.kind != kind) big = make_op(g);
    big.n = n;
    Op z1, z2 = make_op(g), z3;
    z1.kind = 3;   // randn(): a fresh normal_distribution after the big call
    z2.n = g.range(1, 7);
    z3.kind = 0;   // rand()
    if (g.coin()) prog.push_back(pre);
    prog.push_back(big);
    prog.push_back(z1);
    prog.push_back(z2);
    prog.push_back(z3);
    std::string lhs = "streamD " + std::to_string(seed) + " " + (g_imag_first ? "1" : "0") + " " + std::to_string(prog.size());
    for (const Op& o : prog)
        lhs += " " + std::to_string(o.kind) + " " + std::to_string(o.n) + " " + std::to_string(o.lo) + " " + std::to_string(o.hi) + " " + vh::hx(o.a) + " " + vh::hx(o.b) + " " +
               vh::hx(o.snr);
    std::vector<uint64_t> o;
    std::string viol;
    vh::set_current("C19:crash:generators", prog_json(seed, prog));
    rng(seed);
    run_prog(prog, o, viol);
    vh::clear_current();
    uint64_t h = 0xcbf29ce484222325ULL;
    for (uint64_t u : o) { h ^= u; h *= 0x100000001b3ULL; }
    out.corr(lhs, std::to_string(o.size()) + " " + std::to_string((unsigned long long)h) + " " + std::to_string((unsigned long long)(o.empty() ? 0 : o.front())) + " " +
                      std::to_string((unsigned long long)(o.empty() ? 0 : o.back())));
    if (!viol.empty()) out.fail("C19:generator-out-of-range", prog_json(seed, prog).substr(0, prog_json(seed, prog).size() - 1) + ",\"which\":\"" + viol + "\"}");
    out.stat("corr_stream_digest");
    out.stat(std::string("corr_stream_digest_") + op_name(kind));
}

// ------------------------------------------------------------------------------------------------
int main(int argc, char** argv) {
    vh::Args a(argc, argv);
    vh::install_guards();
    vh::Rng g(a.seed * 0x9e3779b97f4a7c15ULL + 19);
    out.max_samples = 10;
    vh::watch(a.thorough ? 3000 : 600);

    // ---- A. awgn
    probe_awgn_order();
    {
        const int trials = a.thorough ? 400 : 80;
        const double lmax = a.thorough ? 6.0 : 5.0;
        for (int t = 0; t < trials; ++t) {
            int N = int(std::pow(10.0, 4 + (lmax - 4) * g.unit()));
            if (t == 0) N = 10000;
            if (t == 1) N = a.thorough ? 1000000 : 100000;
            double snr = -10 + 90 * g.unit();
            if (t % 9 == 2) snr = -10;
            if (t % 9 == 5) snr = 80;
            if (t % 9 == 7) snr = double(g.range(-10, 80));
            const double amp = std::pow(10.0, 3 * g.sym());   // power over 120 dB
            const int kind = t % 5;
            if (t & 1) awgn_cmplx_trial(g, N, snr, amp, kind, g.range(0, 1000000));
            else awgn_real_trial(g, N, snr, amp, kind, g.range(0, 1000000));
        }
        // length classes (one big call after smaller ones): exact multiples of 2^16 / 2^17 / 2^18, 2^18 +- 1, the ends of
        // the stated range, lengths with a prime factor above 46340
        {
            std::vector<int> edge = {(1 << 18) - 1, (1 << 18) + 1, 1000000, 999424, 46349, 65537, 999983};
            for (int k = 1; k <= 4; ++k) { edge.push_back(k << 16); edge.push_back(k << 17); edge.push_back(k << 18); }
            std::sort(edge.begin(), edge.end());
            edge.erase(std::unique(edge.begin(), edge.end()), edge.end());
            out.stats["awgn_length_classes"] = (long long)edge.size();
            for (int rep = 0; rep < (a.thorough ? 3 : 1); ++rep)
                for (size_t i = 0; i < edge.size(); ++i)
                    for (int cplx = 0; cplx < 2; ++cplx) {
                        double snr = -10 + 90 * g.unit();
                        if (g.range(0, 7) == 0) snr = g.coin() ? -10 : 80;
                        const double amp = std::pow(10.0, 3 * g.sym());
                        const int kind = int((i + rep + cplx) % 5);
                        if (cplx) awgn_cmplx_trial(g, edge[i], snr, amp, kind, g.range(0, 1000000));
                        else awgn_real_trial(g, edge[i], snr, amp, kind, g.range(0, 1000000));
                    }
            // amplitude classes far outside 10^+-3 (the oracle is relative)
            for (int rep = 0; rep < (a.thorough ? 4 : 1); ++rep)
                for (double amp : XSCALE) {
                    const int N = rep == 0 ? 10000 : g.range(10000, 100000);
                    awgn_real_trial(g, N, -10 + 90 * g.unit(), amp, g.range(0, 4), g.range(0, 1000000));
                    awgn_cmplx_trial(g, N, -10 + 90 * g.unit(), amp, g.range(0, 4), g.range(0, 1000000));
                    out.stat("awgn_extreme_amplitude", 2);
                }
            awgn_value_category(g);
        }
        // excluded points of the theorems, on the real code: empty input draws nothing, zero signal gets zero noise
        {
            vh::set_current("C19:crash:awgn-empty", "{\"op\":\"awgn_real\",\"n\":0}");
            const arr_real e0 = awgn(arr_real(0), 10);
            const arr_cmplx c0 = awgn(arr_cmplx(0), 10);
            vh::clear_current();
            if (e0.size() != 0 || c0.size() != 0) out.fail("C19:awgn-empty", "{\"op\":\"awgn_real\",\"n\":0}");
            const arr_real z = awgn(zeros(100), 20);
            bool ok = z.size() == 100;
            for (int i = 0; ok && i < 100; ++i) if (z[i] != 0) ok = false;
            if (!ok) out.fail("C19:awgn-zero-signal", "{\"op\":\"awgn_real\",\"n\":100,\"amp\":0,\"snr\":20}");
            out.n_oracle += 2;
        }
        static const int ns[] = {1, 2, 3, 5, 8, 17, 64, 257};
        for (int rep = 0; rep < (a.thorough ? 12 : 3); ++rep)
            for (int n : ns) { awgn_corr(g, n, false); awgn_corr(g, n, true); }
        out.stats["corr_awgn"] = out.n_cases;
    }

    // ---- B. measurement functions
    {
        std::vector<int> lens = {2048, 2049, 2500, 3000, 4095, 4096, 4097, 5000, 8192, 10000, 16384};
        std::vector<int> big = {30000, 65536, 100000, 131071, 131072};
        const int reps = a.thorough ? 20 : 5;
        for (int rep = 0; rep < reps; ++rep) {
            for (int N : lens) measure_trial(g, N, rep == 0 && N <= 8192);
            for (int k = 0; k < 3; ++k) measure_trial(g, g.range(2048, 20000), false);
            if (a.thorough) for (int N : big) measure_trial(g, N, false);
            else measure_trial(g, big[(rep * 4 + 1) % big.size()], false);
            if (a.thorough) measure_trial(g, g.range(20000, 131072), false);
        }
        // the boundary of the tone family at every length class
        {
            const std::vector<int> blens = {2048, 4096, 8192, 16384, 32768, 65536, 131072, 2049, 2500, 3000, 4095, 4097, 5000,
                                            10000, 30000, 46349, 65537, 100000, 100001, 100003, 120000, 131071};
            static const double ds[] = {100, 100.5, 101, 128, 130};
            if (a.thorough) {
                for (int N : blens)
                    for (int e = 0; e < NEDGE; ++e) {
                        for (double d : ds) boundary_trial(g, N, e, d);
                        boundary_trial(g, N, e, 100 + 30 * g.unit());
                        boundary_trial(g, N, e, double(g.range(100, 130)));
                    }
            } else {
                // fixed representatives: the longest records with the fundamental 100 .. 128 bins from DC
                boundary_trial(g, 131072, 0, 100);
                boundary_trial(g, 131072, 0, 100.5, true);
                boundary_trial(g, 131072, 0, 100.5 + 27.5 * g.unit());
                boundary_trial(g, 131072, 0, 128);
                boundary_trial(g, 120000, 1, 101);
                boundary_trial(g, 120000, 0, 100);
                boundary_trial(g, 100001, 1, 100 + 17 * g.unit());
                boundary_trial(g, 131071, 0, double(g.range(100, 130)));
                boundary_trial(g, 131072, 2, 100);
                boundary_trial(g, 131072, g.range(4, 6), 100);
                boundary_trial(g, 2048, 0, 100);
                boundary_trial(g, 2048, 2, 100);
                // and one constellation per length, rotating with the run's seed
                for (size_t i = 0; i < blens.size(); ++i) {
                    const int e = int((i + a.seed) % NEDGE), k = g.range(0, 6);
                    boundary_trial(g, blens[i], e, k < 5 ? ds[k] : 100 + 30 * g.unit());
                }
            }
        }
        // KNOWN FINDING, reproduced in every run (known_findings.txt, key C19:sinad-value with witness dbc = [-40]): a noise-free tone whose only
        // harmonic sits at -40 dBc, 2500 samples (zero-padded to 4096), fundamental 101 transform bins from DC: sinad 38.31 dB instead of 40.00
        {
            ToneCase kc;
            kc.N = 2500; kc.nfft = 4096; kc.H = 1; kc.aliased = false; kc.grid = 1; kc.edge = 0;
            kc.f0 = 0.024658203125; kc.A = 1.5407477221157089;
            kc.dbc = {-40.0}; kc.ph = {1.4280163766780045, 0.044298615609930196};
            vh::Rng kg(20260929);
            measure_case(kg, kc, false);
            out.stat("known_finding_probe_sinad_single_minus40dbc");
        }
        small_spectra(a.thorough ? 6 : 5);
        random_spectra(g, a.thorough ? 1500 : 300);
        // the all-zero spectrum (0/0 inside the code: NaN on both sides of every scale-invariance statement)
        harm_corr(zeros(16), 3, false);
        static const int tl[] = {16, 31, 64, 100, 128, 200, 256, 300};
        for (int rep = 0; rep < (a.thorough ? 6 : 1); ++rep)
            for (int N : tl) time_corr(g, N);
    }

    // ---- C. random streams
    {
        const int smax_ = a.thorough ? 1000 : 100;
        for (int seed = 0; seed <= smax_; ++seed) replay_trial(g, seed);
        replay_trial(g, -1);
        replay_trial(g, INT_MAX);
        replay_trial(g, INT_MIN);
        randi_endpoints(g, a.thorough ? 400 : 80);
        for (int k = 0; k < (a.thorough ? 300 : 60); ++k) stream_corr(g, k < 20 ? k : g.range(0, 1000));
        stream_corr(g, -1);
        // single calls of 2^16 .. 2^20 values: awgn real / complex, randn(n), rand(n), rand(range, n), randi(range, n)
        if (a.thorough) {
            std::vector<int> big = {(1 << 18) - 1, (1 << 18) + 1, 1000000, 999424, 999983};
            for (int k = 1; k <= 4; ++k) { big.push_back(k << 16); big.push_back(k << 17); big.push_back(k << 18); }
            std::sort(big.begin(), big.end());
            big.erase(std::unique(big.begin(), big.end()), big.end());
            for (int n : big) {
                stream_digest_corr(g, g.range(0, 1000), 9, n);
                stream_digest_corr(g, g.range(0, 1000), 10, n);
                stream_digest_corr(g, g.range(0, 1000), 4, n);
            }
            static const int other[] = {1, 2, 6, 8};
            for (int k : other) { stream_digest_corr(g, g.range(0, 1000), k, 1 << 18); stream_digest_corr(g, g.range(0, 1000), k, 65537); }
        } else {
            static const int rot[] = {1 << 16, 3 << 16, 1 << 17, 3 << 17, 1 << 19, (1 << 18) + 1, (1 << 18) - 1, 999424};
            stream_digest_corr(g, g.range(0, 1000), 9, 1 << 18);
            stream_digest_corr(g, g.range(0, 1000), 10, 1 << 18);
            stream_digest_corr(g, g.range(0, 1000), 4, 1 << 18);
            stream_digest_corr(g, g.range(0, 1000), 9, rot[a.seed % 8]);
            stream_digest_corr(g, g.range(0, 1000), 10, rot[(a.seed + 3) % 8]);
            stream_digest_corr(g, g.range(0, 1000), g.range(0, 1) ? 1 : 2, 1 << 16);
            stream_digest_corr(g, g.range(0, 1000), g.range(0, 1) ? 6 : 8, 1 << 16);
        }
    }
    vh::unwatch();
    out.finish();
    return 0;
}
