// C08 — multirate converters equal the zero-stuff / filter / decimate definition.
//
// ORACLE (on the real library, long double): the textbook chain
//      up_L x  ->  filter with g = L*h/sum(h)  ->  keep every M-th sample at a fixed phase
//   FIRInterpolator(L,h)     : y[n] = v(n)                      (phase 0)
//   FIRRateConverter(L,M,h)  : y[o] = v((o+1)M-1)               (phase M-1)
//   FIRDecimator(M,h)        : y[i] = (flip(pad_M h) * x)(iM+M-1); for a symmetric (linear-phase) h this is
//                              (h * x)(iM + M-1-pad), pad = padded length - length  (phase M-1-pad)
//   FIRResampler(out,in,h)   : the converter its reduced ratio selects (bypass: identity)
//   lengths len*L/M per call, frames that are not a multiple of M rejected and leaving the state untouched;
//   resample(x,p,q[,h])      : length p'*ceil(len/q'), = x for p = q, = the chain on the zero-extended input
//                              shifted by delay(); alignment within one output sample (least-squares lag on a
//                              slow sinusoid and a swept tone), amplitude/shape error of the band-limited signal.
// CORR: polyphase tables, per-call outputs of the four classes (several calls: state hand-over), delay()/rates,
//       resample with explicit h, next_size/prev_size/simplify.
#include "common.hpp"
#include <memory>
#include <numeric>
#include <algorithm>
using namespace dsplib;
typedef long double ld;
static vh::Out out;
static bool THOROUGH = false;
static uint64_t SEED = 1;
static long g_case = 0;
// rolling watchdog: every case re-arms it, so a call that hangs is reported (with the case in flight) after this many
// seconds instead of at the end of the run's global limit
static void arm() { vh::watch(THOROUGH ? 900 : 120); }

// ------------------------------------------------------------------------------------ reference
static std::vector<ld> gain_norm(const std::vector<double>& h, int L) {
    ld s = 0;
    for (double v : h) s += v;
    std::vector<ld> g(h.size());
    for (size_t i = 0; i < h.size(); ++i) g[i] = ld(h[i]) * ld(L) / s;
    return g;
}
// v(m) = sum_j g[m - jL] * X[j]  — the zero-stuffed signal has X[j] at position jL and zeros elsewhere
static ld chain_at(const std::vector<ld>& g, int L, const std::vector<double>& X, long m) {
    if (m < 0) return 0;
    const long nh = long(g.size());
    long jhi = std::min<long>(m / L, long(X.size()) - 1);
    long jlo = 0;
    if (m - nh + 1 > 0) jlo = (m - nh + 1 + L - 1) / L;
    ld acc = 0;
    for (long j = jlo; j <= jhi; ++j) acc += g[size_t(m - j * L)] * ld(X[size_t(j)]);
    return acc;
}
// the literal chain for small sizes: explicit zero stuffing and full convolution
static std::vector<ld> chain_literal(const std::vector<ld>& g, int L, const std::vector<double>& X) {
    std::vector<ld> up(X.size() * size_t(L), 0);
    for (size_t j = 0; j < X.size(); ++j) up[j * L] = X[j];
    std::vector<ld> v(up.size(), 0);
    for (size_t m = 0; m < v.size(); ++m) {
        ld acc = 0;
        for (size_t t = 0; t < g.size() && t <= m; ++t) acc += g[t] * up[m - t];
        v[m] = acc;
    }
    return v;
}
static ld sum_abs(const std::vector<ld>& g) { ld s = 0; for (ld v : g) s += fabsl(v); return s; }
static double max_abs(const std::vector<double>& x) { double m = 0; for (double v : x) m = std::max(m, std::fabs(v)); return m; }
static int padded_len(int n, int m) { return (n % m == 0) ? n : (n / m + 1) * m; }
static bool is_symmetric(const std::vector<double>& h) {
    for (size_t i = 0; i < h.size(); ++i) if (h[i] != h[h.size() - 1 - i]) return false;
    return true;
}
static std::vector<double> vec(const arr_real& a) { return std::vector<double>(a.begin(), a.end()); }
static arr_real arr(const std::vector<double>& v, size_t from, size_t n) {
    arr_real a((int)n);
    for (size_t i = 0; i < n; ++i) a[int(i)] = v[from + i];
    return a;
}
static arr_real arr(const std::vector<double>& v) { return arr(v, 0, v.size()); }

enum Kind { INTERP = 0, DECIM = 1, RATECONV = 2, RESAMPLER = 3 };
static const char* kind_name[] = {"interp", "decim", "rateconv", "resampler"};

// expected outputs of the converter of `kind` for the whole stream X (nout of them); *scale = tolerance scale
static std::vector<ld> reference(Kind mode, int L, int M, const std::vector<double>& h, const std::vector<double>& X, size_t nout, ld* scale,
                                 bool symmetric_form = false) {
    std::vector<ld> r(nout);
    if (mode == DECIM) {
        const int nh = padded_len(int(h.size()), M);
        std::vector<ld> g;
        long phase;
        if (symmetric_form) {   // linear-phase h: the chain with h itself at phase M-1-pad
            g = gain_norm(h, 1);
            phase = M - 1 - (nh - long(h.size()));
        } else {                // any h: flipped zero-padded filter, phase M-1
            std::vector<double> hp(h);
            hp.resize(size_t(nh), 0.0);
            std::reverse(hp.begin(), hp.end());
            g = gain_norm(hp, 1);
            phase = M - 1;
        }
        for (size_t i = 0; i < nout; ++i) r[i] = chain_at(g, 1, X, long(i) * M + phase);
        *scale = sum_abs(g) * max_abs(X);
        return r;
    }
    const std::vector<ld> g = gain_norm(h, L);
    *scale = sum_abs(g) * max_abs(X);
    const int Md = (mode == INTERP) ? 1 : M;
    if (X.size() * size_t(L) * g.size() <= 400000) {
        const auto v = chain_literal(g, L, X);
        for (size_t o = 0; o < nout; ++o) {
            const size_t m = (o + 1) * size_t(Md) - 1;
            r[o] = m < v.size() ? v[m] : chain_at(g, L, X, long(m));
        }
        out.stat("ref_literal");
    } else {
        for (size_t o = 0; o < nout; ++o) r[o] = chain_at(g, L, X, long(o + 1) * Md - 1);
        out.stat("ref_sparse");
    }
    return r;
}

static Kind mode_of(Kind k, int L, int M, bool* bypass) {
    *bypass = false;
    if (k != RESAMPLER) return k;
    const int g = std::gcd(L, M);
    const int p = L / g, q = M / g;
    if (p == q) { *bypass = true; return INTERP; }
    if (p == 1) return DECIM;
    if (q == 1) return INTERP;
    return RATECONV;
}

static std::unique_ptr<IResampler> make(Kind k, int L, int M, const arr_real* h) {
    switch (k) {
    case INTERP: return h ? std::make_unique<FIRInterpolator>(L, *h) : std::make_unique<FIRInterpolator>(L);
    case DECIM: return h ? std::make_unique<FIRDecimator>(M, *h) : std::make_unique<FIRDecimator>(M);
    case RATECONV: return h ? std::make_unique<FIRRateConverter>(L, M, *h) : std::make_unique<FIRRateConverter>(L, M);
    default: return h ? std::make_unique<FIRResampler>(L, M, *h) : std::make_unique<FIRResampler>(L, M);
    }
}

static std::string jcase(Kind k, int L, int M, const std::vector<double>& h, const char* hkind, const std::vector<int>& frames,
                         const std::vector<double>& X, const char* xkind) {
    std::string s = std::string("{\"op\":\"") + kind_name[k] + "\",\"L\":" + std::to_string(L) + ",\"M\":" + std::to_string(M) +
                    ",\"hkind\":\"" + hkind + "\",\"hlen\":" + std::to_string(h.size()) + ",\"frames\":" + vh::jints(frames) + ",\"xkind\":\"" +
                    xkind + "\",\"seed\":" + std::to_string(SEED) + ",\"case\":" + std::to_string(g_case);
    if (h.size() <= 48) s += ",\"h\":" + vh::jarr(arr(h));
    if (X.size() <= 64) s += ",\"x\":" + vh::jarr(arr(X));
    return s + "}";
}

// One converter, one coefficient vector, one framing of one stream.  `frames` may contain lengths that are not a
// multiple of the decimation: they must be rejected and must not consume input or disturb the state.
static void run_converter(Kind k, int L, int M, const std::vector<double>& h, const char* hkind, bool default_ctor,
                          const std::vector<int>& frames, const std::vector<double>& Xall, const char* xkind, bool corr) {
    ++g_case;
    arm();
    const std::string js = jcase(k, L, M, h, hkind, frames, Xall, xkind);
    const std::string K = std::string("C08:") + kind_name[k];
    vh::set_current(K + "-crash", js);
    const arr_real ha = arr(h);
    bool bypass;
    const Kind mode = mode_of(k, L, M, &bypass);
    const int g = std::gcd(L, M);
    const int Lr = (k == RESAMPLER) ? L / g : L, Mr = (k == RESAMPLER) ? M / g : M;
    const int Md = bypass ? 1 : (mode == INTERP ? 1 : Mr);   // granule of the input frame
    const int Li = bypass ? 1 : (mode == DECIM ? 1 : Lr);
    std::unique_ptr<IResampler> obj, obj2;
    try {
        obj = make(k, L, M, &ha);
        if (default_ctor) obj2 = make(k, L, M, nullptr);
    } catch (const std::exception& e) {
        vh::clear_current();
        out.fail(K + "-ctor-throws", js);
        return;
    }
    out.n_oracle++;
    if (obj->interp_rate() != Li || obj->decim_rate() != Md) out.fail(K + "-rates", js);
    std::string lhs = std::string(kind_name[k]) + " " + std::to_string(L) + " " + std::to_string(M) + " " + vh::hxs(ha) + " " + std::to_string(frames.size());
    std::string rhs = std::to_string(obj->delay()) + " " + std::to_string(obj->interp_rate()) + " " + std::to_string(obj->decim_rate());
    std::vector<double> X, Y;   // accepted input / produced output
    size_t pos = 0;
    bool ok = true;
    for (int len : frames) {
        const arr_real fr = arr(Xall, pos, size_t(len));
        lhs += " " + vh::hxs(fr);
        const bool must_reject = (len % Md) != 0;
        try {
            const arr_real y = obj->process(fr);
            rhs += " " + vh::hxs(y);
            if (must_reject) { out.fail("C08:frame-not-rejected", js); ok = false; }
            if (long(y.size()) != long(len) * Li / Md) { out.fail("C08:frame-length", js); ok = false; }
            if (obj2) {
                const arr_real y2 = obj2->process(fr);
                if (y2.size() != y.size() || (y.size() > 0 && std::memcmp(y2.data(), y.data(), sizeof(double) * size_t(y.size())) != 0)) {
                    out.fail("C08:default-design-differs", js);
                    ok = false;
                }
            }
            for (int i = 0; i < len; ++i) X.push_back(Xall[pos + size_t(i)]);
            for (int i = 0; i < y.size(); ++i) Y.push_back(y[i]);
            pos += size_t(len);
            out.stat("frames_accepted");
            if (len == 0) out.stat("frames_empty");
        } catch (const std::exception&) {
            rhs += " ERR";
            if (!must_reject) { out.fail("C08:frame-rejected-valid", js); ok = false; }
            if (obj2) { try { (void)obj2->process(fr); out.fail("C08:frame-not-rejected", js); } catch (const std::exception&) {} }
            out.stat("frames_rejected");
        }
    }
    vh::clear_current();
    if (corr) out.corr(lhs, rhs);
    if (!ok) return;
    // ---- the chain
    if (bypass) {
        if (Y != X) out.fail(K + "-bypass", js);
        out.stat("mode_bypass");
        return;
    }
    out.stat(std::string("mode_") + kind_name[mode]);
    bool finite = true;
    { ld s = 0; for (double v : h) s += v; if (s == 0 || !std::isfinite(double(s))) finite = false; }
    if (!finite) { out.stat("excluded_zero_dc_gain"); return; }   // sum(h) = 0: no DC normalisation exists; CORR only
    ld scale = 0;
    const auto ref = reference(mode, Lr, Mr, h, X, Y.size(), &scale);
    ld worst = 0;
    for (size_t i = 0; i < Y.size(); ++i) worst = std::max(worst, fabsl(ld(Y[i]) - ref[i]));
    const ld tol = 1e-12L * (scale + 1e-300L);
    if (!(worst <= tol)) out.fail(K + "-chain", js);
    if (mode == DECIM && is_symmetric(h)) {
        const auto ref2 = reference(mode, Lr, Mr, h, X, Y.size(), &scale, true);
        ld w2 = 0;
        for (size_t i = 0; i < Y.size(); ++i) w2 = std::max(w2, fabsl(ld(Y[i]) - ref2[i]));
        if (!(w2 <= 1e-12L * (scale + 1e-300L))) out.fail(K + "-chain-linear-phase", js);
        out.stat("decim_linear_phase_form");
    }
    if (scale > 0) {
        const long e = long(std::ceil(std::log10(double(worst / scale) + 1e-30)));
        out.stat("chain_relerr_1e" + std::to_string(std::max(-20L, e)));
    }
    out.stat(std::string("hkind_") + hkind);
    out.stat(std::string("xkind_") + xkind);
    if (g_case % 97 == 0) out.sample(js);
}

// ------------------------------------------------------------------------------------ generators
static std::vector<double> rand_symmetric(vh::Rng& r, int n) {
    std::vector<double> h((size_t)n, 0.0);
    for (int i = 0; i < (n + 1) / 2; ++i) {
        const double w = 0.54 - 0.46 * std::cos(6.283185307179586 * (i + 0.5) / n);
        const double v = w * (0.25 + r.unit()) * (r.range(0, 7) == 0 ? -0.4 : 1.0);
        h[size_t(i)] = v;
        h[size_t(n - 1 - i)] = v;
    }
    double s = 0;
    for (double v : h) s += v;
    if (std::fabs(s) < 0.05 * n * 0.1) h[size_t(n / 2)] += 1.0, h[size_t(n - 1 - n / 2)] = h[size_t(n / 2)];
    return h;
}
static std::vector<double> rand_any(vh::Rng& r, int n) {
    std::vector<double> h((size_t)n, 0.0);
    for (auto& v : h) v = 0.3 + r.sym();
    return h;
}
static std::vector<double> gen_x(vh::Rng& r, size_t n, int kind, double fmax, const char** name) {
    std::vector<double> x(n);
    switch (kind) {
    case 0: *name = "gauss"; for (auto& v : x) v = r.gauss(); break;
    case 1: { *name = "tone"; const double f = fmax * r.unit(), ph = 6.283185307179586 * r.unit();
              for (size_t i = 0; i < n; ++i) x[i] = std::sin(6.283185307179586 * f * double(i) + ph); break; }
    case 2: { *name = "sweep"; for (size_t i = 0; i < n; ++i) { const double t = double(i); x[i] = std::sin(6.283185307179586 * (0.5 * fmax * t * t / double(n ? n : 1))); } break; }
    case 3: *name = "impulse"; if (n) x[r.range(0, int(n) - 1)] = 1.0; break;
    case 4: *name = "step"; for (auto& v : x) v = 1.0; break;
    case 5: *name = "ramp-int"; for (size_t i = 0; i < n; ++i) x[i] = double(int(i % 17) - 8); break;
    case 6: {   // bursts separated by runs of exact zeros (runs up to a third of the stream: longer than any filter state)
        *name = "zero-runs";
        size_t i = 0;
        while (i < n) {
            const size_t burst = size_t(r.range(1, 40)), gap = size_t(r.range(1, int(std::max<size_t>(2, n / 3))));
            for (size_t j = 0; j < burst && i < n; ++j, ++i) x[i] = r.gauss();
            for (size_t j = 0; j < gap && i < n; ++j, ++i) x[i] = 0.0;
        }
        break;
    }
    default: *name = "neg-zero"; for (auto& v : x) v = (r.range(0, 5) == 0) ? r.sym() : -0.0; break;
    }
    return x;
}
// absolute scale classes of every numeric input (coefficients and signal): the converters normalise h by its sum, so the
// chain is invariant under a scale of h and equivariant under a scale of x (the oracle's tolerance is relative)
static const double SCALES[] = {1e-300, 1e-17, 1e-8, 1e8, 1e100, -1.0, 0x1p-600, 0x1p40, 1e-320 /* denormal taps */, 3.0};
static const int NSCALES = int(sizeof(SCALES) / sizeof(SCALES[0]));
static const char* scale_name(int i) {
    static const char* nm[] = {"1e-300", "1e-17", "1e-8", "1e8", "1e100", "-1", "2^-600", "2^40", "1e-320", "3"};
    return nm[i];
}
static void scale_by(std::vector<double>& v, double s) { for (auto& e : v) e *= s; }
// symmetric, mostly exact zeros (whole polyphase branches vanish), zeros at both ends
static std::vector<double> rand_sparse(vh::Rng& r, int n) {
    std::vector<double> h((size_t)n, 0.0);
    h[size_t(n / 2)] = h[size_t(n - 1 - n / 2)] = 1.0 + r.unit();
    for (int t = 0; t < 1 + n / 16; ++t) {
        const int i = r.range(0, n - 1);
        const double v = 0.2 * r.sym();
        h[size_t(i)] += v;
        if (i != n - 1 - i) h[size_t(n - 1 - i)] += v;
    }
    return h;
}
// framing of a stream: `nf` frames, lengths = multiples of M (some zero), with `bad` illegal frames interleaved
static std::vector<int> gen_frames(vh::Rng& r, int M, int nf, int maxmult, bool with_bad) {
    std::vector<int> f;
    for (int i = 0; i < nf; ++i) {
        if (with_bad && M > 1 && r.range(0, 2) == 0) f.push_back(M * r.range(0, maxmult) + r.range(1, M - 1));
        const int mult = (r.range(0, 9) == 0) ? 0 : r.range(1, maxmult);
        f.push_back(M * mult);
    }
    if (with_bad && M > 1) f.push_back(r.range(1, M - 1));
    return f;
}
static size_t total(const std::vector<int>& f) { size_t s = 0; for (int v : f) s += size_t(v); return s; }
static size_t h_tokens(const std::vector<double>& h, const std::vector<int>& fr, int L, int M) { return h.size() + total(fr) * size_t(1 + (L + M - 1) / M); }

// all tests of one (kind, L, M)
static int g_corr_reps = 6;   // only the first repetitions of a (kind, L, M) go through CORR (output volume)
static void sweep_ratio(vh::Rng& r, Kind k, int L, int M, int reps, size_t corr_budget) {
    const int R = std::max(L, M);
    const int Mfr = (k == INTERP) ? 1 : (k == RESAMPLER ? M / std::gcd(L, M) : M);
    const double fmax = 0.5 * std::min(1.0, double(L) / double(M));
    for (int rep = 0; rep < reps; ++rep) {
        std::vector<double> h;
        const char* hkind;
        bool dflt = false;
        const int pick = rep % 8, cycle = rep / 8;
        if (pick == 0) {
            hkind = "default";
            dflt = true;
            const int Ld = (k == DECIM) ? 1 : L, Mdd = (k == INTERP) ? 1 : M;
            h = vec(design_multirate_fir(Ld, Mdd));
        } else if (pick == 1) { hkind = "sym-short"; h = rand_symmetric(r, r.range(2, std::max(2, 3 * R))); }
        else if (pick == 2) { hkind = "sym-multiple"; h = rand_symmetric(r, R * r.range(1, 40)); }
        else if (pick == 3) { hkind = "sym-any"; h = rand_symmetric(r, r.range(2, 40 * R)); }
        else if (pick == 4) { hkind = "sym-max"; h = rand_symmetric(r, 40 * R - r.range(0, 1)); }
        else if (pick == 5) { hkind = "nonsym"; h = rand_any(r, r.range(2, 6 * R)); }
        else if (pick == 6) { hkind = "single-tap"; h = {r.coin() ? 1.0 + r.unit() : -0.5 - r.unit()}; }   // state of length 0
        else { hkind = "sparse"; h = rand_sparse(r, r.range(3, 8 * R)); }
        // scale classes: odd cycles scale the coefficients, every third cycle the signal (class rotates with ratio, rep and seed)
        int hs = -1, xs = -1;
        if (pick != 0 && cycle % 2 == 1) hs = int((uint64_t(L) * 7 + uint64_t(M) * 3 + uint64_t(rep) + SEED) % uint64_t(NSCALES));
        if (cycle % 3 == 1 || (cycle == 0 && pick == 5)) xs = int((uint64_t(L) * 5 + uint64_t(M) * 11 + uint64_t(rep) + SEED) % 8u);   // not the denormal class
        if (hs >= 0) { scale_by(h, SCALES[hs]); out.stat(std::string("hscale_") + scale_name(hs)); }
        if (k == RESAMPLER && L / std::gcd(L, M) == M / std::gcd(L, M)) dflt = (pick == 0);
        bool byp;
        const Kind md = mode_of(k, L, M, &byp);
        const int gg = (k == RESAMPLER) ? std::gcd(L, M) : 1;
        const int nbr = (md == DECIM) ? M / gg : L / gg;                 // number of polyphase branches
        const int sub = padded_len(int(h.size()), nbr) / nbr;            // taps per branch (state length ~ sub)
        // enough samples to flush the state a few times, but frames often shorter than the state
        const int maxmult = std::max(1, std::min(64, (2 * sub + 4)));
        const auto frames = gen_frames(r, Mfr, r.range(1, 4), (rep % 2) ? maxmult : std::max(1, maxmult / 8 + 1), rep % 3 != 1);
        const char* xkind;
        auto X = gen_x(r, total(frames) + size_t(2 * M + 2), r.range(0, 7), fmax, &xkind);
        if (xs >= 0) { scale_by(X, SCALES[xs]); out.stat(std::string("xscale_") + scale_name(xs)); }
        const bool corr = (rep < g_corr_reps || ((rep % 8 >= 6 || hs >= 0) && rep < 16 && (!THOROUGH || rep % 2 == 1))) && h_tokens(h, frames, L, Mfr) <= corr_budget;
        run_converter(k, L, M, h, hkind, dflt, frames, X, xkind, corr);
    }
}

// ------------------------------------------------------------------------------------ large frames / long histories
// Input the Lean driver regenerates itself (no multi-megabyte protocol lines): integer values in -9..9 times a scale,
// optionally with alternating runs of `zrun` exact zeros (signed zeros for a negative scale).
struct XGen { int a; int zrun; double scale; };
static double xgen(const XGen& g, uint64_t i) {
    const int v = int((i * i + 3 * i + uint64_t(g.a)) % 19) - 9;
    const bool z = g.zrun > 0 && (i / uint64_t(g.zrun)) % 2 == 1;
    return double(z ? 0 : v) * g.scale;
}
// digest of one output frame for CORR: length, first and last (up to) 8 samples, left-to-right sum
static std::string digest(const arr_real& y) {
    const int n = y.size(), k = std::min(n, 8);
    std::string s = std::to_string(n) + " " + std::to_string(k);
    for (int i = 0; i < k; ++i) s += " " + vh::hx(y[i]);
    for (int i = n - k; i < n; ++i) s += " " + vh::hx(y[i]);
    double sum = 0;
    for (int i = 0; i < n; ++i) sum += y[i];
    return s + " " + vh::hx(sum);
}

// One converter, one history of (possibly very large) frames.  The chain oracle is evaluated on EVERY output sample of
// every call (first and last ones included); rejected frames must not consume input nor disturb the state.
// `xg` != nullptr: generated input, the history also goes through CORR as a digest line (tag `big`); else a random signal.
static void run_big(vh::Rng& r, Kind k, int L, int M, const std::vector<double>& h, const char* hkind, bool default_ctor,
                    const std::vector<int>& frames, const XGen* xg, const char* cls) {
    ++g_case;
    arm();
    const char* xkind = "xgen";
    std::vector<double> Xall;
    if (xg) {
        Xall.resize(total(frames) + 1);
        for (size_t i = 0; i < Xall.size(); ++i) Xall[i] = xgen(*xg, i);
    } else {
        const double fmax = 0.5 * std::min(1.0, double(L) / double(M));
        Xall = gen_x(r, total(frames) + 1, r.range(0, 7), fmax, &xkind);
    }
    std::string js = jcase(k, L, M, h, hkind, frames, std::vector<double>(), xkind);
    js.pop_back();
    js += std::string(",\"class\":\"") + cls + "\"";
    if (xg) js += ",\"xgen\":[" + std::to_string(xg->a) + "," + std::to_string(xg->zrun) + "," + vh::jnum(xg->scale) + "]";
    const std::string K = std::string("C08:") + kind_name[k];
    vh::set_current(K + "-crash", js + "}");
    const arr_real ha = arr(h);
    bool bypass;
    const Kind mode = mode_of(k, L, M, &bypass);
    const int g = std::gcd(L, M);
    const int Lr = (k == RESAMPLER) ? L / g : L, Mr = (k == RESAMPLER) ? M / g : M;
    const int Md = bypass ? 1 : (mode == INTERP ? 1 : Mr);
    const int Li = bypass ? 1 : (mode == DECIM ? 1 : Lr);
    std::unique_ptr<IResampler> obj, obj2;
    try {
        obj = make(k, L, M, &ha);
        if (default_ctor) obj2 = make(k, L, M, nullptr);
    } catch (const std::exception&) {
        vh::clear_current();
        out.fail(K + "-ctor-throws", js + "}");
        return;
    }
    out.n_oracle++;
    if (obj->interp_rate() != Li || obj->decim_rate() != Md) out.fail(K + "-rates", js + "}");
    std::string lhs, rhs;
    if (xg) {
        lhs = std::string("big ") + kind_name[k] + " " + std::to_string(L) + " " + std::to_string(M) + " " + vh::hxs(ha) + " " + std::to_string(xg->a) + " " +
              std::to_string(xg->zrun) + " " + vh::hx(xg->scale) + " " + std::to_string(frames.size());
        for (int len : frames) lhs += " " + std::to_string(len);
        rhs = std::to_string(obj->delay()) + " " + std::to_string(obj->interp_rate()) + " " + std::to_string(obj->decim_rate());
    }
    std::vector<double> X, Y;
    std::vector<size_t> ystart;   // first output index of every accepted frame
    std::vector<int> yframe;
    size_t pos = 0;
    bool ok = true;
    int fi = 0;
    for (int len : frames) {
        const arr_real fr = arr(Xall, pos, size_t(len));
        const bool must_reject = (len % Md) != 0;
        try {
            const arr_real y = obj->process(fr);
            if (xg) rhs += " " + digest(y);
            if (must_reject) { out.fail("C08:frame-not-rejected", js + "}"); ok = false; }
            if (long(y.size()) != long(len) / Md * Li) { out.fail("C08:frame-length", js + "}"); ok = false; }
            if (obj2) {
                const arr_real y2 = obj2->process(fr);
                if (y2.size() != y.size() || (y.size() > 0 && std::memcmp(y2.data(), y.data(), sizeof(double) * size_t(y.size())) != 0)) {
                    out.fail("C08:default-design-differs", js + "}");
                    ok = false;
                }
            }
            ystart.push_back(Y.size());
            yframe.push_back(fi);
            X.insert(X.end(), Xall.begin() + long(pos), Xall.begin() + long(pos) + len);
            Y.insert(Y.end(), y.begin(), y.end());
            pos += size_t(len);
            out.stat("big_frames_accepted");
            if (len > 65536) out.stat("big_frames_above_2^16");
            if (len > 131072) out.stat("big_frames_above_2^17");
        } catch (const std::exception&) {
            if (xg) rhs += " ERR";
            if (!must_reject) { out.fail("C08:frame-rejected-valid", js + "}"); ok = false; }
            if (obj2) { try { (void)obj2->process(fr); out.fail("C08:frame-not-rejected", js + "}"); } catch (const std::exception&) {} }
            out.stat("big_frames_rejected");
        }
        ++fi;
    }
    vh::clear_current();
    if (xg) out.corr(lhs, rhs);
    out.stat(std::string("big_class_") + cls);
    if (!ok) return;
    if (bypass) {
        if (Y != X) out.fail(K + "-bypass", js + "}");
        return;
    }
    ld scale = 0;
    const auto ref = reference(mode, Lr, Mr, h, X, Y.size(), &scale);
    const ld tol = 1e-12L * (scale + 1e-300L);
    size_t bad = 0, first_bad = 0;
    ld worst = 0;
    for (size_t i = 0; i < Y.size(); ++i) {
        const ld e = fabsl(ld(Y[i]) - ref[i]);
        if (!(e <= tol)) { if (!bad) first_bad = i; ++bad; }
        if (!(e <= worst)) worst = e;
    }
    if (bad) {
        size_t f = 0;
        while (f + 1 < ystart.size() && ystart[f + 1] <= first_bad) ++f;
        out.fail(K + "-chain", js + ",\"bad_outputs\":" + std::to_string(bad) + ",\"first_bad_output\":" + std::to_string(first_bad) + ",\"in_frame\":" +
                                    std::to_string(yframe.empty() ? 0 : yframe[f]) + ",\"offset_in_frame\":" + std::to_string(ystart.empty() ? 0 : first_bad - ystart[f]) +
                                    ",\"outputs\":" + std::to_string(Y.size()) + ",\"got\":" + vh::jnum(Y[first_bad]) + ",\"want\":" + vh::jnum(double(ref[first_bad])) + "}");
    }
    out.stat("big_outputs_checked", (long long)Y.size());
    if (g_case % 7 == 0) out.sample(js + "}");
}

static int mult_at_least(int n, int m) { return (n + m - 1) / m * m; }
static int mult_at_most(int n, int m) { return n / m * m; }

// histories with large frames for one converter: `gran` = frame granule (decimation), `big` = the large frame length wanted
static std::vector<std::vector<int>> big_histories(vh::Rng& r, int gran, int big, std::vector<const char*>* names) {
    std::vector<std::vector<int>> H;
    const int B = mult_at_least(big, gran), small = mult_at_least(r.range(200, 5000), gran), tiny = gran * r.range(1, 3);
    const int ill = (gran > 1) ? r.range(1, gran - 1) : 0;
    // a large frame that is not the first call, then small ones again
    H.push_back({small, B, tiny, small}); names->push_back("small-big-small");
    // large first, then a larger one (second growth), exact power-of-two style boundaries when the granule allows
    H.push_back({B, tiny, mult_at_least(2 * big + 1, gran), small}); names->push_back("big-bigger");
    // rejected calls (also a rejected LARGE one) in front of the first accepted large frame
    if (gran > 1) { H.push_back({small, B + ill, B, mult_at_most(big, gran) - gran + ill, tiny, small}); names->push_back("rejected-big-then-big"); }
    // many medium frames (buffer wrap / compaction paths), then the large one, then medium again
    {
        std::vector<int> f;
        const int med = mult_at_least(r.range(300, 900), gran), cnt = std::max(3, std::min(200, (big + big / 2) / med));
        for (int i = 0; i < cnt; ++i) f.push_back(med);
        f.push_back(B); f.push_back(med);
        H.push_back(f); names->push_back("stream-then-big");
    }
    return H;
}
static std::vector<int> staircase(vh::Rng& r, int gran, int top, bool up) {
    std::vector<int> f;
    for (double v = 100 + r.range(0, 200); v < double(top) * 1.01; v *= 2.7 + r.unit()) f.push_back(mult_at_least(int(v), gran));
    f.push_back(mult_at_least(top, gran));
    if (!up) std::reverse(f.begin(), f.end());
    f.push_back(gran * r.range(1, 4));
    return f;
}

// ------------------------------------------------------------------------------------ copies of stateful converters
// A copy (copy-constructed mid-stream, vector<T>(n, proto), copy-assigned) is an independent object with the copied state.
template <class T>
static void probe_copy(vh::Rng& r, Kind k, const T& proto, int L, int M, const std::vector<double>& h, const char* hkind) {
    ++g_case;
    arm();
    bool bypass;
    const Kind mode = mode_of(k, L, M, &bypass);
    if (bypass) return;
    const int g = std::gcd(L, M);
    const int Lr = (k == RESAMPLER) ? L / g : L, Mr = (k == RESAMPLER) ? M / g : M;
    const int Md = (mode == INTERP) ? 1 : Mr;
    const std::vector<int> frames = {Md * r.range(1, 30), Md * r.range(1, 30), Md * r.range(1, 30)};
    const char* xkind;
    const auto X = gen_x(r, total(frames), r.range(0, 7), 0.4 * std::min(1.0, double(Lr) / Mr), &xkind);
    const auto Z = gen_x(r, size_t(frames[2]), 0, 0.4, &xkind);
    const std::string js = jcase(k, L, M, h, hkind, frames, X, xkind);
    const std::string K = std::string("C08:copy-") + kind_name[k];
    vh::set_current(K + "-crash", js);
    out.n_oracle++;
    auto same = [](const arr_real& a, const arr_real& b) { return a.size() == b.size() && (a.size() == 0 || std::memcmp(a.data(), b.data(), sizeof(double) * size_t(a.size())) == 0); };
    try {
        T a(proto);                                   // copy of a fresh prototype
        const arr_real f1 = arr(X, 0, size_t(frames[0])), f2 = arr(X, size_t(frames[0]), size_t(frames[1])), f3 = arr(X, size_t(frames[0] + frames[1]), size_t(frames[2]));
        const arr_real y1 = a.process(f1);
        T b(a);                                       // copy mid-stream
        std::vector<T> v(2, a);                       // n copies of a used object
        T c(proto);
        c = a;                                        // copy-assignment over a fresh object
        const arr_real y2 = a.process(f2);
        bool ok = same(y2, b.process(f2)) && same(y2, v[0].process(f2)) && same(y2, v[1].process(f2)) && same(y2, c.process(f2));
        (void)b.process(arr(Z));                      // the copies move on with other data ...
        (void)v[1].process(arr(Z));
        c = proto;                                    // ... or are reset
        const arr_real y3 = a.process(f3);            // ... the original must not notice
        ok = ok && same(y3, v[0].process(f3));
        T p2(proto);
        ok = ok && same(y1, p2.process(f1)) && same(y1, c.process(f1));   // the prototype is still fresh
        if (!ok) out.fail(K + "-differs", js);
        std::vector<double> Y = vec(y1);
        for (double e : vec(y2)) Y.push_back(e);
        for (double e : vec(y3)) Y.push_back(e);
        ld s = 0;
        for (double e : h) s += e;
        if (s != 0) {
            ld scale = 0;
            const auto ref = reference(mode, Lr, Mr, h, X, Y.size(), &scale);
            ld worst = 0;
            for (size_t i = 0; i < Y.size(); ++i) worst = std::max(worst, fabsl(ld(Y[i]) - ref[i]));
            if (!(worst <= 1e-12L * (scale + 1e-300L))) out.fail(K + "-chain", js);
        }
    } catch (const std::exception&) { out.fail(K + "-throws", js); }
    vh::clear_current();
    out.stat("copy_probes");
}
static void copy_probes(vh::Rng& r, int L, int M) {
    const int R = std::max(L, M);
    for (int rep = 0; rep < 2; ++rep) {
        const char* hk = rep ? "sym-any" : "default";
        if (M == 1 && L > 1) { const auto h = rep ? rand_symmetric(r, r.range(2, 20 * R)) : vec(design_multirate_fir(L, 1)); probe_copy(r, INTERP, FIRInterpolator(L, arr(h)), L, 1, h, hk); }
        if (L == 1 && M > 1) { const auto h = rep ? rand_symmetric(r, r.range(2, 20 * R)) : vec(design_multirate_fir(1, M)); probe_copy(r, DECIM, FIRDecimator(M, arr(h)), 1, M, h, hk); }
        const auto h = rep ? rand_symmetric(r, r.range(2, 20 * R)) : vec(design_multirate_fir(L, M));
        if (L != M) {
            probe_copy(r, RATECONV, FIRRateConverter(L, M, arr(h)), L, M, h, hk);
            probe_copy(r, RESAMPLER, FIRResampler(L, M, arr(h)), L, M, h, hk);
        }
    }
}

// ------------------------------------------------------------------------------------ polyphase / sizes
static void case_polyphase(const std::vector<double>& h, int m, double gain, bool flp) {
    const auto r = IResampler::polyphase(arr(h), m, gain, flp);
    std::string rhs = std::to_string(r.size()) + " " + std::to_string(r.empty() ? 0 : r[0].size());
    for (auto& b : r) for (int i = 0; i < b.size(); ++i) rhs += " " + vh::hx(b[i]);
    out.corr("poly " + std::to_string(m) + " " + (flp ? "1 " : "0 ") + vh::hx(gain) + " " + vh::hxs(arr(h)), rhs);
    out.n_oracle++;
    // oracle: branch i, tap k = gain * hpad[i + k m] / sum(h)  (flipped: tap n-1-k)
    const int nh = padded_len(int(h.size()), m), n = nh / m;
    ld s = 0;
    for (double v : h) s += v;
    bool ok = int(r.size()) == m;
    for (int i = 0; ok && i < m; ++i) {
        if (r[size_t(i)].size() != n) { ok = false; break; }
        for (int k2 = 0; k2 < n; ++k2) {
            const int idx = i + (flp ? n - 1 - k2 : k2) * m;
            const ld want = (idx < int(h.size()) ? ld(h[size_t(idx)]) : 0.0L) / s * ld(gain);
            if (s != 0 && !(fabsl(ld(r[size_t(i)][k2]) - want) <= 1e-13L * (fabsl(want) + 1e-300L) + 1e-300L)) ok = false;
        }
    }
    if (!ok) out.fail("C08:polyphase", "{\"op\":\"polyphase\",\"m\":" + std::to_string(m) + ",\"flip\":" + (flp ? "1" : "0") + ",\"hlen\":" + std::to_string(h.size()) + ",\"seed\":" + std::to_string(SEED) + "}");
    out.stat("polyphase_cases");
}

static void case_sizes(int size, int p, int q) {
    const int ns = IResampler::next_size(size, p, q), ps = IResampler::prev_size(size, p, q);
    const auto pq = IResampler::simplify(p, q);
    out.corr("sizes " + std::to_string(size) + " " + std::to_string(p) + " " + std::to_string(q),
             std::to_string(ns) + " " + std::to_string(ps) + " " + std::to_string(pq.first) + " " + std::to_string(pq.second));
    out.n_oracle++;
    const int g = std::gcd(p, q), d = q / g;
    const bool ok = pq.first == p / g && pq.second == d && ns % d == 0 && ns >= size && ns - size < d && ps % d == 0 && ps <= size && size - ps < d;
    if (!ok) out.fail("C08:sizes", "{\"op\":\"sizes\",\"size\":" + std::to_string(size) + ",\"p\":" + std::to_string(p) + ",\"q\":" + std::to_string(q) + "}");
}

// ------------------------------------------------------------------------------------ resample()
// the coefficient vector resample(x,p,q,n,beta) designs (anonymous _multirate_fir in resample.cpp), rebuilt from the
// public fir1 / kaiser so that it can be handed to the model; equality with the library's own is checked bit-exactly
static arr_real default_resample_fir(int L, int M, int P, double beta) {
    const int R = (L > 1) ? L : M;
    const bool odd = (M > L) && (L > 1) && (P * L % M != 0);
    const int N = odd ? (2 * P * R + 1) : (2 * P * R);
    const auto b = window::kaiser(N + 1, beta);
    arr_real num = fir1(N, 1.0 / std::max(L, M), FilterType::Low, b) * double(L);
    if (!odd) num = arr_real(num.slice(0, num.size() - 1));
    return num;
}

static std::string jres(const char* op, int p, int q, size_t len, const char* extra = "") {
    return std::string("{\"op\":\"") + op + "\",\"p\":" + std::to_string(p) + ",\"q\":" + std::to_string(q) + ",\"len\":" + std::to_string(len) +
           ",\"seed\":" + std::to_string(SEED) + extra + "}";
}

// resample(x,p,q,h) against: length law, chain on the zero-extended input shifted by delay()
static void case_resample_exact(int p, int q, const std::vector<double>& h, const char* hkind, const std::vector<double>& x, bool dflt, bool corr,
                                const XGen* xg = nullptr, const char* cls = "") {
    ++g_case;
    arm();
    std::string extra = std::string(",\"hkind\":\"") + hkind + "\",\"hlen\":" + std::to_string(h.size());
    if (cls[0]) extra += std::string(",\"class\":\"") + cls + "\"";
    if (xg) extra += ",\"xgen\":[" + std::to_string(xg->a) + "," + std::to_string(xg->zrun) + "," + vh::jnum(xg->scale) + "]";
    if (h.size() <= 48) extra += ",\"h\":" + vh::jarr(arr(h));
    const std::string js = jres("resample", p, q, x.size(), extra.c_str());
    const int g = std::gcd(p, q), pr = p / g, qr = q / g;
    const arr_real xa = arr(x), ha = arr(h);
    vh::set_current("C08:resample-crash", js);
    arr_real y;
    bool threw = false;
    try { y = resample(xa, p, q, ha); } catch (const std::exception&) { threw = true; }
    vh::clear_current();
    out.n_oracle++;
    if (corr && xg)   // generated input: the driver rebuilds x, the output is compared as a digest
        out.corr("bigres " + std::to_string(p) + " " + std::to_string(q) + " " + vh::hxs(ha) + " " + std::to_string(xg->a) + " " + std::to_string(xg->zrun) + " " +
                     vh::hx(xg->scale) + " " + std::to_string(x.size()), threw ? "ERR" : digest(y));
    else if (corr) out.corr("resample " + std::to_string(p) + " " + std::to_string(q) + " " + vh::hxs(ha) + " " + vh::hxs(xa), threw ? "ERR" : vh::hxs(y));
    if (threw) { out.fail("C08:resample-throws", js); return; }
    if (x.size() <= 3000 && g_case % 3 == 0) {   // operands that are C++ temporaries / expression results: same bits, own storage
        bool same = false;
        try {
            const arr_real& yt = resample(xa * 1.0, p, q, arr_real(ha));
            same = yt.size() == y.size() && (y.size() == 0 || std::memcmp(yt.data(), y.data(), sizeof(double) * size_t(y.size())) == 0);
        } catch (const std::exception&) {}
        if (!same) out.fail("C08:resample-temporaries-differ", js);
        out.stat("resample_temporaries");
    }
    const long want = long(pr) * ((long(x.size()) + qr - 1) / qr);
    if (long(y.size()) != want) { out.fail("C08:resample-length", js); return; }
    if (dflt) {
        arr_real y0;
        try { y0 = resample(xa, p, q); } catch (const std::exception&) { out.fail("C08:resample-throws", js); return; }
        if (y0.size() != y.size() || (y.size() > 0 && std::memcmp(y0.data(), y.data(), sizeof(double) * size_t(y.size())) != 0)) { out.fail("C08:resample-default-design-differs", js); return; }
    }
    if (pr == qr) {
        if (vec(y) != x) out.fail("C08:resample-identity", js);
        out.stat("resample_identity");
        return;
    }
    bool bypass;
    const Kind mode = mode_of(RESAMPLER, pr, qr, &bypass);
    FIRResampler rs(pr, qr, ha);
    const int dl = rs.delay();
    ld s = 0;
    for (double v : h) s += v;
    if (s == 0) return;
    ld scale = 0;
    const auto ref = reference(mode, pr, qr, h, x, size_t(dl) + size_t(y.size()), &scale);
    const ld tol = 1e-12L * (scale + 1e-300L);
    long bad = 0, first_bad = 0;
    for (int i = 0; i < y.size(); ++i)
        if (!(fabsl(ld(y[i]) - ref[size_t(dl + i)]) <= tol)) { if (!bad) first_bad = i; ++bad; }
    if (bad) {
        std::string w = js;
        w.pop_back();
        out.fail("C08:resample-chain", w + ",\"bad_outputs\":" + std::to_string(bad) + ",\"first_bad_output\":" + std::to_string(first_bad) + ",\"outputs\":" + std::to_string(y.size()) +
                                           ",\"delay\":" + std::to_string(dl) + ",\"got\":" + vh::jnum(y[int(first_bad)]) + ",\"want\":" + vh::jnum(double(ref[size_t(dl + first_bad)])) + "}");
    }
    out.stat("resample_exact");
    if (cls[0]) { out.stat(std::string("resample_class_") + cls); out.stat("resample_big_outputs_checked", y.size()); }
}

// resample() on one long input.  `gen_kind` < 0: generated integer input (+ digest CORR when `corr`), else a random signal kind.
static void case_resample_big(vh::Rng& r, int p, int q, int len, int hsel, bool corr, const char* cls, int xscale_class = -1, int hscale_class = -1) {
    const int g = std::gcd(p, q), pr = p / g, qr = q / g, R = std::max(pr, qr);
    if (pr == qr || len <= 0) return;
    std::vector<double> h;
    const char* hkind;
    bool dflt = false;
    if (hsel == 0) { hkind = "default"; dflt = true; h = vec(default_resample_fir(pr, qr, 10, 5.0)); }
    else if (hsel == 1) { hkind = "sym-short"; h = rand_symmetric(r, r.range(2, 4 * R + 1)); }
    else if (hsel == 2) { hkind = "sym-any"; h = rand_symmetric(r, r.range(2, R <= 16 ? 24 * R : 3 * R)); }
    else { hkind = "design90"; h = vec(design_multirate_fir(pr, qr)); }
    if (hscale_class >= 0 && hsel != 0) scale_by(h, SCALES[hscale_class]);
    XGen xg{r.range(0, 18), (r.range(0, 2) == 0) ? r.range(1, 3000) : 0, xscale_class >= 0 ? SCALES[xscale_class] : 1.0};
    std::vector<double> x;
    const bool generated = corr || r.range(0, 2) == 0;
    if (generated) {
        x.resize(size_t(len));
        for (size_t i = 0; i < x.size(); ++i) x[i] = xgen(xg, i);
    } else {
        const char* xkind;
        x = gen_x(r, size_t(len), r.range(0, 7), 0.5 * std::min(1.0, double(pr) / qr), &xkind);
        if (xscale_class >= 0) scale_by(x, SCALES[xscale_class]);
    }
    case_resample_exact(p, q, h, hkind, x, dflt, corr, generated ? &xg : nullptr, cls);
}

// least-squares lag (in output samples) of y against the analytic signal s(t), t in input samples: y_i ~ s((i - lag) q/p)
static double ls_lag(const arr_real& y, int p, int q, int len, const std::function<double(double)>& sig, int skip, double* rms_at_best, double* rms_at_zero) {
    double best = 0, best_e = 1e300;
    // the output covers the zero-padded input: only the part produced from the len real samples is compared
    const int n = std::min<long>(y.size(), long(len) * p / q);
    auto err = [&](double lag) {
        double e = 0;
        int cnt = 0;
        for (int i = skip; i < n - skip; ++i) {
            const double d = y[i] - sig((double(i) - lag) * double(q) / double(p));
            e += d * d;
            ++cnt;
        }
        return cnt ? std::sqrt(e / cnt) : 1e300;
    };
    for (double lag = -6.0; lag <= 6.0001; lag += 0.05) {
        const double e = err(lag);
        if (e < best_e) { best_e = e; best = lag; }
    }
    for (double lag = best - 0.05; lag <= best + 0.05; lag += 0.002) {
        const double e = err(lag);
        if (e < best_e) { best_e = e; best = lag; }
    }
    *rms_at_best = best_e;
    *rms_at_zero = err(0.0);
    return best;
}

static double g_worst_lag = 0, g_worst_rms = 0;
static void case_resample_align(int p, int q) {
    const int g = std::gcd(p, q), pr = p / g, qr = q / g;
    if (pr == qr) return;
    arm();
    const int R = std::max(pr, qr);
    const double edge = 0.5 * std::min(1.0, double(pr) / double(qr));   // cycles per input sample
    const int skip = 20 * R / qr + 4;                                   // filter length in output samples
    const int nyw = 3 * skip + 400;
    const int len = int(std::ceil(double(nyw) * qr / pr)) + 3;          // deliberately not a multiple of q
    const double PI2 = 6.283185307179586;
    // pass-band edge of the default design (Kaiser beta = 5, 20*Rd taps at the up-sampled rate, cut-off 1/(2 max(p,q))):
    // transition width 3.21/taps cycles per up-sampled sample.  For 1 < p << q the design has Rd = p and hardly any
    // pass-band; the tones are kept inside whatever pass-band the designed filter has (design quality is not claimed).
    const int Rd = (pr > 1) ? pr : qr;
    const double fpass = std::max(0.1 * edge, double(pr) * (0.5 / R - 0.08 / Rd));
    for (int which = 0; which < 3; ++which) {
        std::function<double(double)> sig;
        const char* nm;
        if (which == 0) { const double f = 0.05 * edge; sig = [=](double t) { return std::sin(PI2 * f * t + 0.3); }; nm = "slow-tone"; }
        else if (which == 1) { const double f0 = 0.02 * edge, f1 = 0.8 * fpass, T = len; sig = [=](double t) { return std::sin(PI2 * (f0 * t + 0.5 * (f1 - f0) * t * t / T)); }; nm = "sweep"; }
        else { const double fa = 0.6 * fpass, fb = 0.15 * fpass; sig = [=](double t) { return std::cos(PI2 * fa * t) + 0.5 * std::sin(PI2 * fb * t + 1.0); }; nm = "two-tone"; }
        arr_real x(len);
        for (int i = 0; i < len; ++i) x[i] = sig(double(i));
        const std::string js = jres("resample-align", p, q, size_t(len), (std::string(",\"signal\":\"") + nm + "\"").c_str());
        vh::set_current("C08:resample-crash", js);
        arr_real y;
        try { y = resample(x, p, q); } catch (const std::exception&) { vh::clear_current(); out.fail("C08:resample-throws", js); return; }
        vh::clear_current();
        out.n_oracle++;
        const long want = long(pr) * ((long(len) + qr - 1) / qr);
        if (long(y.size()) != want) { out.fail("C08:resample-length", js); continue; }
        double rb, rz;
        const double lag = ls_lag(y, pr, qr, len, sig, skip, &rb, &rz);
        if (std::getenv("C08_DEBUG")) std::fprintf(stderr, "align %d/%d %s len=%d ny=%d skip=%d lag=%.3f rms_best=%.2e rms_zero=%.2e\n", p, q, nm, len, y.size(), skip, lag, rb, rz);
        g_worst_lag = std::max(g_worst_lag, std::fabs(lag));
        g_worst_rms = std::max(g_worst_rms, rb);
        // bound of the property: one output sample; +0.01 = resolution of the lag search (grid 0.002).  Pure decimation
        // sits exactly ON the bound (delay() = sublen/2 while the designed filter centres at sublen/2 - 1 outputs).
        if (!(std::fabs(lag) <= 1.0 + 0.01)) out.fail("C08:resample-alignment", js);
        // band-limited approximation: at the best lag the interior error is small against the unit amplitude
        if (!(rb <= 0.05)) out.fail("C08:resample-approximation", js);
        out.stat("align_cases");
        out.stat(std::string("align_lag_") + (std::fabs(lag) <= 0.25 ? "le0.25" : std::fabs(lag) <= 0.5 ? "le0.5" : std::fabs(lag) <= 1.01 ? "le1" : "gt1"));
    }
}

int main(int argc, char** argv) {
    vh::Args a(argc, argv);
    vh::install_guards();
    THOROUGH = a.thorough;
    SEED = a.seed;
    vh::Rng rng(a.seed * 0x9e3779b97f4a7c15ULL + 8);
    vh::watch(a.thorough ? 3000 : 600);
    const int NMAX = 16;
    const std::pair<int, int> audio[] = {{160, 441}, {441, 160}, {147, 160}, {160, 147}, {320, 147}, {147, 320}, {2, 147}, {441, 2}};

    // ---- sizes / simplify
    for (int p = 1; p <= (a.thorough ? 16 : 8); ++p)
        for (int q = 1; q <= (a.thorough ? 16 : 8); ++q)
            for (int s : {0, 1, q - 1, q, q + 1, 3 * q + 2, 1000}) case_sizes(s, p, q);
    for (auto pq : audio) for (int s : {0, 1, 440, 441, 442, 44100, 48001}) case_sizes(s, pq.first, pq.second);

    // ---- polyphase
    for (int m = 1; m <= (a.thorough ? 16 : 8); ++m)
        for (int n : {1, 2, m - 1, m, m + 1, 2 * m, 3 * m + 1, 5 * m - 1})
            if (n >= 1)
                for (int fl = 0; fl < 2; ++fl) {
                    case_polyphase(rand_symmetric(rng, std::max(2, n)), m, fl ? double(m) : 1.0, fl);
                    case_polyphase(rand_any(rng, n), m, rng.coin() ? 2.5 : 1.0, fl);
                }
    case_polyphase({1.0, -1.0}, 2, 1.0, false);   // excluded point: sum(h) = 0 (division by zero)
    case_polyphase({1.0, -1.0, 0.0}, 2, 2.0, true);

    // ---- the converters: all reduced L/M in 1..16 (both tiers; quick with fewer repetitions)
    const int reps = a.thorough ? 72 : 16;
    g_corr_reps = a.thorough ? 8 : 6;
    const size_t budget = a.thorough ? 3000 : 2500;
    for (int L = 1; L <= NMAX; ++L)
        for (int M = 1; M <= NMAX; ++M) {
            const bool reduced = std::gcd(L, M) == 1;
            if (!a.thorough && (L > 8 || M > 8) && ((L * 31 + M * 17 + int(a.seed)) % 3 != 0)) {
                // quick: outside 1..8 every third pair per seed (all pairs over three seeds)
                if (reduced) out.stat("ratios_skipped_quick");
                continue;
            }
            if (reduced) {
                out.stat("ratios_reduced");
                if (M == 1 && L > 1) sweep_ratio(rng, INTERP, L, 1, reps, budget);
                if (L == 1 && M > 1) sweep_ratio(rng, DECIM, 1, M, reps, budget);
                sweep_ratio(rng, RATECONV, L, M, reps, budget);   // includes L = 1 or M = 1 (legal for the class)
                sweep_ratio(rng, RESAMPLER, L, M, reps, budget);
            } else if ((L + M) % 3 == 0 || L == M) {
                sweep_ratio(rng, RESAMPLER, L, M, 2, budget);     // non-reduced: reduced internally; L = M bypass
                if (a.thorough) sweep_ratio(rng, RATECONV, L, M, 2, budget);   // the class itself does not reduce
            }
        }
    sweep_ratio(rng, INTERP, 1, 1, 3, budget);
    sweep_ratio(rng, DECIM, 1, 1, 3, budget);
    for (auto pq : audio) {
        const int L = pq.first, M = pq.second;
        sweep_ratio(rng, RATECONV, L, M, a.thorough ? 24 : 6, a.thorough ? 40000 : 0);
        sweep_ratio(rng, RESAMPLER, L, M, a.thorough ? 24 : 6, 0);
        sweep_ratio(rng, RESAMPLER, L * 100, M * 100, 1, 0);   // sample rates in Hz
    }
    sweep_ratio(rng, INTERP, 441, 1, 2, 0);
    sweep_ratio(rng, DECIM, 1, 441, 2, 0);
    // excluded point sum(h) = 0: run the real code there (CORR compares inf/NaN patterns)
    run_converter(INTERP, 2, 1, {1.0, -1.0}, "zero-dc", false, {3, 2}, {1, 2, 3, 4, 5, 6, 7}, "ramp-int", true);
    run_converter(DECIM, 1, 2, {1.0, -1.0, 0.5, -0.5}, "zero-dc", false, {4, 2}, {1, 2, 3, 4, 5, 6, 7}, "ramp-int", true);
    run_converter(RATECONV, 3, 2, {1.0, -2.0, 1.0}, "zero-dc", false, {4, 2}, {1, 2, 3, 4, 5, 6, 7}, "ramp-int", true);

    // ---- copies of stateful converters (copy-construct from a prototype, mid-stream, vector(n, proto), copy-assign)
    {
        const int CM = a.thorough ? 16 : 6;
        for (int L = 1; L <= CM; ++L)
            for (int M = 1; M <= CM; ++M)
                if (std::gcd(L, M) == 1 && L != M) copy_probes(rng, L, M);
        copy_probes(rng, 160, 147);
        copy_probes(rng, 6, 4);   // not reduced: the rate converter itself does not reduce, the resampler does
        copy_probes(rng, 2, 8);
    }

    // ---- large single frames inside histories (every output of every call against the chain)
#ifdef VH_SANITIZER
    const bool heavy = false;   // the sanitizer run repeats the quick-size selection of the large classes
#else
    const bool heavy = a.thorough;
#endif
    {
        struct Conv { Kind k; int L, M; };
        const std::vector<std::vector<Conv>> pools = {
            {{INTERP, 2, 1}, {INTERP, 3, 1}, {INTERP, 4, 1}, {INTERP, 5, 1}, {INTERP, 8, 1}, {INTERP, 16, 1}},
            {{DECIM, 1, 4}, {DECIM, 1, 2}, {DECIM, 1, 3}, {DECIM, 1, 7}, {DECIM, 1, 16}, {DECIM, 1, 441}},
            {{RATECONV, 3, 2}, {RATECONV, 2, 3}, {RATECONV, 5, 7}, {RATECONV, 7, 4}, {RATECONV, 160, 147}, {RATECONV, 147, 160}, {RATECONV, 4, 9}, {RATECONV, 1, 5}},
            {{RESAMPLER, 1, 4}, {RESAMPLER, 4, 1}, {RESAMPLER, 3, 2}, {RESAMPLER, 6, 4}, {RESAMPLER, 2, 8}, {RESAMPLER, 441, 160}, {RESAMPLER, 44100, 48000}, {RESAMPLER, 5, 5}},
        };
        std::vector<Conv> convs;
        for (auto& pool : pools) {
            if (heavy) { convs.insert(convs.end(), pool.begin(), pool.end()); continue; }
            // quick: the first entry of the pool always, one more rotating with the seed
            convs.push_back(pool[0]);
            convs.push_back(pool[1 + size_t(a.seed % (pool.size() - 1))]);
        }
        const std::vector<int> bigs = heavy ? std::vector<int>{4097, 16385, 32769, 49152, 49153, 65536, 65537, 98304, 98305, 131072, 131073, 196609, 262145, 1000000}
                                            : std::vector<int>{65537, 131073};
        int sel = int(a.seed);
        for (auto& c : convs) {
            bool byp;
            const Kind md = mode_of(c.k, c.L, c.M, &byp);
            const int gg = (c.k == RESAMPLER) ? std::gcd(c.L, c.M) : 1;
            const int Lr = c.L / gg, Mr = c.M / gg, R = std::max(Lr, Mr);
            const int gran = (byp || md == INTERP) ? 1 : Mr;
            for (size_t bi = 0; bi < bigs.size(); ++bi) {
                const int big = bigs[bi];
                // interpolators multiply the sample count by L: keep the largest sizes for the cheaper converters
                if (md != DECIM && !byp && long(big) * Lr / Mr > (heavy ? 1200000 : 300000)) continue;
                std::vector<const char*> names;
                const auto H = big_histories(rng, gran, big, &names);
                for (size_t hi = 0; hi < H.size(); ++hi) {
                    if (!heavy && bi > 0 && hi > 0) continue;   // quick: the larger size only as small-big-small
                    ++sel;
                    std::vector<double> h;
                    const char* hkind;
                    bool dflt = false;
                    const XGen xg{rng.range(0, 18), (sel % 5 == 0) ? rng.range(50, 5000) : 0, (sel % 7 == 3) ? SCALES[sel % 8] : 1.0};
                    const XGen* pxg = nullptr;
                    if (sel % 3 == 0) { hkind = "default"; dflt = true; h = vec(design_multirate_fir(md == DECIM ? 1 : Lr, md == INTERP ? 1 : Mr)); if (c.k == RATECONV) h = vec(design_multirate_fir(c.L, c.M)); }
                    else if (sel % 3 == 1) { hkind = "sym-short"; h = rand_symmetric(rng, rng.range(2, std::max(2, 3 * R))); if (h.size() <= 1500 && big <= 140000) pxg = &xg; if (sel % 2) scale_by(h, SCALES[sel % NSCALES]); }
                    else { hkind = "sym-any"; h = rand_symmetric(rng, rng.range(2, (R <= 16 ? 24 : 3) * R)); }
                    if (byp) { h = {1.0}; hkind = "bypass"; dflt = false; }
                    run_big(rng, c.k, c.L, c.M, h, hkind, dflt, H[hi], pxg, names[hi]);
                }
            }
            // frames growing / shrinking geometrically: whatever size an internal buffer switches its strategy at is crossed
            const int top = (md == DECIM || byp) ? (heavy ? 600000 : 200000) : int(std::min<long>(heavy ? 300000 : 140000, (heavy ? 900000L : 300000L) * Mr / Lr));
            const auto hs = rand_symmetric(rng, rng.range(2, std::max(2, 6 * R)));
            const XGen xg{rng.range(0, 18), 0, 1.0};
            run_big(rng, c.k, c.L, c.M, byp ? std::vector<double>{1.0} : hs, "sym-short", false, staircase(rng, gran, top, true), (hs.size() <= 1500 && !heavy) ? &xg : nullptr, "staircase-up");
            if (heavy || (a.seed + size_t(&c - &convs[0])) % 2 == 0) {
                const auto hd = vec(design_multirate_fir(md == DECIM ? 1 : Lr, md == INTERP ? 1 : Mr));
                run_big(rng, c.k, c.L, c.M, byp ? std::vector<double>{1.0} : (c.k == RATECONV ? vec(design_multirate_fir(c.L, c.M)) : hd), "default", !byp, staircase(rng, gran, top, false), nullptr, "staircase-down");
            }
        }
    }

    // ---- extreme but valid ratios: factors up to 65536 (uint16_t branch offsets), short and long coefficient vectors
    {
        struct Ext { Kind k; int L, M; bool corr; bool dflt; bool quick; };
        const std::vector<Ext> ext = {
            {RATECONV, 2, 40001, true, true, true},    {RATECONV, 32769, 2, false, true, true},   {RATECONV, 3, 65536, true, true, true},
            {RATECONV, 32768, 32769, false, false, true}, {RATECONV, 48000, 44101, false, false, false}, {RATECONV, 5, 65535, true, false, false},
            {RATECONV, 32767, 32768, false, false, false}, {RATECONV, 40000, 39999, false, false, false}, {RATECONV, 7, 32769, true, false, true},
            {DECIM, 1, 65537, true, true, true},       {DECIM, 1, 40000, true, false, true},      {DECIM, 1, 100003, true, false, false},
            {INTERP, 40000, 1, true, false, true},     {INTERP, 65537, 1, true, true, true},      {INTERP, 100003, 1, false, false, false},
            {RESAMPLER, 2, 40001, true, true, true},   {RESAMPLER, 4, 80002, true, false, true},  {RESAMPLER, 1, 65537, true, false, true},
            {RESAMPLER, 32769, 2, false, false, true}, {RESAMPLER, 48000, 44101, false, false, true}, {RESAMPLER, 44101, 48000, false, false, false},
            {RESAMPLER, 65537, 1, true, false, false}, {RESAMPLER, 3, 65536, true, false, true},  {RESAMPLER, 96000, 3, false, false, false},
        };
        for (auto& e : ext) {
            if (!a.thorough && !e.quick) continue;
            bool byp;
            const Kind md = mode_of(e.k, e.L, e.M, &byp);
            const int gg = (e.k == RESAMPLER) ? std::gcd(e.L, e.M) : 1;
            const int Lr = e.L / gg, Mr = e.M / gg, R = std::max(Lr, Mr);
            const int gran = (md == INTERP) ? 1 : Mr;
            std::vector<int> frames = {gran, 0, 2 * gran};
            if (gran > 1) { frames.push_back(gran + 1); frames.push_back(gran - 1); }
            frames.push_back(gran);
            if (md == INTERP) frames = {1, 0, 2, 3};
            const XGen xg{rng.range(0, 18), 0, 1.0};
            // short coefficient vector (every branch has one tap, most branches are zero)
            run_big(rng, e.k, e.L, e.M, rand_symmetric(rng, rng.range(2, 16)), "sym-short", false, frames, e.corr ? &xg : nullptr, "extreme-ratio");
            // a little more than two taps per branch
            run_big(rng, e.k, e.L, e.M, rand_symmetric(rng, 2 * R + rng.range(1, 9)), "sym-2R", false, frames, nullptr, "extreme-ratio");
            if (e.dflt && (a.thorough || (a.seed + size_t(&e - &ext[0])) % 2 == 0)) {
                const auto hd = vec(design_multirate_fir(md == DECIM ? 1 : e.L, md == INTERP ? 1 : e.M));
                run_big(rng, e.k, e.L, e.M, hd, "default", true, frames, nullptr, "extreme-ratio");
            }
            out.stat("extreme_ratios");
        }
        // Decimation factors above 65536: the branch offsets were once stored as uint16_t and FIRRateConverter(2, 65537) wrapped the
        // offset 65536 to 0 (wrong samples, no memory error); repaired in /repo (known_findings.txt). Strict probe.
        {
            const std::vector<double> h = {1, 2, 3, 4, 4, 3, 2, 1};
            const int L = 2, M = 65537;
            std::vector<double> X(size_t(2 * M));
            for (size_t i = 0; i < X.size(); ++i) X[i] = xgen(XGen{3, 0, 1.0}, i);
            const std::string js = "{\"op\":\"rateconv\",\"L\":2,\"M\":65537,\"h\":[1,2,3,4,4,3,2,1],\"frames\":[131074],\"xgen\":[3,0,1]}";
            vh::set_current("C08:rateconv-crash", js);
            bool wrong = false;
            try {
                FIRRateConverter rc(L, M, arr(h));
                const arr_real y = rc.process(arr(X));
                ld scale = 0;
                const auto ref = reference(RATECONV, L, M, h, X, size_t(y.size()), &scale);
                for (int i = 0; i < y.size(); ++i) if (!(fabsl(ld(y[i]) - ref[size_t(i)]) <= 1e-12L * scale)) wrong = true;
            } catch (const std::exception&) { wrong = true; }
            vh::clear_current();
            out.stat("beyond_limit_rateconv_decim_65537_wrong", wrong ? 1 : 0);
            if (wrong) out.fail("C08:rateconv-decim-above-65536", js);
        }
    }

    // ---- resample(): exact chain + lengths + identity
    const int PQ = a.thorough ? 16 : 8;
    std::vector<std::pair<int, int>> ratios;
    for (int p = 1; p <= PQ; ++p) for (int q = 1; q <= PQ; ++q) ratios.push_back({p, q});
    for (auto pq : audio) ratios.push_back(pq);
    ratios.push_back({48000, 44100}); ratios.push_back({44100, 48000}); ratios.push_back({16000, 44100}); ratios.push_back({6, 4}); ratios.push_back({32, 48});
    for (auto pq : ratios) {
        const int p = pq.first, q = pq.second, g = std::gcd(p, q), pr = p / g, qr = q / g, R = std::max(pr, qr);
        const bool small = R <= 16;
        for (int rep0 = 0; rep0 < (a.thorough ? 20 : 5); ++rep0) {
            const int rep = rep0 % 5;
            std::vector<double> h;
            const char* hkind;
            bool dflt = false;
            if (rep == 0) { hkind = "default"; dflt = true; h = vec(default_resample_fir(pr, qr, 10, 5.0)); if (pr == qr) h = {1.0}; }
            else if (rep == 1) { hkind = "sym-any"; h = rand_symmetric(rng, rng.range(2, small ? 40 * R : 4 * R)); }
            else if (rep == 2) { hkind = "design90"; h = vec(design_multirate_fir(p, q)); }
            else if (rep == 3) { hkind = "sym-short"; h = rand_symmetric(rng, rng.range(2, 2 * R + 1)); }
            else { hkind = "nonsym"; h = rand_any(rng, rng.range(2, 5 * R)); }
            // lengths: 1, a multiple of q, not a multiple of q
            int len;
            const int c = rng.range(0, 5);
            if (c == 0) len = 1;
            else if (c == 1) len = qr * rng.range(1, 6);
            else if (c == 2) len = qr * rng.range(1, 6) + rng.range(1, std::max(1, qr - 1));
            else len = rng.range(2, small ? 90 : 700);
            const char* xkind;
            const auto x = gen_x(rng, size_t(len), rng.range(0, 5), 0.5 * std::min(1.0, double(pr) / qr), &xkind);
            const bool corr = small && (h.size() + size_t(len) * size_t(1 + (pr + qr - 1) / qr) <= (a.thorough ? 3000u : 1500u)) && rep0 < 5 && (rep < 2 || (p * 7 + q + rep) % 4 == 0);
            case_resample_exact(p, q, h, hkind, x, dflt, corr);
        }
    }
    // ---- resample(): long inputs — lengths that are exact multiples of plausible internal block sizes (aligned to q'), one off,
    //      powers of two +-1, 10^6; every output (the LAST delay() ones included) against the chain
    {
        std::vector<int> qs = {1, 2, 3, 4, 5, 6, 7, 8};
        if (heavy) for (int q = 9; q <= 16; ++q) qs.push_back(q);
        for (int q : {147, 160, 441}) qs.push_back(q);
        const std::vector<int> bases = heavy ? std::vector<int>{4096, 8192, 12288, 16384, 24576, 32768, 49152, 65536, 98304, 131072, 196608, 262144, 10000, 50000, 100000}
                                             : std::vector<int>{32768, 49152, 65536, 131072};
        int rot = int(a.seed);
        for (int q : qs) {
            // numerators coprime to q: small ones (rotating), and the audio partners
            std::vector<int> ps;
            if (q == 147) ps = {160, 320, 2};
            else if (q == 160) ps = {147, 441};
            else if (q == 441) ps = {160, 2};
            else for (int p = 1; p <= (heavy ? 16 : 8); ++p) if (std::gcd(p, q) == 1 && p != q) ps.push_back(p);
            const int np = heavy ? std::min<int>(3, int(ps.size())) : 1;
            for (int pi = 0; pi < np; ++pi) {
                const int p = ps[size_t(rot++) % ps.size()];
                for (int B : bases) {
                    const int nb = mult_at_most(B, q), nu = mult_at_least(B, q);
                    std::vector<std::pair<int, const char*>> lens = {{nb, "block-multiple"}, {2 * nb, "block-multiple"}};
                    if (heavy) {
                        if (B <= 65536) lens.push_back({3 * nb, "block-multiple"});
                        lens.push_back({nu, "block-multiple"}); lens.push_back({B + 1, "block-plus-1"}); lens.push_back({nb - 1, "block-minus-1"}); lens.push_back({nb + q, "block-plus-q"});
                    } else {
                        const int w = rot++ % 4;
                        lens.push_back(w == 0 ? std::make_pair(B + 1, "block-plus-1") : w == 1 ? std::make_pair(nb - 1, "block-minus-1") : w == 2 ? std::make_pair(nu, "block-multiple") : std::make_pair(3 * nb, "block-multiple"));
                    }
                    for (auto& lc : lens) {
                        if (long(lc.first) * p / q > (heavy ? 1500000 : 600000)) continue;
                        ++rot;
                        // a non-reduced spelling of the ratio now and then
                        const int mul = (rot % 5 == 0) ? 3 : 1;
                        case_resample_big(rng, p * mul, q * mul, lc.first, rot % 4, false, lc.second, (rot % 6 == 0) ? rot % 8 : -1, (rot % 5 == 1) ? rot % NSCALES : -1);
                    }
                }
            }
        }
        // fixed large sizes
        const std::pair<int, int> rr[] = {{3, 2}, {2, 3}, {1, 4}, {160, 147}, {5, 1}, {1, 16}, {7, 5}};
        const int fixed[] = {65535, 65537, 131071, 131073, 262144, 1000000};
        for (size_t i = 0; i < sizeof(fixed) / sizeof(int); ++i)
            for (size_t j = 0; j < sizeof(rr) / sizeof(rr[0]); ++j)
                if (heavy || (i + j + a.seed) % 7 == 0 || (i == 5 && j == a.seed % 3))
                    if (long(fixed[i]) * rr[j].first / rr[j].second <= 1600000) case_resample_big(rng, rr[j].first, rr[j].second, fixed[i], int(i + j) % 4, false, "fixed-large");
        // a few of them through CORR as digests (short coefficient vectors: the Lean model recomputes the whole output)
        const std::pair<int, int> cr[] = {{3, 2}, {1, 4}, {2, 7}, {5, 3}, {4, 1}, {2, 441}};
        for (size_t j = 0; j < sizeof(cr) / sizeof(cr[0]); ++j) {
            if (!a.thorough && j % 3 != a.seed % 3) continue;
            const int q = cr[j].second;
            case_resample_big(rng, cr[j].first, q, mult_at_most(49152, q), 1, true, "block-multiple");
            case_resample_big(rng, cr[j].first, q, 2 * mult_at_most(32768, q), 1, true, "block-multiple");
            case_resample_big(rng, cr[j].first, q, 65537, 1, true, "fixed-large", int(j) % 8, int(j + a.seed) % NSCALES);
        }
        // extreme ratios
        const std::pair<int, int> er[] = {{2, 40001}, {32769, 2}, {1, 65537}, {3, 65536}, {48000, 44101}, {32768, 32769}, {65537, 1}, {4, 80002}};
        for (size_t j = 0; j < sizeof(er) / sizeof(er[0]); ++j) {
            const int p = er[j].first, q = er[j].second;
            if (!a.thorough && (j == 4 || j == 5) && (a.seed + j) % 2) continue;
            const int gq = q / std::gcd(p, q);
            for (int len : {1, gq - 1, gq, gq + 1, 2 * gq + 7}) {
                if (len < 1 || long(len) * p / q > 400000) continue;
                const auto h = rand_symmetric(rng, rng.range(2, 24));
                const XGen xg{rng.range(0, 18), 0, 1.0};
                std::vector<double> x((size_t)len);
                for (size_t i = 0; i < x.size(); ++i) x[i] = xgen(xg, i);
                case_resample_exact(p, q, h, "sym-short", x, false, false, &xg, "extreme-ratio");
            }
        }
    }

    // ---- resample(): boundary probes
    for (auto pq : ratios) {   // empty input: p'*ceil(0/q') = 0 samples
        const int p = pq.first, q = pq.second;
        arm();
        const std::string js = jres("resample-empty", p, q, 0);
        vh::set_current("C08:resample-crash", js);
        out.n_oracle++;
        try {
            const arr_real y0 = resample(arr_real(), p, q);
            const arr_real y1 = resample(arr_real(), p, q, arr(rand_symmetric(rng, 7)));
            if (y0.size() != 0 || y1.size() != 0) out.fail("C08:resample-empty-input", js);
        } catch (const std::exception&) { out.fail("C08:resample-empty-input", js); }
        vh::clear_current();
        if (std::gcd(p, q) == 1 && p <= 4 && q <= 4) out.corr("resample " + std::to_string(p) + " " + std::to_string(q) + " 3 " + vh::hx(1.0) + " " + vh::hx(2.0) + " " + vh::hx(1.0) + " 0", "0");
        out.stat("resample_empty_probes");
    }
    if (a.thorough) {   // long input: nx * p exceeds 2^31 although every array length fits an int
        const int len = 4869441 + rng.range(0, 2000);
        arr_real x(len);
        for (int i = 0; i < len; ++i) x[i] = std::sin(0.01 * i);
        arm();
        const std::string js = jres("resample-long", 441, 160, size_t(len));
        vh::set_current("C08:resample-crash", js);
        out.n_oracle++;
        try {
            const arr_real y = resample(x, 441, 160);
            const long want = 441L * ((long(len) + 159) / 160);
            bool ok = long(y.size()) == want;
            // spot check of the tail against the slow sinusoid (aligned within one output sample: |dy| <= 0.01*160/441*1.01)
            for (long i = want - 5000; ok && i < want - 4000; ++i) ok = std::fabs(y[int(i)] - std::sin(0.01 * double(i) * 160.0 / 441.0)) < 0.01;
            if (!ok) out.fail("C08:resample-length-overflow", js);
        } catch (const std::exception&) { out.fail("C08:resample-length-overflow", js); }
        vh::clear_current();
        out.stat("resample_long_probes");
    }
    // ---- resample(): alignment and approximation of the default design on tones / sweeps
    for (int p = 1; p <= PQ; ++p) for (int q = 1; q <= PQ; ++q) if (std::gcd(p, q) == 1) case_resample_align(p, q);
    for (int i = 0; i < 5; ++i) case_resample_align(audio[i].first, audio[i].second);
    if (a.thorough) { case_resample_align(147, 320); case_resample_align(48000, 44100); case_resample_align(44100, 48000); }
    out.stats["align_worst_abs_lag_milli"] = (long long)(g_worst_lag * 1000);
    out.stats["align_worst_rms_micro"] = (long long)(g_worst_rms * 1e6);

    vh::unwatch();
    out.finish();
    return 0;
}
