// C14 — analytic signal, Hilbert filter, tuner follow their definitions.
//
// ORACLE (on the implementation only; every reference value is evaluated in long double):
//   hilbert(x)       re(hilbert(x))[t] = x[t]                       |err| <= 64 n eps ||x||_2      (two transforms of the C01/C02 class)
//                    DFT(hilbert(x))[k] = 0 for n/2 < k < n           |Y_k| <= 64 n eps ||X||_2,  ||X||_2 = sqrt(n) ||x||_2
//                    (brute-force long-double DFT bins: all negative bins for n <= 160, else both ends of the range + a random sample)
//   hilbert(x, n')   = hilbert(x padded with zeros / truncated to n') (same bound, against the library's own hilbert of the explicit copy)
//   HilbertFilter    real part  = input delayed by M/2 (zeros first), bit-exact, any framing
//                    imag part  = A sin(2 pi f (t - M/2) + phi) for x = A cos(2 pi f t + phi) once the filter is full (t >= M-1),
//                                 |err| <= 1e-3 A, for tones with max(2 tw, 6/M) <= f <= 0.5 - max(2 tw, 6/M)   (the property's own tolerance)
//                    + the long-double frequency response of impz() on a dense grid of the same band: |H(f) - (-i) e^{-2 pi i f M/2}| <= 1e-3
//   Tuner            out[k] = x[k] exp(2 pi i f k / fs) for every stream index k:  |err| <= |x[k]| (1e-9 + 4 eps 2 pi |f| k / fs),
//                    any framing (the framed run must be bit-identical to a one-call run of a second object)
//   NEAR-INTEGER f   the constructor's integer / non-integer decision (only an exactly integral f may restart the phase counter every fs samples):
//                    f = k + d, k in {0, +-1, +-7, +-(fs/2 - 1), +-fs/4, +-fs/2 (inwards), random}, d in {+-1 ulp of k, +-1e-12, +-1e-9, +-1e-7, +-5e-7,
//                    +-1e-6, +-1e-5, +-1e-3}, fs in {8, 100, 1000, 8000} (thorough: + 9, 4099, random), streams of 3 .. 50 fs (small offsets at small
//                    rates: up to 8000 fs, so that a lag of 2 pi d per period would exceed the bound many times), any framing, EVERY sample against
//                    exp(2 pi i f k/fs) with f k/fs reduced exactly, same bound as above; + one 2^24 (thorough: 2^31) sample stream of this class.
//   OBJECT LIFETIME copies of HilbertFilter / Tuner / Delay (copy-construction, copy-assignment over a live object, elements of vector(n, obj),
//                    by-value lambda capture, copy of a copy, destroyed copy, self-assignment, moved copy, assignment from an own copy), taken
//                    from a fresh prototype or mid-stream and then used INTERLEAVED with their source (all objects alive): every object must emit,
//                    bit for bit, what a separately constructed object fed the same frames emits, and obey the definition above;
//                    failed calls (rejected constructions / sizes) are interleaved; expressions built from temporaries equal the named form.
//   LONG STREAMS     one Tuner fed up to 2^24 (+) samples in quick and beyond 2^31 / 2^32 samples in thorough (worker threads), EVERY sample
//                    against exp(2 pi i f k/fs) with the cycle count f k/fs reduced exactly (128-bit integer arithmetic), frame boundaries at
//                    every residue around k = 2^16 and 2^24; single frames above 2^16 / 2^17 samples (multiples of 65536 / 49152) after
//                    shorter ones for HilbertFilter and Delay; input scale classes 1e-300 .. 1e100, zero runs, -0, denormals.
// CORR: hilbert / hilbert(x,n') / design_fir+impz / HilbertFilter::process / Delay / Tuner replayed by Model/Hilbert.lean (dspdriver_c14).
#include "common.hpp"
#include <algorithm>
#include <atomic>
#include <chrono>
#include <memory>
#include <set>
#include <thread>
using namespace dsplib;
typedef long double ld;
static vh::Out out;
static const ld EPS = 2.220446049250313e-16L;
static const ld PIL = 3.141592653589793238462643383279502884L;
static uint64_t g_seed = 1;

static void maxstat(const std::string& k, long long v) { auto& s = out.stats[k]; if (v > s) s = v; }
static void worst(const std::string& k, ld ratio) { maxstat("worst_err_over_bound_ppm_" + k, (long long)std::min((ld)1e15, ratio * 1e6L)); }

// ---------------------------------------------------------------- generated inputs shared with the Lean driver (same as harness/c01.cpp)
static inline uint64_t mix(uint64_t m, uint64_t s) {
    uint64_t z = (m + 1) * 0x9e3779b97f4a7c15ULL + s * 0xbf58476d1ce4e5b9ULL;
    z ^= z >> 29;
    z *= 0x94d049bb133111ebULL;
    z ^= z >> 32;
    return z;
}
static inline double gen_re(uint64_t m, uint64_t s) { return (double(mix(m, s) % 4001) - 2000.0) / 2048.0; }
static inline double gen_im(uint64_t m, uint64_t s) { return (double((mix(m, s) >> 20) % 4001) - 2000.0) / 2048.0; }

static std::string digest(const arr_cmplx& y) {
    const int n = y.size();
    std::string s = std::to_string(n);
    for (int i = 0; i < 8; ++i) {
        const int k = int(((long long)i * n) / 8 + (i % 3)) % n;
        s += " " + vh::hx(y[k].re) + " " + vh::hx(y[k].im);
    }
    double a[4][2] = {{0, 0}, {0, 0}, {0, 0}, {0, 0}};
    for (int k = 0; k < n; ++k) {
        const double g[4] = {1.0, (k % 2) ? -1.0 : 1.0, double(k % 7) - 3.0, double(((long long)k * k) % 5) - 2.0};
        for (int j = 0; j < 4; ++j) { a[j][0] += y[k].re * g[j]; a[j][1] += y[k].im * g[j]; }
    }
    for (int j = 0; j < 4; ++j) s += " " + vh::hx(a[j][0]) + " " + vh::hx(a[j][1]);
    return s;
}

template<class T> base_array<T> sub(const base_array<T>& x, int a, int n) {
    base_array<T> r(n);
    for (int i = 0; i < n; ++i) r[i] = x[a + i];
    return r;
}
template<class T> std::string frames_str(const base_array<T>& x, const std::vector<int>& lens) {
    std::string s = std::to_string(lens.size());
    int p = 0;
    for (int l : lens) { s += " " + vh::hxs(sub(x, p, l)); p += l; }
    return s;
}
// random framing of a stream of length nx into nf frames (empty frames allowed)
static std::vector<int> gen_cuts(vh::Rng& r, int nx, int nf) {
    std::vector<int> c;
    for (int i = 0; i + 1 < nf; ++i) c.push_back(r.range(0, nx));
    std::sort(c.begin(), c.end());
    std::vector<int> len;
    int prev = 0;
    for (int v : c) { len.push_back(v - prev); prev = v; }
    len.push_back(nx - prev);
    return len;
}

// =====================================================================================================
//                 shared pieces of the lifetime / long-stream / large-frame scenarios
// =====================================================================================================
static const ld DENORM = 4.9406564584124654e-324L;
static const double SCALES[] = {1e-300, 1e-17, 1e-8, 1.0, 1e8, 1e100};
static const int NSC = 6;
static const char* XKIND[] = {"gauss", "scale-class", "zero-runs-and-negative-zeros", "denormals", "powers-of-two"};
static const int NXK = 5;

// real input of one of the value classes (lesson 1): 0 gauss, 1 gauss at an absolute scale class, 2 runs of exact zeros (+0 / -0) longer than
// the histories involved are not guaranteed here (the large-frame scenario has those) but runs of 1..n, 3 denormals, 4 exact powers of two
static arr_real gen_real_kind(vh::Rng& r, int n, int kind, double sc) {
    arr_real x(n);
    for (int i = 0; i < n; ++i) x[i] = r.gauss();
    if (kind == 1) for (int i = 0; i < n; ++i) x[i] *= sc;
    else if (kind == 2) {
        int i = 0;
        while (i < n) {
            const int run = r.range(1, std::max(1, n / 2));
            const int what = r.range(0, 2);   // 0 keep, 1 zeros, 2 negative zeros
            for (int j = 0; j < run && i < n; ++j, ++i) if (what) x[i] = what == 1 ? 0.0 : -0.0;
        }
    } else if (kind == 3) for (int i = 0; i < n; ++i) x[i] = (i % 3 == 0) ? std::copysign(4.9406564584124654e-324, x[i]) : x[i] * 1e-310;
    else if (kind == 4) for (int i = 0; i < n; ++i) x[i] = std::copysign(std::ldexp(1.0, r.range(-30, 30)), x[i]);
    return x;
}
static arr_cmplx gen_cmplx_kind(vh::Rng& r, int n, int kind, double sc) {
    const arr_real a = gen_real_kind(r, n, kind, sc), b = gen_real_kind(r, n, kind, sc);
    arr_cmplx x(n);
    for (int i = 0; i < n; ++i) x[i] = cmplx_t{a[i], b[i]};
    return x;
}

template<class T> static bool same_bits(const T& a, const T& b) { return std::memcmp(&a, &b, sizeof(T)) == 0; }
static std::string jval(double v) {
    char b[40];
    std::snprintf(b, sizeof b, "%.17g", v);
    return "\"" + vh::hx(v) + " = " + b + "\"";
}
static std::string jval(const cmplx_t& v) { return "[" + jval(v.re) + "," + jval(v.im) + "]"; }

template<class T> static base_array<T> cat(const std::vector<base_array<T>>& v) {
    int n = 0;
    for (auto& a : v) n += a.size();
    base_array<T> r(n);
    int p = 0;
    for (auto& a : v) for (int i = 0; i < a.size(); ++i) r[p++] = a[i];
    return r;
}
template<class T> static std::vector<int> lens_of(const std::vector<base_array<T>>& v) {
    std::vector<int> l;
    for (auto& a : v) l.push_back(a.size());
    return l;
}
template<class T> static std::string frames_str(const std::vector<base_array<T>>& v) {
    std::string s = std::to_string(v.size());
    for (auto& a : v) s += " " + vh::hxs(a);
    return s;
}
template<class T> static std::string outs_str(const std::vector<base_array<T>>& v) {
    std::string s;
    for (auto& a : v) s += (s.empty() ? "" : " ") + vh::hxs(a);
    return s;
}

// frac(f k / fs) in [0, 1): the product f*k and the reduction mod 1 are EXACT (f = m 2^e, 128-bit integer arithmetic); the only rounding is the
// final quotient (relative 2^-63).  Valid for |f| < 2^40, 0 <= k < 2^40, fs < 2^27.
static inline ld u128_ld(unsigned __int128 v) { return (ld)(uint64_t)(v >> 64) * 18446744073709551616.0L + (ld)(uint64_t)v; }
static ld cycles_exact(double f, long long k, int fs) {
    if (f == 0 || k == 0) return 0;
    int e;
    const double mant = std::frexp(std::fabs(f), &e);
    uint64_t m = (uint64_t)std::ldexp(mant, 53);
    e -= 53;
    while ((m & 1) == 0) { m >>= 1; ++e; }
    const unsigned __int128 N = (unsigned __int128)m * (unsigned __int128)(uint64_t)k;   // < 2^53 * 2^40
    ld fr;
    if (e >= 0) {
        const unsigned __int128 D = (unsigned __int128)(uint64_t)fs;
        fr = u128_ld((N << e) % D) / (ld)fs;
    } else if (-e <= 100) {
        const unsigned __int128 D = (unsigned __int128)(uint64_t)fs << (-e);
        fr = u128_ld(N % D) / u128_ld(D);
    } else {
        fr = fabsl((ld)f) * (ld)k / (ld)fs;   // |f| < 2^-47: far below one cycle, nothing to reduce
        fr -= floorl(fr);
    }
    if (f < 0 && fr != 0) fr = 1 - fr;
    return fr;
}

// worst error / bound of y[i] against x[i] exp(2 pi i f (k0 + i) / fs), bound = |x| (1e-9 + 4 eps phase) + 4 denorm
static ld tuner_worst(int fs, double f, long long k0, const arr_cmplx& x, const arr_cmplx& y, long long& wk, ld& wb) {
    ld w = 0;
    wk = -1;
    wb = 0;
    for (int i = 0; i < x.size(); ++i) {
        const long long k = k0 + i;
        const ld cyc = cycles_exact(f, k, fs);
        const ld phase_abs = 2 * PIL * fabsl((ld)f) * (ld)k / (ld)fs;
        const ld c = cosl(2 * PIL * cyc), sn = sinl(2 * PIL * cyc);
        const ld er = (ld)x[i].re * c - (ld)x[i].im * sn, ei = (ld)x[i].re * sn + (ld)x[i].im * c;
        const ld mag = hypotl((ld)x[i].re, (ld)x[i].im);
        const ld bound = mag * (1e-9L + 4 * EPS * phase_abs) + 4 * DENORM;
        const ld e = hypotl((ld)y[i].re - er, (ld)y[i].im - ei);
        const ld ratio = e / bound;
        if (!(ratio <= w)) { w = ratio; wk = k; wb = bound; }
    }
    return w;
}

// failed calls (lesson 4): every one of these throws; nothing that follows on the same thread / the same live objects may notice
static void provoke_failures(vh::Rng& r) {
    int n = 0;
    try { arr_real x(r.range(0, 2)); (void)hilbert(x); } catch (const std::exception&) { ++n; }
    try { arr_real x(5); x[1] = 1; (void)hilbert(x, r.range(0, 2)); } catch (const std::exception&) { ++n; }
    try { arr_real h(8); for (int i = 0; i < 4; ++i) { h[i] = i + 1; h[7 - i] = -(i + 1); } HilbertFilter flt(h); (void)flt; } catch (const std::exception&) { ++n; }
    try { arr_real h(9); for (int i = 0; i < 9; ++i) h[i] = 1; HilbertFilter flt(h); (void)flt; } catch (const std::exception&) { ++n; }
    try { Tuner t(100, 50.5 + r.range(0, 3)); (void)t; } catch (const std::exception&) { ++n; }
    try { DelayReal d(0); (void)d.process(arr_real(3)); } catch (const std::exception&) { ++n; }
    try { DelayCmplx d(0); (void)d.process(arr_cmplx(0)); } catch (const std::exception&) { ++n; }
    out.stat("failed_calls_provoked", n);
}

// the definition of HilbertFilter on a whole stream: re = x delayed by M/2 (bits), im = sum_j h[j] x[t-j] (long double, 4 M eps sum |h||x| + M denorm)
static std::string hf_def(const arr_real& h, const arr_real& x, const arr_cmplx& y, const std::vector<int>* only = nullptr) {
    const int M = h.size(), D = M / 2, n = x.size();
    if (y.size() != n) return "\"size\":" + std::to_string(y.size());
    for (int t = 0; t < n; ++t) {
        const double e = t < D ? 0.0 : x[t - D];
        if (!same_bits(y[t].re, e)) return "\"index\":" + std::to_string(t) + ",\"real_part\":" + jval(y[t].re) + ",\"delayed_input\":" + jval(e);
    }
    auto one = [&](int t) -> std::string {
        ld s = 0, sa = 0;
        for (int j = 0; j < M && j <= t; ++j) { const ld p = (ld)h[j] * (ld)x[t - j]; s += p; sa += fabsl(p); }
        const ld bound = 4 * (ld)M * EPS * sa + (ld)M * DENORM;
        const ld e = fabsl((ld)y[t].im - s);
        if (sa > 0) worst("hf_convolution", e / bound);
        if (!(e <= bound)) return "\"index\":" + std::to_string(t) + ",\"imag_part\":" + jval(y[t].im) + ",\"sum_h_x\":" + jval((double)s) + ",\"bound\":" + vh::jnum((double)bound);
        return "";
    };
    if (only) { for (int t : *only) { const std::string e = one(t); if (!e.empty()) return e; } }
    else for (int t = 0; t < n; ++t) { const std::string e = one(t); if (!e.empty()) return e; }
    return "";
}

// =====================================================================================================
//                                              hilbert
// =====================================================================================================
static const char* HK[] = {"gauss", "gauss-no-dc-no-nyquist", "dc", "alternating", "tone-on-bin", "tone-off-bin", "dc+nyquist+tones", "impulse", "dynamic-range"};
static const int NHK = 9;

static arr_real gen_sig(vh::Rng& r, int n, int kind) {
    arr_real x(n);
    for (int t = 0; t < n; ++t) x[t] = 0;
    const int kmax = std::max(1, (n - 1) / 2);
    switch (kind) {
    case 0: for (int t = 0; t < n; ++t) x[t] = r.gauss(); break;
    case 1: {
        for (int t = 0; t < n; ++t) x[t] = r.gauss();
        ld m = 0;
        for (int t = 0; t < n; ++t) m += x[t];
        m /= n;
        for (int t = 0; t < n; ++t) x[t] = double(x[t] - m);
        if (n % 2 == 0) {
            ld a = 0;
            for (int t = 0; t < n; ++t) a += (t % 2 ? -1 : 1) * (ld)x[t];
            a /= n;
            for (int t = 0; t < n; ++t) x[t] = double(x[t] - (t % 2 ? -a : a));
        }
        break;
    }
    case 2: { const double c = r.coin() ? 1.0 : r.gauss() * 3; for (int t = 0; t < n; ++t) x[t] = c; break; }
    case 3: { const double c = r.coin() ? 1.0 : r.gauss() * 3; for (int t = 0; t < n; ++t) x[t] = (t % 2) ? -c : c; break; }
    case 4: {
        const int k0 = r.range(1, kmax);
        const double A = 0.1 + 4 * r.unit(), ph = 6.283185307179586 * r.unit();
        for (int t = 0; t < n; ++t) x[t] = A * std::cos(6.283185307179586 * double((long long)k0 * t % n) / n + ph);
        break;
    }
    case 5: {
        const double k0 = r.range(0, kmax) + 0.1 + 0.8 * r.unit();
        const double A = 0.1 + 4 * r.unit(), ph = 6.283185307179586 * r.unit();
        for (int t = 0; t < n; ++t) x[t] = A * std::cos(6.283185307179586 * k0 * t / n + ph);
        break;
    }
    case 6: {
        const int k0 = r.range(1, kmax);
        const double k1 = r.range(0, kmax) + 0.5;
        const double dc = r.gauss() * 2, ny = r.gauss() * 2, ph = 6.283185307179586 * r.unit();
        for (int t = 0; t < n; ++t)
            x[t] = dc + ((t % 2) ? -ny : ny) + std::cos(6.283185307179586 * double((long long)k0 * t % n) / n + ph) + 0.5 * std::sin(6.283185307179586 * k1 * t / n);
        break;
    }
    case 7: x[r.coin() ? 0 : r.range(0, n - 1)] = r.coin() ? 1.0 : r.gauss(); break;
    case 8: for (int t = 0; t < n; ++t) x[t] = r.gauss() * std::ldexp(1.0, r.range(-20, 20)); break;
    }
    return x;
}

static std::string hil_json(const char* what, int n, int kind, uint64_t cs, int idx, ld err, ld bound, const arr_real& x, int np = -1) {
    std::ostringstream o;
    o << "{\"op\":\"" << what << "\",\"n\":" << n << ",\"kind\":\"" << (kind >= 0 ? HK[kind] : "generated") << "\",\"case_seed\":" << cs;
    if (np >= 0) o << ",\"n_out\":" << np;
    o << ",\"index\":" << idx << ",\"error\":" << vh::jnum((double)err) << ",\"bound\":" << vh::jnum((double)bound);
    if (x.size() <= 64) o << ",\"x\":" << vh::jarr(x);
    o << "}";
    return o.str();
}

// long-double twiddle table for one n
struct Tw {
    int n = 0;
    std::vector<ld> c, s;
    void set(int m) {
        if (m == n) return;
        n = m;
        c.resize(n);
        s.resize(n);
        for (int i = 0; i < n; ++i) { c[i] = cosl(2 * PIL * i / n); s[i] = sinl(2 * PIL * i / n); }
    }
};
static Tw g_tw;

// checks of y = hilbert(x) against the definition; returns false when an oracle failed
static bool check_hilbert(const arr_real& x, const arr_cmplx& y, const char* what, int kind, uint64_t cs, vh::Rng& r, int np = -1) {
    const int n = x.size();
    ++out.n_oracle;
    if (y.size() != n) { out.fail("C14:hilbert-size", hil_json(what, n, kind, cs, y.size(), 0, 0, x, np)); return false; }
    ld e2 = 0;
    for (int t = 0; t < n; ++t) e2 += (ld)x[t] * x[t];
    const ld nx = sqrtl(e2);
    const ld rel = 64 * (ld)n * EPS;
    bool ok = true;
    // real part
    {
        const ld bound = rel * nx;
        ld w = 0;
        int wi = 0;
        for (int t = 0; t < n; ++t) {
            const ld e = fabsl((ld)y[t].re - (ld)x[t]);
            if (!(e <= w)) { w = e; wi = t; }   // NaN-safe: a NaN error becomes the worst
        }
        if (nx > 0) worst("hilbert_re", w / bound);
        if (!(w <= bound)) { out.fail("C14:hilbert-re", hil_json(what, n, kind, cs, wi, w, bound, x, np)); ok = false; }
    }
    // negative-frequency bins
    {
        const ld bound = rel * sqrtl((ld)n) * nx;
        std::vector<int> bins;
        const int lo = n / 2 + 1, hi = n - 1;
        if (n <= 160) { for (int k = lo; k <= hi; ++k) bins.push_back(k); }
        else {
            std::set<int> s;
            for (int d = 0; d < 6; ++d) { s.insert(lo + d); s.insert(hi - d); }
            for (int j = 0; j < 20; ++j) s.insert(r.range(lo, hi));
            bins.assign(s.begin(), s.end());
        }
        g_tw.set(n);
        ld w = 0;
        int wk = lo;
        for (int k : bins) {
            ld sr = 0, si = 0;
            long long idx = 0;
            for (int t = 0; t < n; ++t) {
                // y[t] * exp(-2 pi i k t / n)
                const ld c = g_tw.c[idx], s = -g_tw.s[idx];
                sr += (ld)y[t].re * c - (ld)y[t].im * s;
                si += (ld)y[t].re * s + (ld)y[t].im * c;
                idx += k;
                if (idx >= n) idx -= n;
            }
            const ld e = hypotl(sr, si);
            if (!(e <= w)) { w = e; wk = k; }
            ++out.n_oracle;
        }
        out.stat("hilbert_negative_bins_evaluated", (long long)bins.size());
        if (nx > 0) worst("hilbert_negbin", w / bound);
        if (!(w <= bound)) { out.fail("C14:hilbert-negative-bin", hil_json(what, n, kind, cs, wk, w, bound, x, np)); ok = false; }
    }
    return ok;
}

static void hilbert_case(int n, int kind, uint64_t cs, bool emit) {
    vh::Rng r(cs);
    const arr_real x = gen_sig(r, n, kind);
    vh::set_current("C14:hilbert-crash", hil_json("hilbert", n, kind, cs, -1, 0, 0, x));
    arr_cmplx y;
    try { y = hilbert(x); } catch (const std::exception& e) {
        out.fail("C14:hilbert-throws", hil_json("hilbert", n, kind, cs, -1, 0, 0, x));
        vh::clear_current();
        return;
    }
    vh::clear_current();
    check_hilbert(x, y, "hilbert", kind, cs, r);
    out.stat(std::string("hilbert_kind_") + HK[kind]);
    out.stat(n % 2 ? "hilbert_odd_n" : "hilbert_even_n");
    if (emit) {
        out.corr("hilb " + vh::hxs(x), vh::hxs(y));
        if (n <= 8) out.sample("{\"op\":\"hilbert\",\"x\":" + vh::jarr(x) + ",\"y\":" + vh::jarr(y) + "}");
    }
}

// generated input + digest (mirrored by the driver): CORR for many lengths at small volume
static void hilbert_gen_case(int n, uint64_t s) {
    arr_real x(n);
    for (int m = 0; m < n; ++m) x[m] = gen_re(m, s);
    vh::set_current("C14:hilbert-crash", "{\"op\":\"hilbert\",\"n\":" + std::to_string(n) + ",\"generated_seed\":" + std::to_string(s) + "}");
    arr_cmplx y;
    try { y = hilbert(x); } catch (const std::exception& e) {
        out.fail("C14:hilbert-throws", "{\"op\":\"hilbert\",\"n\":" + std::to_string(n) + ",\"generated_seed\":" + std::to_string(s) + "}");
        vh::clear_current();
        return;
    }
    vh::clear_current();
    out.corr("hilbg " + std::to_string(n) + " " + std::to_string(s), digest(y));
}

static void hilbert_n_case(int nx, int np, int kind, uint64_t cs, bool emit) {
    vh::Rng r(cs);
    const arr_real x = gen_sig(r, nx, kind);
    arr_real xp(np);
    for (int t = 0; t < np; ++t) xp[t] = t < nx ? x[t] : 0.0;
    vh::set_current("C14:hilbert-crash", hil_json("hilbert(x,n)", nx, kind, cs, -1, 0, 0, x, np));
    arr_cmplx y, yp;
    try { y = hilbert(x, np); yp = hilbert(xp); } catch (const std::exception& e) {
        out.fail("C14:hilbert-n-throws", hil_json("hilbert(x,n)", nx, kind, cs, -1, 0, 0, x, np));
        vh::clear_current();
        return;
    }
    vh::clear_current();
    ++out.n_oracle;
    out.stat(np > nx ? "hilbert_n_pad" : np < nx ? "hilbert_n_truncate" : "hilbert_n_same");
    if (y.size() != np) { out.fail("C14:hilbert-n-size", hil_json("hilbert(x,n)", nx, kind, cs, y.size(), 0, 0, x, np)); return; }
    // (a) against the library's hilbert of the explicit copy
    ld e2 = 0;
    for (int t = 0; t < np; ++t) e2 += (ld)xp[t] * xp[t];
    const ld bound = 2 * 64 * (ld)np * EPS * sqrtl(e2);
    ld w = 0;
    int wi = 0;
    bool same = true;
    for (int t = 0; t < np; ++t) {
        const ld e = hypotl((ld)y[t].re - (ld)yp[t].re, (ld)y[t].im - (ld)yp[t].im);
        if (!(e <= w)) { w = e; wi = t; }
        if (std::memcmp(&y[t], &yp[t], sizeof(cmplx_t)) != 0) same = false;
    }
    out.stat(same ? "hilbert_n_bit_identical_to_hilbert_of_copy" : "hilbert_n_not_bit_identical");
    if (!(w <= bound)) { out.fail("C14:hilbert-n", hil_json("hilbert(x,n)", nx, kind, cs, wi, w, bound, x, np)); return; }
    // (b) the definition itself on the padded / truncated signal
    check_hilbert(xp, y, "hilbert(x,n)", kind, cs, r, np);
    if (emit) out.corr("hilbn " + std::to_string(np) + " " + vh::hxs(x), vh::hxs(y));
}

static bool is_prime(int n) {
    if (n < 2) return false;
    for (int d = 2; (long long)d * d <= n; ++d) if (n % d == 0) return false;
    return true;
}

static void run_hilbert(bool thorough, vh::Rng& rng) {
    // lengths
    std::vector<int> lens;
    if (thorough) { for (int n = 3; n <= 4096; ++n) lens.push_back(n); }
    else {
        std::set<int> s;
        for (int n = 3; n <= 48; ++n) s.insert(n);
        for (int p = 6; p <= 12; ++p) { s.insert((1 << p) - 1); s.insert(1 << p); if ((1 << p) + 1 <= 4096) s.insert((1 << p) + 1); }
        const int special[] = {97, 100, 101, 127, 210, 243, 250, 360, 625, 1000, 1001, 1009, 1155, 2187, 2310, 3001, 3125, 4093, 4094, 4095};
        for (int v : special) s.insert(v);
        for (int j = 0; j < 40; ++j) s.insert(rng.range(49, 4096));
        lens.assign(s.begin(), s.end());
    }
    out.stat("hilbert_lengths", (long long)lens.size());
    // CORR subsets: full vectors for small n, digest for a spread of n
    std::set<int> corr_full, corr_dig;
    for (int n = 3; n <= (thorough ? 64 : 24); ++n) corr_full.insert(n);
    { const int more[] = {31, 32, 33, 47, 64, 100, 127, 128, 243, 256}; for (int v : more) corr_full.insert(v); }
    if (thorough) { for (int n = 3; n <= 512; ++n) corr_dig.insert(n); for (int j = 0; j < 300; ++j) corr_dig.insert(rng.range(513, 4096)); }
    else { for (int n = 3; n <= 64; ++n) corr_dig.insert(n); for (int j = 0; j < 12; ++j) corr_dig.insert(rng.range(65, 1024)); }
    { const int more[] = {512, 1000, 1024, 1009, 2048, 2187, 3001, 4093, 4095, 4096}; for (int v : more) corr_dig.insert(v); }
    for (int n : lens) {
        vh::watch(120);
        for (int kind = 0; kind < NHK; ++kind) {
            const uint64_t cs = g_seed * 1000003ULL + (uint64_t)n * 64 + kind;
            const bool emit = corr_full.count(n) && (n <= 16 || kind == (n % NHK) || kind == 0);
            hilbert_case(n, kind, cs, emit);
        }
        if (corr_dig.count(n)) hilbert_gen_case(n, g_seed + n);
        vh::unwatch();
        out.stat(is_prime(n) ? "hilbert_prime_n" : ((n & (n - 1)) == 0 ? "hilbert_pow2_n" : "hilbert_composite_n"));
    }
    // beyond the swept range (lessons 3 and 5): just above 4096, around 2^16 and 2^17, a prime above 46340 (k*k overflows a 32-bit int) and
    // multiples of it; two signal kinds each (gauss + one by rotation); CORR by digest for the smaller ones
    {
        int p = 46341;
        while (!is_prime(p)) ++p;
        std::vector<int> big = {4097, p, 65536, 2 * p};
        if (thorough) { const int more[] = {4099, 5000, 8191, 8192, 8193, 16384, 32768, 65537, 65535, 3 * p, 131072, 131073, 98304, 147456}; for (int v : more) big.push_back(v); }
        int j = int(g_seed);
        for (int n : big) {
            vh::watch(300);
            for (int q = 0; q < 2; ++q) {
                const int kind = q == 0 ? 0 : 1 + (j++ % (NHK - 1));
                hilbert_case(n, kind, g_seed * 1000003ULL + (uint64_t)n * 64 + kind, false);
            }
            if (n <= 70000) hilbert_gen_case(n, g_seed + n);
            vh::unwatch();
            out.stat("hilbert_lengths_beyond_4096");
            if (is_prime(n)) out.stat("hilbert_prime_length_above_46340");
        }
    }
    // below the property's domain (n < 3): the code throws; CORR only
    for (int n = 0; n <= 2; ++n) {
        arr_real x(n);
        for (int t = 0; t < n; ++t) x[t] = rng.gauss();
        std::string o;
        try { o = vh::hxs(hilbert(x)); } catch (const std::exception& e) { o = "ERR"; }
        out.corr("hilb " + vh::hxs(x), o);
        arr_real x5(5);
        for (int t = 0; t < 5; ++t) x5[t] = rng.gauss();
        try { o = vh::hxs(hilbert(x5, n)); } catch (const std::exception& e) { o = "ERR"; }
        out.corr("hilbn " + std::to_string(n) + " " + vh::hxs(x5), o);
        out.stat("hilbert_below_domain_cases", 2);
    }
    // hilbert(x, n')
    const int npairs = thorough ? 3000 : 200;
    for (int j = 0; j < npairs; ++j) {
        int nx, np;
        if (j < 60) { nx = 3 + j % 10; np = 3 + (j / 10) * 2 + (j % 2); }          // small exhaustive-ish grid, both directions
        else {
            nx = rng.range(3, (j % 5 == 0) ? 4096 : 400);
            const int mode = j % 4;
            np = mode == 0 ? nx : mode == 1 ? rng.range(3, nx) : mode == 2 ? rng.range(nx, std::min(4096, 2 * nx + 3)) : rng.range(3, 4096);
        }
        const uint64_t cs = g_seed * 7000003ULL + j;
        hilbert_n_case(nx, np, j % NHK, cs, j < 60 ? (j % 3 == 0) : (std::max(nx, np) <= 300 && (j % 4 == 1 || j % 8 == 2 || j % 8 == 4)));
    }
}

// =====================================================================================================
//                                           Delay (CORR only; the delay clause of HilbertFilter is checked below)
// =====================================================================================================
static void run_delay(bool thorough, vh::Rng& rng) {
    {   // Delay(0): process throws (slice constructor); CORR only
        arr_real x(3);
        for (int i = 0; i < 3; ++i) x[i] = rng.gauss();
        std::string o;
        try { DelayReal d(0); o = vh::hxs(d.process(x)); } catch (const std::exception& e) { o = "ERR"; }
        out.corr("dlyR 0 1 " + vh::hxs(x), o);
        try { DelayReal d(0); o = vh::hxs(d.process(arr_real(0))); } catch (const std::exception& e) { o = "ERR"; }
        out.corr("dlyR 0 1 0", o);
    }
    const int ncase = thorough ? 120 : 30;
    for (int j = 0; j < ncase; ++j) {
        const int nd = j < 6 ? j + 1 : rng.range(1, 200);
        const int total = rng.range(0, 3 * nd + 20);
        const auto lens = gen_cuts(rng, total, rng.range(1, 6));
        vh::set_current("C14:delay-crash", "{\"op\":\"Delay\",\"nd\":" + std::to_string(nd) + ",\"frames\":" + vh::jints(lens) + "}");
        if (j % 4 == 3) {
            // the "initial contents" constructor, complex (did not compile before /repo a0bedcc)
            arr_cmplx x(total);
            for (int i = 0; i < total; ++i) x[i] = cmplx_t{rng.gauss(), rng.gauss()};
            arr_cmplx init(nd);
            for (int i = 0; i < nd; ++i) init[i] = cmplx_t{rng.gauss(), rng.gauss()};
            DelayCmplx d(init);
            std::string o;
            int p = 0;
            ld bad = 0;
            for (int l : lens) {
                const arr_cmplx y = d.process(sub(x, p, l));
                for (int i = 0; i < y.size(); ++i) {
                    const cmplx_t e = (p + i < nd) ? init[p + i] : x[p + i - nd];
                    if (y[i].re != e.re || y[i].im != e.im || y.size() != l) bad = 1;
                }
                o += (o.empty() ? "" : " ") + vh::hxs(y);
                p += l;
            }
            ++out.n_oracle;
            if (bad != 0) out.fail("C14:delay", "{\"op\":\"DelayCmplx(initial)\",\"nd\":" + std::to_string(nd) + ",\"frames\":" + vh::jints(lens) + "}");
            out.corr("dlyJ " + vh::hxs(init) + " " + frames_str(x, lens), o);
        } else if (j % 3 == 2) {
            arr_cmplx x(total);
            for (int i = 0; i < total; ++i) x[i] = cmplx_t{rng.gauss(), rng.gauss()};
            DelayCmplx d(nd);
            std::string o;
            int p = 0;
            ld bad = 0;
            for (int l : lens) {
                const arr_cmplx y = d.process(sub(x, p, l));
                for (int i = 0; i < y.size(); ++i) {
                    const cmplx_t e = (p + i < nd) ? cmplx_t{0, 0} : x[p + i - nd];
                    if (y[i].re != e.re || y[i].im != e.im || y.size() != l) bad = 1;
                }
                o += (o.empty() ? "" : " ") + vh::hxs(y);
                p += l;
            }
            ++out.n_oracle;
            if (bad != 0) out.fail("C14:delay", "{\"op\":\"DelayCmplx\",\"nd\":" + std::to_string(nd) + ",\"frames\":" + vh::jints(lens) + "}");
            out.corr("dlyC " + std::to_string(nd) + " " + frames_str(x, lens), o);
        } else if (j % 3 == 0) {
            arr_real x(total);
            for (int i = 0; i < total; ++i) x[i] = rng.gauss();
            DelayReal d(nd);
            std::string o;
            int p = 0;
            ld bad = 0;
            for (int l : lens) {
                const arr_real y = d.process(sub(x, p, l));
                for (int i = 0; i < y.size(); ++i) { const double e = (p + i < nd) ? 0.0 : x[p + i - nd]; if (y[i] != e || y.size() != l) bad = 1; }
                o += (o.empty() ? "" : " ") + vh::hxs(y);
                p += l;
            }
            ++out.n_oracle;
            if (bad != 0) out.fail("C14:delay", "{\"op\":\"DelayReal\",\"nd\":" + std::to_string(nd) + ",\"frames\":" + vh::jints(lens) + "}");
            out.corr("dlyR " + std::to_string(nd) + " " + frames_str(x, lens), o);
        } else {
            // the "initial contents" constructor, real
            arr_real x(total);
            for (int i = 0; i < total; ++i) x[i] = rng.gauss();
            arr_real init(nd);
            for (int i = 0; i < nd; ++i) init[i] = rng.gauss();
            DelayReal d(init);
            std::string o;
            int p = 0;
            ld bad = 0;
            for (int l : lens) {
                const arr_real y = d.process(sub(x, p, l));
                for (int i = 0; i < y.size(); ++i) {
                    const double e = (p + i < nd) ? init[p + i] : x[p + i - nd];
                    if (y[i] != e || y.size() != l) bad = 1;
                }
                o += (o.empty() ? "" : " ") + vh::hxs(y);
                p += l;
            }
            ++out.n_oracle;
            if (bad != 0) out.fail("C14:delay", "{\"op\":\"DelayReal(initial)\",\"nd\":" + std::to_string(nd) + ",\"frames\":" + vh::jints(lens) + "}");
            out.corr("dlyI " + vh::hxs(init) + " " + frames_str(x, lens), o);
        }
        vh::clear_current();
        out.stat("delay_cases");
    }
}

// =====================================================================================================
//                                           HilbertFilter
// =====================================================================================================
static std::string hf_json(int flen, double tw, double f, double A, double ph, int idx, ld err, ld bound, const std::vector<int>& lens) {
    std::ostringstream o;
    o << "{\"op\":\"HilbertFilter\",\"flen\":" << flen << ",\"tw\":" << vh::jnum(tw) << ",\"tone_freq\":" << vh::jnum(f) << ",\"amplitude\":" << vh::jnum(A)
      << ",\"phase\":" << vh::jnum(ph) << ",\"index\":" << idx << ",\"error\":" << vh::jnum((double)err) << ",\"bound\":" << vh::jnum((double)bound)
      << ",\"frames\":" << vh::jints(lens) << "}";
    return o.str();
}

static void hf_filter(int flen, double tw, int ntones, int ngrid, bool emit_design, bool emit_proc, vh::Rng& rng) {
    const int M = (flen % 2 == 0) ? flen + 1 : flen;
    const std::vector<int> none;
    vh::set_current("C14:hilbertfilter-crash", hf_json(flen, tw, 0, 0, 0, -1, 0, 0, none));
    vh::watch(60);
    arr_real h;
    try {
        HilbertFilter probe(flen, tw);
        h = probe.impz();
    } catch (const std::exception& e) {
        out.fail("C14:hilbertfilter-ctor-throws", hf_json(flen, tw, 0, 0, 0, -1, 0, 0, none));
        vh::unwatch();
        vh::clear_current();
        return;
    }
    ++out.n_oracle;
    out.stat(flen % 2 ? "hf_odd_request" : "hf_even_request");
    if (h.size() != M) { out.fail("C14:hilbertfilter-length", hf_json(flen, tw, 0, 0, 0, h.size(), 0, 0, none)); vh::unwatch(); vh::clear_current(); return; }
    if (emit_design) out.corr("hfd " + std::to_string(flen) + " " + vh::hx(tw), vh::hxs(h));
    const int D = M / 2;
    const double fmin = std::max(2 * tw, 6.0 / M), fmax = 0.5 - fmin;
    // ---- (1) long-double frequency response of the taps on a dense grid of the stated band (edges included)
    {
        ld w = 0;
        double wf = fmin;
        for (int g = 0; g <= ngrid; ++g) {
            const double f = g == ngrid ? fmax : fmin + (fmax - fmin) * (double(g) / ngrid);
            ld hr = 0, hi = 0;
            for (int k = 0; k < M; ++k) {
                const ld a = 2 * PIL * (ld)f * (k - D);   // delay removed: H(f) e^{+2 pi i f D}
                hr += (ld)h[k] * cosl(a);
                hi -= (ld)h[k] * sinl(a);
            }
            // expected -i
            const ld e = hypotl(hr, hi + 1);
            if (!(e <= w)) { w = e; wf = f; }
            ++out.n_oracle;
        }
        worst("hf_response", w / 1e-3L);
        if (!(w <= 1e-3L)) out.fail("C14:hilbertfilter-response", hf_json(flen, tw, wf, 1, 0, -1, w, 1e-3L, none));
    }
    // ---- (2) tones through process(): real part = delayed input (bit exact), imag part = tone shifted by 90 degrees
    for (int j = 0; j < ntones; ++j) {
        double f;
        if (j == 0) f = fmin;
        else if (j == 1) f = fmax;
        else if (j == 2) f = 0.25;
        else if (j % 2) f = fmin + (fmax - fmin) * rng.unit();
        else f = std::round((fmin + (fmax - fmin) * rng.unit()) * 64) / 64;   // on a coarse "bin centre" grid
        if (f < fmin) f = fmin;
        if (f > fmax) f = fmax;
        const double A = (j % 3 == 0) ? 1.0 : std::pow(10.0, rng.range(-3, 3)) * (0.5 + rng.unit());
        const double ph = 6.283185307179586 * rng.unit();
        const int L = 2 * M + rng.range(8, 200);
        arr_real x(L);
        for (int t = 0; t < L; ++t) {
            ld cyc = (ld)f * t;
            cyc -= floorl(cyc);
            x[t] = double((ld)A * cosl(2 * PIL * cyc + (ld)ph));
        }
        const auto lens = (j % 2) ? gen_cuts(rng, L, rng.range(2, 6)) : std::vector<int>{L};
        vh::set_current("C14:hilbertfilter-crash", hf_json(flen, tw, f, A, ph, -1, 0, 0, lens));
        HilbertFilter flt(flen, tw);
        arr_cmplx y(L);
        std::string o;
        int p = 0;
        bool sizes_ok = true;
        for (int l : lens) {
            const arr_cmplx yy = flt.process(sub(x, p, l));
            if (yy.size() != l) { sizes_ok = false; break; }
            for (int i = 0; i < l; ++i) y[p + i] = yy[i];
            if (emit_proc && j < 2) o += (o.empty() ? "" : " ") + vh::hxs(yy);
            p += l;
        }
        ++out.n_oracle;
        if (!sizes_ok) { out.fail("C14:hilbertfilter-size", hf_json(flen, tw, f, A, ph, -1, 0, 0, lens)); continue; }
        if (emit_proc && j < 2) out.corr("hfp " + vh::hxs(h) + " " + frames_str(x, lens), o);
        // real part: x delayed by D, exactly
        for (int t = 0; t < L; ++t) {
            const double e = t < D ? 0.0 : x[t - D];
            if (!(y[t].re == e)) { out.fail("C14:hilbertfilter-delay", hf_json(flen, tw, f, A, ph, t, fabsl((ld)y[t].re - e), 0, lens)); break; }
        }
        // imaginary part once the filter is full
        ld w = 0;
        int wi = M - 1;
        for (int t = M - 1; t < L; ++t) {
            ld cyc = (ld)f * (t - D);
            cyc -= floorl(cyc);
            const ld e = fabsl((ld)y[t].im - (ld)A * sinl(2 * PIL * cyc + (ld)ph));
            if (!(e <= w)) { w = e; wi = t; }
        }
        const ld bound = 1e-3L * A;
        worst("hf_tone", w / bound);
        out.stat("hf_tones");
        if (std::fabs(f - fmin) < 1e-12 || std::fabs(f - fmax) < 1e-12) out.stat("hf_tones_at_band_edge");
        if (!(w <= bound)) out.fail("C14:hilbertfilter-quadrature", hf_json(flen, tw, f, A, ph, wi, w, bound, lens));
    }
    vh::unwatch();
    vh::clear_current();
    out.stat("hf_filters");
}

static void run_hf(bool thorough, vh::Rng& rng) {
    const double tws[] = {0.005, 0.0075, 0.01, 0.015, 0.02, 0.03, 0.05, 0.075, 0.1};
    std::vector<int> flens;
    if (thorough) { for (int f = 31; f <= 401; ++f) flens.push_back(f); }
    else {
        const int v[] = {31, 32, 33, 40, 51, 52, 63, 64, 65, 100, 101, 127, 128, 150, 199, 200, 255, 256, 257, 300, 333, 400, 401};
        flens.assign(v, v + sizeof v / sizeof v[0]);
        flens.push_back(rng.range(34, 399));
        flens.push_back(rng.range(34, 399));
    }
    int idx = 0;
    for (int flen : flens) {
        for (int ti = 0; ti < 9; ++ti) {
            if (!thorough && (ti + idx) % 3 != 0 && ti != 0 && ti != 8) continue;
            const bool small = flen <= 65;
            hf_filter(flen, tws[ti], thorough ? 10 : 6, thorough ? 240 : 96, (idx % (thorough ? 12 : 3) == 0) && (ti % 4 == idx % 4 || ti == 0),
                      small && (ti == (idx % 9)), rng);
        }
        // a random transition width in [0.005, 0.1]
        hf_filter(flen, 0.005 + 0.095 * rng.unit(), thorough ? 8 : 4, thorough ? 240 : 96, flen % 50 == 1, false, rng);
        ++idx;
    }
    // transition widths within one ulp of the ends of the documented range (lesson 6)
    {
        const int fl[] = {31, 101, 400};
        for (int flen : fl) {
            hf_filter(flen, std::nextafter(0.1, 0.0), 4, 96, true, flen == 31, rng);
            hf_filter(flen, std::nextafter(0.005, 1.0), 4, 96, true, false, rng);
            out.stat("hf_tw_within_one_ulp_of_range_end", 2);
        }
    }
    // taps at absolute scale classes (lesson 1): c * (designed taps) is still antisymmetric with a zero centre, hence accepted, and the
    // definition (real part = delayed input, imaginary part = sum h[j] x[t-j]) is checked as it stands; inputs of every value class
    for (int j = 0; j < (thorough ? 36 : 12); ++j) {
        const double sc = SCALES[j % NSC];
        const int flen = j < 6 ? 31 + 2 * j : rng.range(31, 120);
        arr_real h;
        { HilbertFilter probe(flen, 0.05); h = probe.impz(); }
        for (int i = 0; i < h.size(); ++i) h[i] *= sc;
        const int xk = (j / 2) % NXK;
        const double xs = SCALES[(j / 3 + 1) % NSC];
        const int L = 3 * h.size() + rng.range(0, 30);
        const arr_real x = gen_real_kind(rng, L, xk, xs);
        const auto lens = gen_cuts(rng, L, rng.range(1, 4));
        const std::string js = "{\"op\":\"HilbertFilter(taps * c)\",\"flen\":" + std::to_string(flen) + ",\"tw\":0.05,\"c\":" + vh::jnum(sc) + ",\"input\":\"" + XKIND[xk] + "\",\"scale\":" +
                               vh::jnum(xk == 1 ? xs : 1.0) + ",\"frames\":" + vh::jints(lens);
        vh::set_current("C14:hilbertfilter-crash", js + "}");
        ++out.n_oracle;
        out.stat("hf_scaled_taps_cases");
        try {
            HilbertFilter flt(h);
            std::vector<arr_real> in;
            std::vector<arr_cmplx> ov;
            int p = 0;
            for (int l : lens) { in.push_back(sub(x, p, l)); ov.push_back(flt.process(in.back())); p += l; }
            const std::string d = hf_def(h, x, cat(ov));
            if (!d.empty()) out.fail("C14:hilbertfilter-scaled-taps", js + "," + d + "}");
            if (h.size() <= 45) out.corr("hfp " + vh::hxs(h) + " " + frames_str(in), outs_str(ov));
        } catch (const std::exception& e) {
            // firtype() compares taps with the ABSOLUTE tolerance 2 eps: taps that are all below it count as symmetric (type 1) and the
            // constructor refuses them ("Only firtype 3 supported").  The constructor from taps is outside the property's domain (flen, tw);
            // the refusal is recorded and tied to the model (which must refuse too) - anything else that throws is a failure.
            bool looks_symmetric = true;
            for (int i = 0; i < h.size() / 2; ++i) if (!(std::fabs(h[i] - h[h.size() - 1 - i]) < 2 * 2.220446049250313e-16)) looks_symmetric = false;
            if (looks_symmetric) {
                out.stat("hf_scaled_taps_refused_by_firtype_absolute_tolerance");
                if (h.size() <= 45) out.corr("hfp " + vh::hxs(h) + " 1 " + vh::hxs(x), "ERR");
            } else out.fail("C14:hilbertfilter-scaled-taps", js + ",\"threw\":true}");
        }
        vh::clear_current();
    }
    // the constructor from taps: accepts type-3 taps only (CORR: the model reproduces the rejection)
    for (int j = 0; j < 6; ++j) {
        // 0: random (8)   1: random (9)   2: antisymmetric, odd length, centre 0 (the accepted kind)
        // 3: antisymmetric, even length   4: symmetric, odd length   5: antisymmetric, odd length, centre 0.25
        const int nh = (j == 0 || j == 3) ? 8 : 9;
        arr_real h(nh);
        for (int i = 0; i < nh; ++i) h[i] = rng.gauss();
        if (j == 2 || j == 3 || j == 5) for (int i = 0; i < nh / 2; ++i) h[nh - 1 - i] = -h[i];
        if (j == 4) for (int i = 0; i < nh / 2; ++i) h[nh - 1 - i] = h[i];
        if (j == 2) h[nh / 2] = 0.0;
        if (j == 5) h[nh / 2] = 0.25;
        arr_real x(20);
        for (int i = 0; i < 20; ++i) x[i] = rng.gauss();
        std::string o;
        try {
            HilbertFilter flt(h);
            o = vh::hxs(flt.process(x));
            out.stat("hf_taps_ctor_accepted");
        } catch (const std::exception& e) { o = "ERR"; out.stat("hf_taps_ctor_rejected"); }
        out.corr("hfp " + vh::hxs(h) + " 1 " + vh::hxs(x), o);
    }
}

// =====================================================================================================
//                                               Tuner
// =====================================================================================================
static std::string tun_json(int fs, double f, long long total, const std::vector<int>& lens, long long k, ld err, ld bound) {
    std::ostringstream o;
    o << "{\"op\":\"Tuner\",\"fs\":" << fs << ",\"freq\":" << vh::jnum(f) << ",\"freq_bits\":\"" << vh::hx(f) << "\",\"samples\":" << total << ",\"frames\":";
    if (lens.size() <= 12) o << vh::jints(lens); else o << "\"" << lens.size() << " frames\"";
    o << ",\"index\":" << k << ",\"error\":" << vh::jnum((double)err) << ",\"bound\":" << vh::jnum((double)bound) << "}";
    return o.str();
}

static std::vector<int> tuner_frames(vh::Rng& r, int total, int fs, int mode) {
    std::vector<int> lens;
    if (mode == 0) { lens.push_back(total); return lens; }
    if (mode == 1) return gen_cuts(r, total, r.range(2, 7));
    // mode 2: frame lengths around fs and small ones, empty frames included
    int left = total;
    while (left > 0 && lens.size() < 4000) {
        const int pick = r.range(0, 7);
        int l = pick == 0 ? 0 : pick == 1 ? 1 : pick == 2 ? fs - 1 : pick == 3 ? fs : pick == 4 ? fs + 1 : pick == 5 ? r.range(1, std::max(1, fs / 3)) : r.range(1, 2 * fs);
        if (l > left) l = left;
        lens.push_back(l);
        left -= l;
    }
    if (left > 0) lens.push_back(left);
    return lens;
}

// selection of stream indices whose outputs go into a CORR line of a long stream (mirrored by the driver)
static inline bool tun_sel(long long k, long long total, int fs, int stride) {
    const long long m = k % fs;
    return k % stride == 0 || m == 0 || m == 1 || m == fs - 1 || k + 2 >= total;
}

static void tuner_case(int fs, double f, int total, int fmode, int corr_mode, vh::Rng& rng, int xk = 0, double sc = 1.0) {
    // corr_mode: 0 none, 1 explicit samples ("tunx"), 2 generated input + selected outputs ("tun")
    // xk, sc: value class of the input (XKIND; only when the samples are explicit)
    const uint64_t s = rng.next() % 1000000;
    arr_cmplx x(total);
    if (corr_mode == 2) { for (int k = 0; k < total; ++k) x[k] = cmplx_t{gen_re(k, s), gen_im(k, s)}; }
    else if (xk != 0) { x = gen_cmplx_kind(rng, total, xk, sc); out.stat(std::string("tuner_input_") + XKIND[xk]); }
    else { for (int k = 0; k < total; ++k) x[k] = cmplx_t{rng.gauss(), rng.gauss()}; }
    const auto lens = tuner_frames(rng, total, fs, fmode);
    vh::set_current("C14:tuner-crash", tun_json(fs, f, total, lens, -1, 0, 0));
    vh::watch(120);
    const bool integral = f == std::floor(f);
    out.stat(integral ? "tuner_integer_f" : "tuner_fractional_f");
    std::string lens_s = std::to_string(lens.size());
    for (int l : lens) lens_s += " " + std::to_string(l);
    arr_cmplx y(total);
    bool threw = false;
    try {
        Tuner tn(fs, f);
        int p = 0;
        for (int l : lens) {
            const arr_cmplx yy = tn.process(sub(x, p, l));
            if (yy.size() != l) { out.fail("C14:tuner-size", tun_json(fs, f, total, lens, p, 0, 0)); vh::unwatch(); vh::clear_current(); return; }
            for (int i = 0; i < l; ++i) y[p + i] = yy[i];
            p += l;
        }
    } catch (const std::exception& e) { threw = true; }
    vh::unwatch();
    vh::clear_current();
    if (threw) {
        // the constructor rejects |f| > fs / 2 (integer division): not an admissible f; the model must reject it too
        out.stat("tuner_rejected_by_constructor");
        // admissible = |f| <= fs/2 as real numbers (the header: "freq - tune freq in range (-sample_rate/2 : sample_rate/2)", the property:
        // f in [-fs/2, fs/2]); an integer-division guard `_fs / 2` rejected floor(fs/2) < |f| <= fs/2 for odd fs (repaired in /repo bd73cae)
        if (std::fabs(f) <= fs / 2.0) {
            out.stat("tuner_rejected_inside_half_band");
            out.fail("C14:tuner-rejects-admissible-f", tun_json(fs, f, total, lens, -1, 0, 0));
        }
        if (corr_mode == 1) out.corr("tunx " + std::to_string(fs) + " " + vh::hx(f) + " " + frames_str(x, lens), "ERR");
        else if (corr_mode == 2) out.corr("tun " + std::to_string(fs) + " " + vh::hx(f) + " " + std::to_string(s) + " 1 " + lens_s, "ERR");
        return;
    }
    // ---- oracle: every sample against the definition
    ld w = 0;
    long long wk = 0;
    ld wb = 0;
    for (int k = 0; k < total; ++k) {
        ld cyc = (ld)f * (ld)k / (ld)fs;
        const ld phase_abs = 2 * PIL * fabsl(cyc);
        cyc -= floorl(cyc);
        const ld c = cosl(2 * PIL * cyc), sn = sinl(2 * PIL * cyc);
        const ld er = (ld)x[k].re * c - (ld)x[k].im * sn, ei = (ld)x[k].re * sn + (ld)x[k].im * c;
        const ld mag = hypotl((ld)x[k].re, (ld)x[k].im);
        const ld bound = mag * (1e-9L + 4 * EPS * phase_abs) + (xk == 3 ? 4 * DENORM : 0);   // denormal inputs: the products round at the denormal spacing
        const ld e = hypotl((ld)y[k].re - er, (ld)y[k].im - ei);
        if (mag > 0) { const ld ratio = e / bound; if (!(ratio <= w)) { w = ratio; wk = k; wb = bound; } }
        else if (!(e == 0)) { w = 2; wk = k; wb = 0; }
    }
    out.n_oracle += total;
    worst(integral ? "tuner_integer_f" : "tuner_fractional_f", w);
    maxstat("tuner_longest_stream_in_units_of_fs_x100", (long long)(100.0 * total / fs));
    if (!(w <= 1)) out.fail("C14:tuner", tun_json(fs, f, total, lens, wk, w * wb, wb));
    // ---- framing: a second object fed in one call must give the same bits
    if (lens.size() > 1) {
        Tuner t2(fs, f);
        const arr_cmplx y1 = t2.process(x);
        ++out.n_oracle;
        out.stat("tuner_framed_runs");
        for (int k = 0; k < total; ++k)
            if (std::memcmp(&y1[k], &y[k], sizeof(cmplx_t)) != 0) { out.fail("C14:tuner-framing", tun_json(fs, f, total, lens, k, 0, 0)); break; }
    }
    // ---- CORR
    if (corr_mode == 1) {
        std::string o;
        int p = 0;
        for (int l : lens) { o += (o.empty() ? "" : " ") + vh::hxs(sub(y, p, l)); p += l; }
        out.corr("tunx " + std::to_string(fs) + " " + vh::hx(f) + " " + frames_str(x, lens), o);
    } else if (corr_mode == 2) {
        const int stride = total <= 2048 ? 1 : std::max(1, total / 1500);
        std::string o;
        long long cnt = 0;
        for (int k = 0; k < total; ++k) if (tun_sel(k, total, fs, stride)) { o += " " + vh::hx(y[k].re) + " " + vh::hx(y[k].im); ++cnt; }
        out.corr("tun " + std::to_string(fs) + " " + vh::hx(f) + " " + std::to_string(s) + " " + std::to_string(stride) + " " + lens_s, std::to_string(cnt) + o);
    }
}

static void run_tuner(bool thorough, vh::Rng& rng) {
    std::vector<int> rates = {8, 9, 10, 11, 16, 25, 64, 100, 1000, 8000, 44100, 99999, 100000};
    const int nrand = thorough ? 110 : 12;
    for (int j = 0; j < nrand; ++j) rates.push_back(j % 3 == 0 ? rng.range(8, 200) : j % 3 == 1 ? rng.range(201, 20000) : rng.range(20001, 100000));
    long long big_budget = thorough ? 60 : 10;   // number of long CORR cases
    int idx = 0;
    for (int fs : rates) {
        const int half = fs / 2;
        std::vector<double> fr;
        // integer f
        fr.push_back(0.0);
        fr.push_back(1.0);
        fr.push_back(-1.0);
        fr.push_back(double(half));
        fr.push_back(-double(half));
        fr.push_back(double(rng.range(-half, half)));
        fr.push_back(double(rng.range(2, std::max(2, half))));
        // fractional f
        fr.push_back(0.5);
        fr.push_back(-0.5);
        fr.push_back(0.25);
        fr.push_back(half - 0.5);
        fr.push_back(-(half - 0.5));
        fr.push_back(1.0 / 3.0);
        fr.push_back(std::nextafter(1.0, 2.0));          // just not an integer
        fr.push_back(std::nextafter(double(half), 0.0)); // just below the largest admissible value
        fr.push_back(half * rng.sym());
        fr.push_back(half * rng.sym());
        fr.push_back(rng.sym());
        if (thorough) for (int j = 0; j < 6; ++j) fr.push_back(j % 2 ? half * rng.sym() : double(rng.range(-half, half)) + 0.5 * rng.coin());
        // extreme but admissible (lesson 6): in (0, eps), denormal, negative zero; within one ulp of the boundary on both sides
        if (idx % 2 == 0 || thorough) {
            fr.push_back(4.9406564584124654e-324);
            fr.push_back(-1e-300);
            fr.push_back(1e-17);
            fr.push_back(-2.220446049250313e-16);
            fr.push_back(-0.0);
            fr.push_back(-std::nextafter(fs / 2.0, 0.0));
            fr.push_back(std::nextafter(fs / 2.0, 1e9));    // rejected
            fr.push_back(-std::nextafter(fs / 2.0, 1e9));   // rejected
        }
        // boundary of admissibility: fs/2 as a real number for odd fs, and beyond
        fr.push_back(fs / 2.0);
        fr.push_back(-(fs / 2.0));
        fr.push_back(half + 1.0);
        fr.push_back(-(half + 0.75));
        int fi = 0;
        for (double f : fr) {
            // streams longer than several multiples of fs (3..6 fs, + a ragged tail), capped for the largest rates
            const int mult = fs <= 20000 ? rng.range(3, 6) : 3;
            const int total = mult * fs + rng.range(1, std::max(2, fs / 2));
            const int fmode = (fi + idx) % 3;
            int corr_mode = 0;
            if (total <= 700 && (fi % 2 == 0 || !thorough)) corr_mode = 1;
            else if (total <= 700) corr_mode = 2;
            else if (big_budget > 0 && ((fi + idx) % (thorough ? 5 : 9) == 0)) { corr_mode = 2; --big_budget; }
            else if (std::fabs(f) > half) corr_mode = 2;   // rejected by the constructor: cheap
            // input value classes (lesson 1): every third case of explicit samples at a scale class / with zero runs and -0 / denormals / powers of two
            const int xk = (corr_mode != 2 && (fi + 2 * idx) % 3 == 0) ? 1 + (fi + idx) % (NXK - 1) : 0;
            tuner_case(fs, f, total, fmode, corr_mode, rng, xk, SCALES[(fi + idx) % NSC]);
            ++fi;
        }
        out.stat("tuner_rates");
        ++idx;
    }
}

// =====================================================================================================
//        Tuner at the integer / non-integer DECISION of the constructor (lesson 6: a boundary of the parameter space)
// =====================================================================================================
// f = k + d, k an integer number of cycles per fs samples, d a tiny offset: the phase counter may restart every fs samples for d == 0 ONLY.  Any
// other d, however small, is a different frequency: restarting lags exp(2 pi i f k/fs) by 2 pi d per elapsed fs samples, so the streams run for many
// multiples of fs (and for small fs long enough that 2 pi |d| * periods exceeds the tolerance by a wide margin whenever that is affordable); every
// sample is compared with the definition, the cycle count f k / fs being reduced mod 1 exactly (cycles_exact).
static const int NNI = 16;
static const double NI_OFF[NNI] = {0, 0, 1e-12, -1e-12, 1e-9, -1e-9, 1e-7, -1e-7, 5e-7, -5e-7, 1e-6, -1e-6, 1e-5, -1e-5, 1e-3, -1e-3};
static const char* NI_LAB[NNI] = {"plus_1ulp", "minus_1ulp", "plus_1e-12", "minus_1e-12", "plus_1e-9", "minus_1e-9", "plus_1e-7", "minus_1e-7",
                                  "plus_5e-7", "minus_5e-7", "plus_1e-6", "minus_1e-6", "plus_1e-5", "minus_1e-5", "plus_1e-3", "minus_1e-3"};

static std::string ni_json(int fs, int k, int di, double f, long long total, const std::vector<int>& lens, const char* input, long long idx, ld err, ld bound) {
    std::ostringstream o;
    o << "{\"op\":\"Tuner, f next to an integer\",\"fs\":" << fs << ",\"nearest_integer\":" << k << ",\"offset_class\":\"" << NI_LAB[di] << "\",\"offset\":" << vh::jnum(f - double(k))
      << ",\"freq\":" << jval(f) << ",\"samples\":" << total << ",\"stream_in_units_of_fs\":" << vh::jnum(double(total) / fs) << ",\"input\":\"" << input << "\",\"frames\":";
    if (lens.size() <= 12) o << vh::jints(lens); else o << "\"" << lens.size() << " frames\"";
    o << ",\"index\":" << idx << ",\"periods_elapsed\":" << (idx >= 0 ? idx / fs : -1) << ",\"error\":" << vh::jnum((double)err) << ",\"bound\":" << vh::jnum((double)bound) << "}";
    return o.str();
}

static void near_integer_case(int fs, int k, int di, int periods, int fmode, bool corr, int xk, double sc, vh::Rng& rng) {
    const double f = di == 0 ? std::nextafter(double(k), 1e300) : di == 1 ? std::nextafter(double(k), -1e300) : double(k) + NI_OFF[di];
    const int total = periods * fs + rng.range(1, std::max(2, fs / 2));
    const uint64_t s = rng.next() % 1000000;
    arr_cmplx x(total);
    const char* input = corr ? "generated" : XKIND[xk];
    if (corr) { for (int i = 0; i < total; ++i) x[i] = cmplx_t{gen_re(i, s), gen_im(i, s)}; }
    else x = gen_cmplx_kind(rng, total, xk, sc);
    const auto lens = tuner_frames(rng, total, fs, fmode);
    vh::set_current("C14:tuner-crash", ni_json(fs, k, di, f, total, lens, input, -1, 0, 0));
    vh::watch(300);
    arr_cmplx y(total);
    bool threw = false, size_bad = false;
    try {
        Tuner tn(fs, f);
        int p = 0;
        for (int l : lens) {
            const arr_cmplx yy = tn.process(sub(x, p, l));
            if (yy.size() != l) { size_bad = true; break; }
            for (int i = 0; i < l; ++i) y[p + i] = yy[i];
            p += l;
        }
    } catch (const std::exception&) { threw = true; }
    vh::unwatch();
    vh::clear_current();
    ++out.n_oracle;
    out.stat("tuner_near_integer_cases");
    out.stat(std::string("tuner_near_integer_offset_") + NI_LAB[di]);
    out.stat("tuner_near_integer_fs_" + std::to_string(fs));
    out.stat(k == 0 ? "tuner_near_integer_k_zero" : std::abs(k) == fs / 2 ? "tuner_near_integer_k_at_band_edge" : k > 0 ? "tuner_near_integer_k_positive" : "tuner_near_integer_k_negative");
    maxstat("tuner_near_integer_longest_stream_in_units_of_fs", total / fs);
    if (threw) { out.fail("C14:tuner-rejects-admissible-f", ni_json(fs, k, di, f, total, lens, input, -1, 0, 0)); return; }   // every f of this class is inside the band
    if (size_bad) { out.fail("C14:tuner-size", ni_json(fs, k, di, f, total, lens, input, -1, 0, 0)); return; }
    // ---- every sample against the definition
    long long wk;
    ld wb;
    const ld w = tuner_worst(fs, f, 0, x, y, wk, wb);
    out.n_oracle += total;
    worst("tuner_near_integer_f", w);
    // what a restart of the counter every fs samples would have cost at the end of this stream, in units of the bound there (evidence that the
    // class can see the defect: >> 1 for every offset down to 1e-9, and for 1e-12 at the small rates)
    {
        const ld drift = 2 * PIL * fabsl((ld)f - (ld)k) * (ld)(total / fs);
        const ld b = 1e-9L + 4 * EPS * 2 * PIL * fabsl((ld)f) * (ld)total / (ld)fs;
        if (drift / b > 4) out.stat(std::string("tuner_near_integer_restart_would_exceed_bound_4x_") + NI_LAB[di]);
        maxstat(std::string("tuner_near_integer_restart_drift_over_bound_x1000_") + NI_LAB[di], (long long)std::min((ld)1e15, 1000 * drift / b));
    }
    if (!(w <= 1)) out.fail("C14:tuner-near-integer-f", ni_json(fs, k, di, f, total, lens, input, wk, w * wb, wb));
    // ---- framing: a second object fed in one call must give the same bits
    if (lens.size() > 1) {
        Tuner t2(fs, f);
        const arr_cmplx y1 = t2.process(x);
        ++out.n_oracle;
        for (int i = 0; i < total; ++i)
            if (!same_bits(y1[i], y[i])) { out.fail("C14:tuner-framing", ni_json(fs, k, di, f, total, lens, input, i, 0, 0)); break; }
    }
    // ---- CORR (generated input, selected outputs: every period start / end + a stride)
    if (corr) {
        const int stride = total <= 2048 ? 1 : std::max(1, total / 1500);
        std::string o;
        long long cnt = 0;
        for (int i = 0; i < total; ++i) if (tun_sel(i, total, fs, stride)) { o += " " + vh::hx(y[i].re) + " " + vh::hx(y[i].im); ++cnt; }
        std::string lens_s = std::to_string(lens.size());
        for (int l : lens) lens_s += " " + std::to_string(l);
        out.corr("tun " + std::to_string(fs) + " " + vh::hx(f) + " " + std::to_string(s) + " " + std::to_string(stride) + " " + lens_s, std::to_string(cnt) + o);
        out.stat("tuner_near_integer_corr_cases");
    }
}

static void run_near_integer(bool thorough, vh::Rng& rng) {
    std::vector<int> rates = {8, 100, 1000, 8000};
    if (thorough) { rates.push_back(9); rates.push_back(4099); rates.push_back(rng.range(10, 3000)); }
    long long corr_budget = thorough ? 90 : 18;
    int c = int(g_seed);
    for (int fs : rates) {
        const int h = fs / 2, q = fs / 4;
        std::vector<int> ks;
        {
            const int cand[] = {0, 1, -1, 7, -7, h - 1, -(h - 1), q, -q, h, -h, rng.range(2, std::max(2, h - 1)), -rng.range(2, std::max(2, h - 1))};
            for (int k : cand) if (std::abs(k) <= h && std::find(ks.begin(), ks.end(), k) == ks.end()) ks.push_back(k);
        }
        // quick: a rotating subset (every offset class and every k is hit at every seed for the small rates), thorough: the full grid
        const int mod = thorough ? 1 : fs <= 100 ? 3 : fs <= 1000 ? 5 : 17;
        for (size_t ki = 0; ki < ks.size(); ++ki)
            for (int di = 0; di < NNI; ++di, ++c) {
                const int k = ks[ki];
                const double f = di == 0 ? std::nextafter(double(k), 1e300) : di == 1 ? std::nextafter(double(k), -1e300) : double(k) + NI_OFF[di];
                if (!(std::fabs(f) <= fs / 2.0)) continue;      // outside the band (k at the band edge, offset outwards): rejected, covered by run_tuner
                if ((int(ki) * NNI + di + int(g_seed)) % mod != 0) continue;
                // 3 .. 50 multiples of fs; for the smallest offsets as many periods as make a restart visible (2 pi |d| periods >= 5e-8), within a sample budget
                int periods = fs >= 8000 && !thorough ? rng.range(3, 12) : rng.range(3, 50);
                const double d = std::fabs(f - double(k));
                if (di >= 2 && d < 1e-8 && fs <= 1000) {   // (one ulp of k is below the rounding of the phase itself: no stream length makes it visible to the ORACLE; CORR ties it)
                    const double need = std::ceil(5e-8 / (6.283185307179586 * d));
                    const long long cap = (thorough ? 1000000LL : 200000LL) / fs;
                    periods = int(std::max<double>(periods, std::min<double>(double(cap), need)));
                }
                const long long total = (long long)periods * fs;
                bool corr = false;
                if (corr_budget > 0 && total <= (thorough ? 120000 : 30000) && c % (thorough ? 5 : 4) == 0) { corr = true; --corr_budget; }
                const int xk = (c % 2) ? (c / 2) % NXK : 0;
                near_integer_case(fs, k, di, periods, c % 3, corr, xk, SCALES[c % NSC], rng);
            }
    }
}

// =====================================================================================================
//        object lifetime: copies of stateful processors are independent objects carrying the copied state (lesson 2)
// =====================================================================================================
template<class P, class T, class U>
struct Life {
    typedef base_array<T> AI;
    typedef base_array<U> AO;
    std::string key, op, js;
    std::function<P()> make, make_other;
    std::function<AI(vh::Rng&, int)> gen;
    // the definition on one object's whole history: "" when it holds, else a json fragment describing the first violation
    std::function<std::string(const AI&, const AO&)> defcheck;
    std::function<void(const std::vector<AI>&, const std::vector<AO>&)> emit;
};

static const char* LMODE[] = {"copy-constructed", "copy-assigned over a live object of other parameters", "elements 0 and 2 of std::vector<P>(3, obj)",
                              "captured by value in a lambda (std::function)", "copy of a copy whose intermediate is destroyed",
                              "a first copy is used and destroyed, then copy-constructed", "after self-assignment of the source, copy-constructed",
                              "copied, then the copy move-constructed", "the source is assigned from its own copy; both continue"};
static const int NLMODE = 9;

template<class P, class T, class U>
static void life_case(const Life<P, T, U>& L, vh::Rng& r, int mode, bool mid, bool with_fail, int maxlen, bool emit) {
    typedef base_array<T> AI;
    typedef base_array<U> AO;
    struct Line {
        std::string who;
        std::function<AO(const AI&)> proc;
        std::vector<AI> in;
        std::vector<AO> outv;
    };
    const std::string head = "{\"op\":\"" + L.op + "\"," + L.js + ",\"copy\":\"" + LMODE[mode] + "\",\"copied\":\"" + (mid ? "mid-stream" : "fresh prototype") +
                             "\",\"failed_calls_interleaved\":" + (with_fail ? "true" : "false");
    vh::set_current(L.key, head + "}");
    vh::watch(120);
    P a = L.make();
    std::vector<Line> lines;
    lines.push_back(Line{"the source object (copies of it are alive)", [&a](const AI& x) { return a.process(x); }, {}, {}});
    auto flen = [&]() { const int p = r.range(0, 9); return p == 0 ? 0 : p == 1 ? 1 : r.range(1, maxlen); };
    auto feed = [&](Line& ln, int n) {
        AI x = L.gen(r, n);
        AO y = ln.proc(x);
        ln.in.push_back(x);
        ln.outv.push_back(y);
    };
    if (mid) {
        const int np = r.range(1, 3);
        for (int i = 0; i < np; ++i) feed(lines[0], flen());
        feed(lines[0], r.range(1, maxlen));
    }
    const size_t nprefix = lines[0].in.size();
    if (with_fail) provoke_failures(r);
    // ---- the copies (all stay alive until the end of the case)
    std::vector<std::unique_ptr<P>> keep;
    std::vector<P> vec;
    auto add_ptr = [&](P* p, const std::string& who) {
        lines.push_back(Line{who, [p](const AI& x) { return p->process(x); }, lines[0].in, lines[0].outv});
    };
    switch (mode) {
    case 0: keep.push_back(std::make_unique<P>(a)); add_ptr(keep.back().get(), "the copy"); break;
    case 1: {
        keep.push_back(std::make_unique<P>(L.make_other()));
        (void)keep.back()->process(L.gen(r, r.range(1, maxlen)));
        *keep.back() = a;
        add_ptr(keep.back().get(), "the copy");
        break;
    }
    case 2: {
        vec = std::vector<P>(3, a);
        add_ptr(&vec[0], "element 0");
        add_ptr(&vec[2], "element 2");
        break;
    }
    case 3: {
        std::function<AO(const AI&)> fn = [cap = a](const AI& x) mutable { return cap.process(x); };
        lines.push_back(Line{"the captured copy", fn, lines[0].in, lines[0].outv});
        break;
    }
    case 4: {
        auto t = std::make_unique<P>(a);
        keep.push_back(std::make_unique<P>(*t));
        t.reset();
        add_ptr(keep.back().get(), "the copy of the copy");
        break;
    }
    case 5: {
        { P t(a); (void)t.process(L.gen(r, r.range(1, maxlen))); }
        keep.push_back(std::make_unique<P>(a));
        add_ptr(keep.back().get(), "the second copy");
        break;
    }
    case 6: {
        P* volatile pa = &a;
        a = *pa;
        keep.push_back(std::make_unique<P>(a));
        add_ptr(keep.back().get(), "the copy");
        break;
    }
    case 7: {
        P t(a);
        keep.push_back(std::make_unique<P>(std::move(t)));
        add_ptr(keep.back().get(), "the moved copy");
        break;
    }
    default: {
        keep.push_back(std::make_unique<P>(a));
        a = *keep.back();
        add_ptr(keep.back().get(), "the copy");
        break;
    }
    }
    // ---- source and copies continue INTERLEAVED, each with data of its own
    const int nround = r.range(2, 4);
    for (int rd = 0; rd < nround; ++rd) {
        std::vector<int> order;
        for (size_t i = 0; i < lines.size(); ++i) order.push_back(int(i));
        for (size_t i = order.size(); i > 1; --i) std::swap(order[i - 1], order[r.range(0, int(i) - 1)]);
        for (int li : order) feed(lines[li], rd + 1 == nround ? r.range(1, maxlen) : flen());
        if (with_fail && rd == 0) provoke_failures(r);
    }
    vh::unwatch();
    vh::clear_current();
    out.stat("life_cases_" + L.op);
    out.stat(std::string("life_mode_") + std::to_string(mode));
    out.stat(mid ? "life_copied_mid_stream" : "life_copied_fresh");
    // ---- every object against a separately constructed one that never had a copy, and against the definition
    for (auto& ln : lines) {
        ++out.n_oracle;
        const std::string tail = ",\"object\":\"" + ln.who + "\",\"prefix_frames_before_the_copy\":" + std::to_string(nprefix) + ",\"frames\":" + vh::jints(lens_of(ln.in));
        P ref = L.make();
        bool bad = false;
        for (size_t fi = 0; fi < ln.in.size() && !bad; ++fi) {
            const AO e = ref.process(ln.in[fi]);
            const AO& g = ln.outv[fi];
            if (g.size() != e.size()) {
                out.fail(L.key, head + tail + ",\"frame\":" + std::to_string(fi) + ",\"size\":" + std::to_string(g.size()) + ",\"expected_size\":" + std::to_string(e.size()) + "}");
                bad = true;
                break;
            }
            for (int i = 0; i < e.size(); ++i)
                if (!same_bits(g[i], e[i])) {
                    out.fail(L.key, head + tail + ",\"frame\":" + std::to_string(fi) + ",\"index\":" + std::to_string(i) + ",\"got\":" + jval(g[i]) +
                                        ",\"separately_constructed_object_gives\":" + jval(e[i]) + "}");
                    bad = true;
                    break;
                }
        }
        if (!bad) {
            const std::string d = L.defcheck(cat(ln.in), cat(ln.outv));
            if (!d.empty()) out.fail(L.key, head + tail + "," + d + "}");
        }
        if (emit && L.emit) L.emit(ln.in, ln.outv);
    }
}

static void run_life(bool thorough, vh::Rng& rng) {
    const int nrep = thorough ? 8 : 2;
    int c = int(g_seed);
    for (int rep = 0; rep < nrep; ++rep)
        for (int mode = 0; mode < NLMODE; ++mode)
            for (int mid = 1; mid >= 0; --mid, ++c) {
                const bool with_fail = (c % 3 == 0);
                const int xk = (c % 2) ? c % NXK : 0;
                const double sc = SCALES[(c / 2) % NSC];
                // ---------------- HilbertFilter
                {
                    const int flens[] = {31, 32, 37, 64, 101, 200, 401};
                    const int flen = rep == 0 ? flens[(c + mode) % 7] : rng.range(31, 401);
                    const double tws[] = {0.01, 0.05, 0.1, 0.005};
                    const double tw = tws[c % 4];
                    arr_real h;
                    { HilbertFilter probe(flen, tw); h = probe.impz(); }
                    const bool from_taps = (c % 4 == 1);
                    Life<HilbertFilter, real_t, cmplx_t> L;
                    L.key = "C14:hilbertfilter-copy";
                    L.op = "HilbertFilter";
                    L.js = "\"flen\":" + std::to_string(flen) + ",\"tw\":" + vh::jnum(tw) + ",\"constructed_from\":\"" + (from_taps ? "taps" : "flen, tw") + "\",\"input\":\"" + XKIND[xk] +
                           "\",\"scale\":" + vh::jnum(xk == 1 ? sc : 1.0);
                    L.make = [=]() { return from_taps ? HilbertFilter(h) : HilbertFilter(flen, tw); };
                    L.make_other = [=]() { return HilbertFilter(flen + 10, 0.02); };
                    L.gen = [=](vh::Rng& r, int n) { return gen_real_kind(r, n, xk, sc); };
                    L.defcheck = [=](const arr_real& x, const arr_cmplx& y) { return hf_def(h, x, y); };
                    L.emit = [=](const std::vector<arr_real>& in, const std::vector<arr_cmplx>& ov) { out.corr("hfp " + vh::hxs(h) + " " + frames_str(in), outs_str(ov)); };
                    life_case(L, rng, mode, mid, with_fail, h.size() + 40, h.size() <= 65 && (thorough ? rep < 2 : true));
                }
                // ---------------- Tuner
                {
                    const int rates[] = {8, 9, 64, 100, 1000, 4099};
                    const int fs = rates[(c + rep) % 6];
                    const int half = fs / 2;
                    double f;
                    switch (c % 5) {
                    case 0: f = double(rng.range(-half, half)); break;
                    case 1: f = half * rng.sym(); break;
                    case 2: f = 1.0 / 3.0; break;
                    case 3: f = -(half - 0.5); break;
                    default: f = fs / 2.0; break;
                    }
                    Life<Tuner, cmplx_t, cmplx_t> L;
                    L.key = "C14:tuner-copy";
                    L.op = "Tuner";
                    L.js = "\"fs\":" + std::to_string(fs) + ",\"freq\":" + vh::jnum(f) + ",\"freq_bits\":\"" + vh::hx(f) + "\",\"input\":\"" + XKIND[xk] + "\",\"scale\":" + vh::jnum(xk == 1 ? sc : 1.0);
                    L.make = [=]() { return Tuner(fs, f); };
                    L.make_other = [=]() { return Tuner(fs + 3, 0.75); };
                    L.gen = [=](vh::Rng& r, int n) { return gen_cmplx_kind(r, n, xk, sc); };
                    L.defcheck = [=](const arr_cmplx& x, const arr_cmplx& y) -> std::string {
                        if (y.size() != x.size()) return "\"size\":" + std::to_string(y.size());
                        long long wk;
                        ld wb;
                        const ld w = tuner_worst(fs, f, 0, x, y, wk, wb);
                        worst("tuner_copies", w);
                        if (!(w <= 1)) return "\"index\":" + std::to_string(wk) + ",\"error\":" + vh::jnum((double)(w * wb)) + ",\"bound\":" + vh::jnum((double)wb);
                        return "";
                    };
                    L.emit = [=](const std::vector<arr_cmplx>& in, const std::vector<arr_cmplx>& ov) {
                        out.corr("tunx " + std::to_string(fs) + " " + vh::hx(f) + " " + frames_str(in), outs_str(ov));
                    };
                    const int maxlen = fs <= 100 ? 2 * fs + 3 : fs / 2 + 7;
                    life_case(L, rng, mode, mid, with_fail, maxlen, fs <= 100 && (thorough ? rep < 2 : true));
                }
                // ---------------- Delay (real: zero-filled / initial contents; complex)
                {
                    const int nd = (c % 4 == 0) ? 1 + c % 3 : rng.range(1, 120);
                    const bool with_init = (c % 2 == 1);
                    arr_real ini = gen_real_kind(rng, nd, xk, sc);
                    Life<DelayReal, real_t, real_t> L;
                    L.key = "C14:delay-copy";
                    L.op = "DelayReal";
                    L.js = "\"nd\":" + std::to_string(nd) + ",\"initial_contents\":" + (with_init ? "true" : "false") + ",\"input\":\"" + XKIND[xk] + "\",\"scale\":" + vh::jnum(xk == 1 ? sc : 1.0);
                    L.make = [=]() { return with_init ? DelayReal(ini) : DelayReal(nd); };
                    L.make_other = [=]() { return DelayReal(nd + 5); };
                    L.gen = [=](vh::Rng& r, int n) { return gen_real_kind(r, n, xk, sc); };
                    L.defcheck = [=](const arr_real& x, const arr_real& y) -> std::string {
                        if (y.size() != x.size()) return "\"size\":" + std::to_string(y.size());
                        for (int t = 0; t < x.size(); ++t) {
                            const double e = t < nd ? (with_init ? ini[t] : 0.0) : x[t - nd];
                            if (!same_bits(y[t], e)) return "\"index\":" + std::to_string(t) + ",\"got\":" + jval(y[t]) + ",\"expected\":" + jval(e);
                        }
                        return "";
                    };
                    L.emit = [=](const std::vector<arr_real>& in, const std::vector<arr_real>& ov) {
                        if (with_init) out.corr("dlyI " + vh::hxs(ini) + " " + frames_str(in), outs_str(ov));
                        else out.corr("dlyR " + std::to_string(nd) + " " + frames_str(in), outs_str(ov));
                    };
                    life_case(L, rng, mode, mid, with_fail, 2 * nd + 20, nd <= 40 && (thorough ? rep < 2 : true));
                }
                {
                    const int nd = (c % 4 == 1) ? 1 + c % 3 : rng.range(1, 120);
                    const bool with_init = (c % 2 == 0);
                    arr_cmplx ini = gen_cmplx_kind(rng, nd, xk, sc);
                    Life<DelayCmplx, cmplx_t, cmplx_t> L;
                    L.key = "C14:delay-copy";
                    L.op = "DelayCmplx";
                    L.js = "\"nd\":" + std::to_string(nd) + ",\"initial_contents\":" + (with_init ? "true" : "false") + ",\"input\":\"" + XKIND[xk] + "\",\"scale\":" + vh::jnum(xk == 1 ? sc : 1.0);
                    L.make = [=]() { return with_init ? DelayCmplx(ini) : DelayCmplx(nd); };
                    L.make_other = [=]() { return DelayCmplx(nd + 5); };
                    L.gen = [=](vh::Rng& r, int n) { return gen_cmplx_kind(r, n, xk, sc); };
                    L.defcheck = [=](const arr_cmplx& x, const arr_cmplx& y) -> std::string {
                        if (y.size() != x.size()) return "\"size\":" + std::to_string(y.size());
                        for (int t = 0; t < x.size(); ++t) {
                            const cmplx_t e = t < nd ? (with_init ? ini[t] : cmplx_t{0, 0}) : x[t - nd];
                            if (!same_bits(y[t], e)) return "\"index\":" + std::to_string(t) + ",\"got\":" + jval(y[t]) + ",\"expected\":" + jval(e);
                        }
                        return "";
                    };
                    L.emit = [=](const std::vector<arr_cmplx>& in, const std::vector<arr_cmplx>& ov) {
                        if (with_init) out.corr("dlyJ " + vh::hxs(ini) + " " + frames_str(in), outs_str(ov));
                        else out.corr("dlyC " + std::to_string(nd) + " " + frames_str(in), outs_str(ov));
                    };
                    life_case(L, rng, mode, mid, with_fail, 2 * nd + 20, nd <= 40 && (thorough ? rep < 2 : true));
                }
            }
}

// ---- results of expressions built from TEMPORARIES (rvalue operands, temporary processors, results bound to const& / iterated by range-for)
//      equal the results from named operands bit for bit
static void run_temporaries(bool thorough, vh::Rng& rng) {
    const int ncase = thorough ? 40 : 8;
    for (int j = 0; j < ncase; ++j) {
        const int xk = j % NXK;
        const double sc = SCALES[j % NSC];
        const int n1 = rng.range(3, 90), n2 = rng.range(1, 90);
        const arr_real a = gen_real_kind(rng, n1, xk, sc), b = gen_real_kind(rng, n2, xk, sc), a2 = gen_real_kind(rng, n1, xk, sc);
        const arr_cmplx ca = gen_cmplx_kind(rng, n1, xk, sc), cb = gen_cmplx_kind(rng, n2, xk, sc);
        const std::string js = "\"input\":\"" + std::string(XKIND[xk]) + "\",\"scale\":" + vh::jnum(xk == 1 ? sc : 1.0) + ",\"n1\":" + std::to_string(n1) + ",\"n2\":" + std::to_string(n2);
        vh::set_current("C14:temporaries", "{" + js + "}");
        auto cmp = [&](const char* expr, const arr_cmplx& g, const arr_cmplx& e) {
            ++out.n_oracle;
            out.stat("temporaries_expressions");
            bool ok = g.size() == e.size();
            int bi = -1;
            for (int i = 0; ok && i < e.size(); ++i) if (!same_bits(g[i], e[i])) { ok = false; bi = i; }
            if (!ok) out.fail("C14:temporaries", std::string("{\"expression\":\"") + expr + "\"," + js + ",\"index\":" + std::to_string(bi) +
                                                     (bi >= 0 ? ",\"got\":" + jval(g[bi]) + ",\"named_operands_give\":" + jval(e[bi]) : std::string()) + "}");
        };
        auto cmpr = [&](const char* expr, const arr_real& g, const arr_real& e) {
            arr_cmplx gg(g.size()), ee(e.size());
            for (int i = 0; i < g.size(); ++i) gg[i] = cmplx_t{g[i], 0};
            for (int i = 0; i < e.size(); ++i) ee[i] = cmplx_t{e[i], 0};
            cmp(expr, gg, ee);
        };
        const int fs = rng.range(8, 200);
        const double f = (j % 2) ? double(rng.range(-fs / 2, fs / 2)) : (fs / 2) * rng.sym();
        const int flen = rng.range(31, 80);
        {   // Tuner
            const arr_cmplx cat2 = ca | cb;
            Tuner named(fs, f);
            const arr_cmplx e = named.process(cat2);
            const arr_cmplx& g = Tuner(fs, f).process(ca | cb);
            cmp("const arr_cmplx& g = Tuner(fs, f).process(ca | cb)", g, e);
            Tuner t2(fs, f);
            arr_cmplx acc(0);
            for (const cmplx_t& v : t2(ca | cb)) acc = acc | arr_cmplx{v};
            cmp("for (const cmplx_t& v : tuner(ca | cb))", acc, e);
            Tuner t3(fs, f);
            const arr_cmplx e1 = named.process(cat2 * 2.0);   // `named` continues after the first call
            (void)t3.process(ca | cb);
            cmp("tuner.process((ca | cb) * 2.0) as a second call", t3.process((ca | cb) * 2.0), e1);
        }
        {   // HilbertFilter
            const arr_real s = a + a2;
            HilbertFilter named(flen, 0.05);
            const arr_cmplx e = named.process(s);
            const arr_cmplx& g = HilbertFilter(flen, 0.05).process(a + a2);
            cmp("const arr_cmplx& g = HilbertFilter(flen, tw).process(a + a2)", g, e);
            const arr_real nb = -b;
            const arr_cmplx e2 = named.process(nb | a);
            HilbertFilter h2(flen, 0.05);
            (void)h2(a + a2);
            cmp("flt(-b | a) as a second call", h2(-b | a), e2);
        }
        {   // hilbert
            const arr_real s = a - a2;
            cmp("hilbert(a - a2)", hilbert(a - a2), hilbert(s));
            const arr_real cat2 = a | b;
            const int np = rng.range(3, n1 + n2 + 9);
            const arr_cmplx& g = hilbert(a | b, np);
            cmp("const arr_cmplx& g = hilbert(a | b, n)", g, hilbert(cat2, np));
        }
        {   // Delay
            const int nd = rng.range(1, 40);
            const arr_real s = a * 0.5;
            DelayReal named(nd);
            const arr_real e = named.process(s);
            const arr_real& g = DelayReal(nd).process(a * 0.5);
            cmpr("const arr_real& g = DelayReal(nd).process(a * 0.5)", g, e);
            const arr_real& g2 = DelayReal(a).process(-b);
            DelayReal named2(a);
            const arr_real nb = -b;
            cmpr("DelayReal(a).process(-b)", g2, named2.process(nb));
            const arr_cmplx cs = ca | cb;
            DelayCmplx cn(nd);
            cmp("DelayCmplx(nd).process(ca | cb)", DelayCmplx(nd).process(ca | cb), cn.process(cs));
        }
        vh::clear_current();
    }
}

// =====================================================================================================
//        large single frames after shorter ones (lesson 3): HilbertFilter and Delay
// =====================================================================================================
static std::string lens_str(const std::vector<int>& lens) {
    std::string s = std::to_string(lens.size());
    for (int l : lens) s += " " + std::to_string(l);
    return s;
}
// generated input x[k] = gen_re(k, s) * sc, with a run of exact zeros (+0 then -0) longer than any history in the second quarter when `zeros`
static arr_real big_real(int n, uint64_t s, double sc) {
    arr_real x(n);
    for (int k = 0; k < n; ++k) x[k] = gen_re(k, s) * sc;
    return x;
}

static void run_large(bool thorough, vh::Rng& rng) {
    std::vector<std::vector<int>> pats = {{137, 20000, 1, 70000, 513, 140000, 7}};
    if (thorough) {
        pats.push_back({1, 16385, 32769, 65537, 131073});
        pats.push_back({64, 65536, 3, 131072, 65536});
        pats.push_back({1000, 49152, 98304, 5, 147456});
        pats.push_back({140000, 70000, 20000, 33});
        pats.push_back({3, 16384, 16385, 2, 140000, 0, 262144});
    }
    int c = int(g_seed);
    for (size_t pi = 0; pi < pats.size(); ++pi) {
        const std::vector<int>& lens = pats[pi];
        int total = 0;
        for (int l : lens) total += l;
        const int nrep = thorough ? 3 : 2;
        for (int rep = 0; rep < nrep; ++rep, ++c) {
            const uint64_t s = rng.next() % 1000000;
            const double sc = (c % 2) ? SCALES[(c / 2) % NSC] : 1.0;
            // ------------------------------------------------ HilbertFilter
            {
                const int flens[] = {33, 401, 64, 257, 31, 129};
                const int flen = rep == 0 ? 33 : flens[(c + int(pi)) % 6];
                const double tw = (c % 3 == 0) ? 0.01 : 0.05;
                const std::string js = "{\"op\":\"HilbertFilter, large frames after short ones\",\"flen\":" + std::to_string(flen) + ",\"tw\":" + vh::jnum(tw) + ",\"generated_seed\":" +
                                       std::to_string(s) + ",\"scale\":" + vh::jnum(sc) + ",\"frames\":" + vh::jints(lens);
                vh::set_current("C14:hilbertfilter-large-frame", js + "}");
                vh::watch(300);
                HilbertFilter flt(flen, tw), small(flen, tw);
                const arr_real h = flt.impz();
                const int M = h.size();
                arr_real x = big_real(total, s, sc);
                // a run of exact zeros longer than the filter inside the first large frame, followed by a run of negative zeros (NOT mirrored by the
                // driver's generator: only when this case is not emitted)
                const bool emit = (rep == 0) && (pi == 0 || pi == 2);
                if (!emit) { for (int k = 0; k < 3 * M && 300 + k < total; ++k) x[300 + k] = (k < 2 * M) ? 0.0 : -0.0; }
                arr_cmplx y(total);
                int p = 0;
                bool ok = true;
                for (int l : lens) {
                    const arr_cmplx yy = flt.process(sub(x, p, l));
                    if (yy.size() != l) { out.fail("C14:hilbertfilter-large-frame", js + ",\"frame_at\":" + std::to_string(p) + ",\"size\":" + std::to_string(yy.size()) + "}"); ok = false; break; }
                    for (int i = 0; i < l; ++i) y[p + i] = yy[i];
                    p += l;
                }
                ++out.n_oracle;
                if (ok) {
                    // (a) the definition: real part everywhere, imaginary part around every frame boundary + a random sample
                    std::set<int> idx;
                    int q = 0;
                    for (int l : lens) {
                        for (int d = -2; d < M + 2; ++d) { if (q + d >= 0 && q + d < total) idx.insert(q + d); }
                        q += l;
                    }
                    for (int d = 1; d <= 3; ++d) idx.insert(total - d);
                    for (int j = 0; j < (thorough ? 6000 : 2500); ++j) idx.insert(rng.range(0, total - 1));
                    for (int d = 0; d < 4 * M && 295 + d < total; ++d) idx.insert(295 + d);
                    const std::vector<int> only(idx.begin(), idx.end());
                    const std::string d = hf_def(h, x, y, &only);
                    out.n_oracle += (long long)only.size();
                    if (!d.empty()) out.fail("C14:hilbertfilter-large-frame", js + "," + d + "}");
                    // (b) a second object fed frames of 4099 samples gives the same bits
                    int p2 = 0;
                    bool same = true;
                    while (p2 < total && same) {
                        const int l = std::min(4099, total - p2);
                        const arr_cmplx yy = small.process(sub(x, p2, l));
                        for (int i = 0; i < l; ++i)
                            if (!same_bits(yy[i], y[p2 + i])) {
                                out.fail("C14:hilbertfilter-large-frame", js + ",\"index\":" + std::to_string(p2 + i) + ",\"got\":" + jval(y[p2 + i]) + ",\"fed_in_frames_of_4099\":" + jval(yy[i]) + "}");
                                same = false;
                                break;
                            }
                        p2 += l;
                    }
                    if (emit) out.corr("hfg " + vh::hxs(h) + " " + vh::hx(sc) + " " + std::to_string(s) + " " + lens_str(lens), digest(y));
                }
                vh::unwatch();
                vh::clear_current();
                out.stat("large_frame_cases_hilbertfilter");
            }
            // ------------------------------------------------ Delay (real / complex)
            {
                const int nds[] = {1, 200, 65536, 4097, 70001, 3};
                const int nd = nds[(c + int(pi)) % 6];
                const std::string js = "{\"op\":\"Delay, large frames after short ones\",\"nd\":" + std::to_string(nd) + ",\"generated_seed\":" + std::to_string(s) + ",\"scale\":" + vh::jnum(sc) +
                                       ",\"frames\":" + vh::jints(lens);
                vh::set_current("C14:delay-large-frame", js + "}");
                vh::watch(300);
                arr_cmplx x(total);
                for (int k = 0; k < total; ++k) x[k] = cmplx_t{gen_re(k, s) * sc, gen_im(k, s) * sc};
                const bool real_case = (c % 2 == 0);
                arr_cmplx y(total);
                int p = 0;
                bool ok = true;
                if (real_case) {
                    DelayReal d(nd);
                    arr_real xr(total);
                    for (int k = 0; k < total; ++k) xr[k] = x[k].re;
                    for (int k = 0; k < total; ++k) x[k].im = 0;
                    for (int l : lens) {
                        const arr_real yy = d.process(sub(xr, p, l));
                        if (yy.size() != l) { ok = false; break; }
                        for (int i = 0; i < l; ++i) y[p + i] = cmplx_t{yy[i], 0};
                        p += l;
                    }
                } else {
                    DelayCmplx d(nd);
                    for (int l : lens) {
                        const arr_cmplx yy = d.process(sub(x, p, l));
                        if (yy.size() != l) { ok = false; break; }
                        for (int i = 0; i < l; ++i) y[p + i] = yy[i];
                        p += l;
                    }
                }
                ++out.n_oracle;
                if (!ok) out.fail("C14:delay-large-frame", js + ",\"frame_at\":" + std::to_string(p) + ",\"size\":\"wrong\"}");
                else {
                    for (int t = 0; t < total; ++t) {
                        const cmplx_t e = t < nd ? cmplx_t{0, 0} : x[t - nd];
                        if (!same_bits(y[t], e)) { out.fail("C14:delay-large-frame", js + ",\"index\":" + std::to_string(t) + ",\"got\":" + jval(y[t]) + ",\"expected\":" + jval(e) + "}"); break; }
                    }
                    if (rep == 0) out.corr(std::string(real_case ? "dlygR " : "dlygC ") + std::to_string(nd) + " " + vh::hx(sc) + " " + std::to_string(s) + " " + lens_str(lens), digest(y));
                }
                vh::unwatch();
                vh::clear_current();
                out.stat("large_frame_cases_delay");
            }
        }
    }
}

// =====================================================================================================
//        long Tuner streams (worker threads): every sample of up to 2^24 (quick) / beyond 2^31 and 2^32 (thorough) samples through ONE object
// =====================================================================================================
static const long long SOAK_P = (1LL << 20) + 7;   // period of the generated input: x[k] = (gen_re(k mod P, s), gen_im(k mod P, s))
struct Soak {
    // ---- what to run
    std::string label;
    int fs = 0;
    double f = 0;
    long long total = 0;
    int fmode = 0;              // 0 constant frames of 2^20, 1 mixed sizes (large / awkward / tiny near the centres), 2 constant `resL` with the centre at residue `resR`
    int resL = 0, resR = 0;
    long long resK = 0;
    uint64_t seed = 1;
    std::vector<long long> centres;   // stream indices around which 64 outputs go into a CORR line
    // ---- what happened (filled by the worker; reported by the main thread)
    long long samples = 0, frames = 0, empty_frames = 0, max_frame = 0;
    bool threw = false, size_bad = false, frame_boundary_on_centre = false;
    long long bad_k = -1;
    cmplx_t bad_got{0, 0};
    ld bad_er = 0, bad_ei = 0, bad_bound = 0;
    long long bad_frame_start = 0, bad_frame_len = 0;
    ld worst_ratio = 0;         // at the anchors (exact evaluation)
    double secs = 0;
    std::vector<std::vector<cmplx_t>> win;
};

static int soak_next_len(Soak& S, vh::Rng& r, long long k0, bool& aligned) {
    const int BIG = 1 << 20;
    if (S.fmode == 0) return BIG;
    if (S.fmode == 2) {
        if (!aligned) {
            const long long d = S.resK - 4096 - 2 * (long long)S.resL - k0;
            if (d > 0) return int(std::min<long long>(BIG, d));
            aligned = true;
            const long long first = ((S.resK - S.resR - k0) % S.resL + S.resL) % S.resL;
            if (first > 0) return int(first);
        }
        return S.resL;
    }
    // mixed
    for (long long K : S.centres) { const long long d = K - k0; if (d > -600 && d <= 3000) return r.range(0, 17); }
    static const int tab[] = {1 << 20, (1 << 20) + 1, (1 << 20) - 1, 65537, 131073, 3 * 49152, 20 * 49152, 16 * 65536 - 65536, 1 << 19, 0, 1, 3 << 19};
    const int p = r.range(0, 15);
    int l = p < 12 ? tab[p] : r.range(1, 3 << 19);
    for (long long K : S.centres) if (k0 < K - 3000 && k0 + l > K - 3000) l = int(K - 3000 - k0);   // do not jump over the fine-grained zone
    return l;
}

static void soak_run(Soak& S) {
    const auto t0 = std::chrono::steady_clock::now();
    vh::Rng r(S.seed * 77 + 5);
    const uint64_t s = S.seed % 1000000;
    std::vector<cmplx_t> G(SOAK_P);
    for (long long j = 0; j < SOAK_P; ++j) G[j] = cmplx_t{gen_re(j, s), gen_im(j, s)};
    S.win.assign(S.centres.size(), std::vector<cmplx_t>(64, cmplx_t{0, 0}));
    const ld th = 2 * PIL * ((ld)S.f / (ld)S.fs);
    const ld cr = cosl(th), sr = sinl(th);
    try {
        Tuner tn(S.fs, S.f);
        long long k0 = 0;
        bool aligned = false;
        arr_cmplx x(0);
        while (k0 < S.total) {
            long long L = soak_next_len(S, r, k0, aligned);
            if (L > S.total - k0) L = S.total - k0;
            if (x.size() != L) x = arr_cmplx(int(L));
            {
                long long j = k0 % SOAK_P;
                for (int i = 0; i < L; ++i) { x[i] = G[j]; if (++j == SOAK_P) j = 0; }
            }
            const arr_cmplx y = tn.process(x);
            ++S.frames;
            if (L == 0) ++S.empty_frames;
            if (L > S.max_frame) S.max_frame = L;
            for (long long K : S.centres) if (k0 == K) S.frame_boundary_on_centre = true;
            if (y.size() != L) { S.size_bad = true; S.bad_frame_start = k0; S.bad_frame_len = L; break; }
            // every sample: exact evaluation at anchors 4096 apart, long-double rotation in between
            for (int i0 = 0; i0 < L && S.bad_k < 0; i0 += 4096) {
                const long long ka = k0 + i0;
                const ld cyc = cycles_exact(S.f, ka, S.fs);
                ld c = cosl(2 * PIL * cyc), sn = sinl(2 * PIL * cyc);
                const ld cb = 1e-9L + 4 * EPS * (2 * PIL * fabsl((ld)S.f) * (ld)(ka + 4096) / (ld)S.fs);
                const ld cb2 = cb * cb;
                const int i1 = int(std::min<long long>(L, i0 + 4096));
                for (int i = i0; i < i1; ++i) {
                    const ld xr = x[i].re, xi = x[i].im;
                    const ld er = xr * c - xi * sn, ei = xr * sn + xi * c;
                    const ld dr = (ld)y[i].re - er, di = (ld)y[i].im - ei;
                    const ld e2 = dr * dr + di * di, m2 = xr * xr + xi * xi;
                    if (!(e2 <= m2 * cb2)) {
                        S.bad_k = k0 + i;
                        S.bad_got = y[i];
                        // re-evaluate the reference exactly at the failing index
                        const ld cy = cycles_exact(S.f, k0 + i, S.fs);
                        const ld cc = cosl(2 * PIL * cy), ss = sinl(2 * PIL * cy);
                        S.bad_er = xr * cc - xi * ss;
                        S.bad_ei = xr * ss + xi * cc;
                        S.bad_bound = sqrtl(m2) * cb;
                        S.bad_frame_start = k0;
                        S.bad_frame_len = L;
                        break;
                    }
                    if (i == i0 && m2 > 0) { const ld q = sqrtl(e2 / (m2 * cb2)); if (q > S.worst_ratio) S.worst_ratio = q; }
                    const ld cn = c * cr - sn * sr;
                    sn = c * sr + sn * cr;
                    c = cn;
                }
            }
            for (size_t w = 0; w < S.centres.size(); ++w) {
                const long long a = S.centres[w] - 32;
                for (long long k = std::max(a, k0); k < std::min(a + 64, k0 + L); ++k) S.win[w][k - a] = y[int(k - k0)];
            }
            S.samples += L;
            k0 += L;
            if (S.bad_k >= 0) break;
        }
    } catch (const std::exception&) { S.threw = true; }
    S.secs = std::chrono::duration<double>(std::chrono::steady_clock::now() - t0).count();
}

static std::vector<Soak> g_soaks;
static std::vector<std::thread> g_soak_threads;
static std::atomic<int> g_soak_next{0};

static void soak_plan(bool thorough, vh::Rng& rng) {
    auto add = [&](const std::string& label, int fs, double f, long long total, int fmode, std::vector<long long> centres, int resL = 0, int resR = 0, long long resK = 0) {
        Soak S;
        S.label = label;
        S.fs = fs;
        S.f = f;
        S.total = total;
        S.fmode = fmode;
        S.resL = resL;
        S.resR = resR;
        S.resK = resK;
        S.seed = rng.next() % 1000000 + 1;
        centres.push_back(total - 32);
        for (long long K : centres) if (K >= 32 && K + 32 <= total) S.centres.push_back(K);
        g_soaks.push_back(S);
    };
    const long long P16 = 1LL << 16, P24 = 1LL << 24, P31 = 1LL << 31, P32 = 1LL << 32;
    if (thorough) {
        // the long ones first (they determine the wall time): beyond 2^31 and 2^32 samples through one object
        add("soak-2^32-fractional-f", 100000, 0.3, P32 + (1 << 21) + 12345, 0, {P16, P24, P31, P32});
        add("soak-2^31-random-fractional-f-mixed-frames", rng.range(8000, 100000), 0, P31 + (1 << 21) + rng.range(1, 99999), 1, {P16, P24, P31});
        add("soak-2^31-integer-f", 44100, 1000.0, P31 + (1 << 21) + 4321, 1, {P16, P24, P31});
        add("soak-2^31-negative-fractional-f-near-nyquist", 8000, -3999.5, P31 + (1 << 20) + 777, 1, {P16, P24, P31});
        add("soak-2^31-tiny-f", 48000, 1e-3, P31 + (1 << 20) + 1, 0, {P24, P31});
        g_soaks[1].f = (g_soaks[1].fs / 2) * rng.sym();
    }
    // up to 2^24 (+) samples: integer and fractional f, constant and mixed frames
    add("stream-2^24-fractional-f", 100000, 0.3, P24 + (1 << 20) + 4099, 0, {P16, P24});
    add("stream-2^24-integer-f", 44100, double(rng.range(-22050, 22050)), P24 + (1 << 18) + 17, 1, {P16, P24});
    {
        const int fs = rng.range(8, 100000);
        add("stream-2^24-random-fractional-f-mixed-frames", fs, (fs / 2) * rng.sym(), P24 + (1 << 19) + rng.range(0, 9999), 1, {P16, P24});
    }
    // frame boundaries at every residue around 2^16 ...
    {
        const int Ls[] = {2, 3, 5, 7, 16, 17};
        int j = 0;
        for (int L : Ls)
            for (int res = 0; res < L; ++res, ++j) {
                if (!thorough && (j + int(g_seed)) % 3 != 0 && res != 0) continue;
                const int fs = (j % 4 == 0) ? 65536 : (j % 4 == 1) ? 65537 : rng.range(8, 100000);
                const double f = (j % 2) ? double(rng.range(-fs / 2, fs / 2)) : (fs / 2) * rng.sym();
                add("cross-2^16-frames-of-" + std::to_string(L) + "-residue-" + std::to_string(res), fs, f, P16 + 5 * L + 40, 2, {P16}, L, res, P16);
            }
    }
    // ... and around 2^24 (the prefix in frames of 2^20)
    {
        const int Ls[] = {3, 16};
        int j = 0;
        for (int L : Ls)
            for (int res = 0; res < L; ++res, ++j) {
                if (!thorough && !(L == 16 && (res == 0 || res == 1 || res == 15)) && !(L == 3 && res == 2)) continue;
                const int fs = (j % 3 == 0) ? 100000 : rng.range(8, 100000);
                const double f = (j % 2 == 0) ? (fs / 2) * rng.sym() : double(rng.range(-fs / 2, fs / 2));
                add("cross-2^24-frames-of-" + std::to_string(L) + "-residue-" + std::to_string(res), fs, f, P24 + 5 * L + 4200, 2, {P24}, L, res, P24);
            }
    }
    // f next to an integer (the constructor's integer / non-integer decision, see run_near_integer): restarting the counter every fs samples would
    // lag the definition by 2 pi d per period; small |k| keeps the phase-proportional part of the bound far below that.  (Added last, and the
    // offset is taken from the seed, not from `rng`: the scenarios above keep their parameters.)
    {
        static const double D[] = {1e-9, -1e-7, 5e-7, -1e-12, 1e-6, -1e-9};
        add("stream-2^24-f-next-to-an-integer", 8000, ((g_seed / 6) % 2 ? -7.0 : 7.0) + D[g_seed % 6], P24 + (1 << 18) + 99, 1, {P16, P24});
        if (thorough) add("soak-2^31-f-next-to-an-integer-small-rate", 8, 1.0 + ((g_seed % 2) ? -1e-13 : 1e-13), P31 + (1 << 20) + 5, 0, {P16, P24, P31});
    }
}

static void soak_start() {
    unsigned nthr = std::thread::hardware_concurrency();
    if (nthr == 0) nthr = 2;
    nthr = std::min<unsigned>(std::min<unsigned>(nthr, 8), unsigned(g_soaks.size()));
    for (unsigned t = 0; t < nthr; ++t)
        g_soak_threads.emplace_back([]() {
            for (;;) {
                const int j = g_soak_next.fetch_add(1);
                if (j >= int(g_soaks.size())) return;
                soak_run(g_soaks[j]);
            }
        });
}

static void soak_finish() {
    for (auto& t : g_soak_threads) t.join();
    for (Soak& S : g_soaks) {
        const bool integral = S.f == std::floor(S.f);
        std::ostringstream o;
        o << "{\"op\":\"Tuner, one object, long stream\",\"scenario\":\"" << S.label << "\",\"fs\":" << S.fs << ",\"freq\":" << vh::jnum(S.f) << ",\"freq_bits\":\"" << vh::hx(S.f)
          << "\",\"samples_planned\":" << S.total << ",\"input\":\"x[k] = (gen_re(k mod " << SOAK_P << ", s), gen_im(..)), s = " << (S.seed % 1000000) << "\",\"frame_mode\":"
          << (S.fmode == 0 ? "\"constant 2^20\"" : S.fmode == 1 ? "\"mixed sizes\"" : "\"constant " + std::to_string(S.resL) + ", centre at residue " + std::to_string(S.resR) + "\"");
        const std::string head = o.str();
        out.n_oracle += S.samples;
        out.stat("tuner_long_stream_objects");
        out.stat("tuner_long_stream_samples", S.samples);
        out.stat("tuner_long_stream_frames", S.frames);
        out.stat("tuner_long_stream_empty_frames", S.empty_frames);
        maxstat("tuner_longest_single_object_stream_samples", S.samples);
        maxstat("tuner_long_stream_largest_frame", S.max_frame);
        maxstat("tuner_long_stream_slowest_object_ms", (long long)(S.secs * 1000));
        if (S.total > (1LL << 30)) out.stat("tuner_long_stream_ms_" + S.label, (long long)(S.secs * 1000));
        if (S.frame_boundary_on_centre) out.stat("tuner_long_stream_frame_boundary_exactly_on_a_power_of_two");
        out.stat(integral ? "tuner_long_stream_integer_f" : "tuner_long_stream_fractional_f");
        worst(integral ? "tuner_long_integer_f" : "tuner_long_fractional_f", S.worst_ratio);
        if (S.threw) { out.fail("C14:tuner-long-stream", head + ",\"threw\":true}"); continue; }
        if (S.size_bad) { out.fail("C14:tuner-long-stream", head + ",\"frame_start\":" + std::to_string(S.bad_frame_start) + ",\"frame_length\":" + std::to_string(S.bad_frame_len) + ",\"size\":\"wrong\"}"); continue; }
        if (S.bad_k >= 0) {
            std::ostringstream w;
            w << head << ",\"index\":" << S.bad_k << ",\"index_minus_2^31\":" << (S.bad_k - (1LL << 31)) << ",\"frame_start\":" << S.bad_frame_start << ",\"frame_length\":" << S.bad_frame_len
              << ",\"got\":" << jval(S.bad_got) << ",\"expected\":[" << vh::jnum((double)S.bad_er) << "," << vh::jnum((double)S.bad_ei) << "],\"error\":"
              << vh::jnum((double)hypotl((ld)S.bad_got.re - S.bad_er, (ld)S.bad_got.im - S.bad_ei)) << ",\"bound\":" << vh::jnum((double)S.bad_bound) << "}";
            out.fail("C14:tuner-long-stream", w.str());
            continue;
        }
        if (S.samples != S.total) { out.fail("C14:tuner-long-stream", head + ",\"samples_done\":" + std::to_string(S.samples) + "}"); continue; }
        // CORR: 64 outputs around every centre, recomputed by the model from the counter value itself
        for (size_t w = 0; w < S.centres.size(); ++w) {
            arr_cmplx v(64);
            for (int i = 0; i < 64; ++i) v[i] = S.win[w][i];
            out.corr("tunk " + std::to_string(S.fs) + " " + vh::hx(S.f) + " " + std::to_string(S.seed % 1000000) + " " + std::to_string(SOAK_P) + " " + std::to_string(S.centres[w] - 32) + " 64", vh::hxs(v));
        }
    }
}

int main(int argc, char** argv) {
    vh::Args a(argc, argv);
    vh::install_guards();
    g_seed = a.seed;
    vh::Rng rng(a.seed * 0x9e3779b97f4a7c15ULL + 14);
    const char* only = std::getenv("VERIF_PHASE");   // development aid: run a single phase
    // the long Tuner streams run on worker threads beside the other phases (they only touch their own objects; reported at the end)
    vh::Rng srng(a.seed * 0x9e3779b97f4a7c15ULL + 1414);
    if (!only || std::strchr(only, 's')) { soak_plan(a.thorough, srng); soak_start(); }
    if (!only || std::strchr(only, 'h')) run_hilbert(a.thorough, rng);
    if (!only || std::strchr(only, 'd')) run_delay(a.thorough, rng);
    if (!only || std::strchr(only, 'f')) run_hf(a.thorough, rng);
    if (!only || std::strchr(only, 't')) run_tuner(a.thorough, rng);
    vh::Rng lrng(a.seed * 0x9e3779b97f4a7c15ULL + 141414);   // own generator: the phases above keep their case streams
    if (!only || std::strchr(only, 'l')) run_life(a.thorough, lrng);
    if (!only || std::strchr(only, 'e')) run_temporaries(a.thorough, lrng);
    if (!only || std::strchr(only, 'b')) run_large(a.thorough, lrng);
    vh::Rng nrng(a.seed * 0x9e3779b97f4a7c15ULL + 14141414);   // own generator again
    if (!only || std::strchr(only, 'n')) run_near_integer(a.thorough, nrng);
    if (!only || std::strchr(only, 's')) soak_finish();
    out.finish();
    return 0;
}
