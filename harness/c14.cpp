// C14 — analytic signal, Hilbert filter, tuner follow their definitions.
//
// ORACLE (on the implementation only; every reference value is evaluated in long double):
//   hilbert(x)       re(hilbert(x))[t] = x[t]                       |err| <= 64 n eps ||x||_2      (two transforms of the C01/C02 class)
//                    DFT(hilbert(x))[k] = 0 for n/2 < k < n           |Y_k| <= 64 n eps ||X||_2,  ||X||_2 = sqrt(n) ||x||_2
//                    (brute-force long-double DFT bins: all negative bins for n <= 160, else both ends of the range + a random sample)
//   hilbert(x, n')   = hilbert(x padded with zeros / truncated to n') (same bound, against the library's own hilbert of the explicit copy)
//   HilbertFilter    real part  = input delayed by M/2 (zeros first), bit-exact, any framing
//                    imag part  = A sin(2 pi f (t - M/2) + phi) for x = A cos(2 pi f t + phi) once the filter is full (t >= M-1),
//                                 |err| <= 1e-3 A, for tones with max(2 tw, 6/M) <= f <= 0.5 - max(2 tw, 6/M)   (the property's own tolerance)
//                    + the long-double frequency response of impz() on a dense grid of the same band: |H(f) - (-i) e^{-2 pi i f M/2}| <= 1e-3
//   Tuner            out[k] = x[k] exp(2 pi i f k / fs) for every stream index k:  |err| <= |x[k]| (1e-9 + 4 eps 2 pi |f| k / fs),
//                    any framing (the framed run must be bit-identical to a one-call run of a second object)
// CORR: hilbert / hilbert(x,n') / design_fir+impz / HilbertFilter::process / Delay / Tuner replayed by Model/Hilbert.lean (dspdriver_c14).
#include "common.hpp"
#include <algorithm>
#include <set>
using namespace dsplib;
typedef long double ld;
static vh::Out out;
static const ld EPS = 2.220446049250313e-16L;
static const ld PIL = 3.141592653589793238462643383279502884L;
static uint64_t g_seed = 1;

static void maxstat(const std::string& k, long long v) { auto& s = out.stats[k]; if (v > s) s = v; }
static void worst(const std::string& k, ld ratio) { maxstat("worst_err_over_bound_ppm_" + k, (long long)std::min((ld)1e15, ratio * 1e6L)); }

// ---------------------------------------------------------------- generated inputs shared with the Lean driver (same as harness/c01.cpp)
static inline uint64_t mix(uint64_t m, uint64_t s) {
    uint64_t z = (m + 1) * 0x9e3779b97f4a7c15ULL + s * 0xbf58476d1ce4e5b9ULL;
    z ^= z >> 29;
    z *= 0x94d049bb133111ebULL;
    z ^= z >> 32;
    return z;
}
static inline double gen_re(uint64_t m, uint64_t s) { return (double(mix(m, s) % 4001) - 2000.0) / 2048.0; }
static inline double gen_im(uint64_t m, uint64_t s) { return (double((mix(m, s) >> 20) % 4001) - 2000.0) / 2048.0; }

static std::string digest(const arr_cmplx& y) {
    const int n = y.size();
    std::string s = std::to_string(n);
    for (int i = 0; i < 8; ++i) {
        const int k = int(((long long)i * n) / 8 + (i % 3)) % n;
        s += " " + vh::hx(y[k].re) + " " + vh::hx(y[k].im);
    }
    double a[4][2] = {{0, 0}, {0, 0}, {0, 0}, {0, 0}};
    for (int k = 0; k < n; ++k) {
        const double g[4] = {1.0, (k % 2) ? -1.0 : 1.0, double(k % 7) - 3.0, double(((long long)k * k) % 5) - 2.0};
        for (int j = 0; j < 4; ++j) { a[j][0] += y[k].re * g[j]; a[j][1] += y[k].im * g[j]; }
    }
    for (int j = 0; j < 4; ++j) s += " " + vh::hx(a[j][0]) + " " + vh::hx(a[j][1]);
    return s;
}

template<class T> base_array<T> sub(const base_array<T>& x, int a, int n) {
    base_array<T> r(n);
    for (int i = 0; i < n; ++i) r[i] = x[a + i];
    return r;
}
template<class T> std::string frames_str(const base_array<T>& x, const std::vector<int>& lens) {
    std::string s = std::to_string(lens.size());
    int p = 0;
    for (int l : lens) { s += " " + vh::hxs(sub(x, p, l)); p += l; }
    return s;
}
// random framing of a stream of length nx into nf frames (empty frames allowed)
static std::vector<int> gen_cuts(vh::Rng& r, int nx, int nf) {
    std::vector<int> c;
    for (int i = 0; i + 1 < nf; ++i) c.push_back(r.range(0, nx));
    std::sort(c.begin(), c.end());
    std::vector<int> len;
    int prev = 0;
    for (int v : c) { len.push_back(v - prev); prev = v; }
    len.push_back(nx - prev);
    return len;
}

// =====================================================================================================
//                                              hilbert
// =====================================================================================================
static const char* HK[] = {"gauss", "gauss-no-dc-no-nyquist", "dc", "alternating", "tone-on-bin", "tone-off-bin", "dc+nyquist+tones", "impulse", "dynamic-range"};
static const int NHK = 9;

static arr_real gen_sig(vh::Rng& r, int n, int kind) {
    arr_real x(n);
    for (int t = 0; t < n; ++t) x[t] = 0;
    const int kmax = std::max(1, (n - 1) / 2);
    switch (kind) {
    case 0: for (int t = 0; t < n; ++t) x[t] = r.gauss(); break;
    case 1: {
        for (int t = 0; t < n; ++t) x[t] = r.gauss();
        ld m = 0;
        for (int t = 0; t < n; ++t) m += x[t];
        m /= n;
        for (int t = 0; t < n; ++t) x[t] = double(x[t] - m);
        if (n % 2 == 0) {
            ld a = 0;
            for (int t = 0; t < n; ++t) a += (t % 2 ? -1 : 1) * (ld)x[t];
            a /= n;
            for (int t = 0; t < n; ++t) x[t] = double(x[t] - (t % 2 ? -a : a));
        }
        break;
    }
    case 2: { const double c = r.coin() ? 1.0 : r.gauss() * 3; for (int t = 0; t < n; ++t) x[t] = c; break; }
    case 3: { const double c = r.coin() ? 1.0 : r.gauss() * 3; for (int t = 0; t < n; ++t) x[t] = (t % 2) ? -c : c; break; }
    case 4: {
        const int k0 = r.range(1, kmax);
        const double A = 0.1 + 4 * r.unit(), ph = 6.283185307179586 * r.unit();
        for (int t = 0; t < n; ++t) x[t] = A * std::cos(6.283185307179586 * double((long long)k0 * t % n) / n + ph);
        break;
    }
    case 5: {
        const double k0 = r.range(0, kmax) + 0.1 + 0.8 * r.unit();
        const double A = 0.1 + 4 * r.unit(), ph = 6.283185307179586 * r.unit();
        for (int t = 0; t < n; ++t) x[t] = A * std::cos(6.283185307179586 * k0 * t / n + ph);
        break;
    }
    case 6: {
        const int k0 = r.range(1, kmax);
        const double k1 = r.range(0, kmax) + 0.5;
        const double dc = r.gauss() * 2, ny = r.gauss() * 2, ph = 6.283185307179586 * r.unit();
        for (int t = 0; t < n; ++t)
            x[t] = dc + ((t % 2) ? -ny : ny) + std::cos(6.283185307179586 * double((long long)k0 * t % n) / n + ph) + 0.5 * std::sin(6.283185307179586 * k1 * t / n);
        break;
    }
    case 7: x[r.coin() ? 0 : r.range(0, n - 1)] = r.coin() ? 1.0 : r.gauss(); break;
    case 8: for (int t = 0; t < n; ++t) x[t] = r.gauss() * std::ldexp(1.0, r.range(-20, 20)); break;
    }
    return x;
}

static std::string hil_json(const char* what, int n, int kind, uint64_t cs, int idx, ld err, ld bound, const arr_real& x, int np = -1) {
    std::ostringstream o;
    o << "{\"op\":\"" << what << "\",\"n\":" << n << ",\"kind\":\"" << (kind >= 0 ? HK[kind] : "generated") << "\",\"case_seed\":" << cs;
    if (np >= 0) o << ",\"n_out\":" << np;
    o << ",\"index\":" << idx << ",\"error\":" << vh::jnum((double)err) << ",\"bound\":" << vh::jnum((double)bound);
    if (x.size() <= 64) o << ",\"x\":" << vh::jarr(x);
    o << "}";
    return o.str();
}

// long-double twiddle table for one n
struct Tw {
    int n = 0;
    std::vector<ld> c, s;
    void set(int m) {
        if (m == n) return;
        n = m;
        c.resize(n);
        s.resize(n);
        for (int i = 0; i < n; ++i) { c[i] = cosl(2 * PIL * i / n); s[i] = sinl(2 * PIL * i / n); }
    }
};
static Tw g_tw;

// checks of y = hilbert(x) against the definition; returns false when an oracle failed
static bool check_hilbert(const arr_real& x, const arr_cmplx& y, const char* what, int kind, uint64_t cs, vh::Rng& r, int np = -1) {
    const int n = x.size();
    ++out.n_oracle;
    if (y.size() != n) { out.fail("C14:hilbert-size", hil_json(what, n, kind, cs, y.size(), 0, 0, x, np)); return false; }
    ld e2 = 0;
    for (int t = 0; t < n; ++t) e2 += (ld)x[t] * x[t];
    const ld nx = sqrtl(e2);
    const ld rel = 64 * (ld)n * EPS;
    bool ok = true;
    // real part
    {
        const ld bound = rel * nx;
        ld w = 0;
        int wi = 0;
        for (int t = 0; t < n; ++t) {
            const ld e = fabsl((ld)y[t].re - (ld)x[t]);
            if (!(e <= w)) { w = e; wi = t; }   // NaN-safe: a NaN error becomes the worst
        }
        if (nx > 0) worst("hilbert_re", w / bound);
        if (!(w <= bound)) { out.fail("C14:hilbert-re", hil_json(what, n, kind, cs, wi, w, bound, x, np)); ok = false; }
    }
    // negative-frequency bins
    {
        const ld bound = rel * sqrtl((ld)n) * nx;
        std::vector<int> bins;
        const int lo = n / 2 + 1, hi = n - 1;
        if (n <= 160) { for (int k = lo; k <= hi; ++k) bins.push_back(k); }
        else {
            std::set<int> s;
            for (int d = 0; d < 6; ++d) { s.insert(lo + d); s.insert(hi - d); }
            for (int j = 0; j < 20; ++j) s.insert(r.range(lo, hi));
            bins.assign(s.begin(), s.end());
        }
        g_tw.set(n);
        ld w = 0;
        int wk = lo;
        for (int k : bins) {
            ld sr = 0, si = 0;
            long long idx = 0;
            for (int t = 0; t < n; ++t) {
                // y[t] * exp(-2 pi i k t / n)
                const ld c = g_tw.c[idx], s = -g_tw.s[idx];
                sr += (ld)y[t].re * c - (ld)y[t].im * s;
                si += (ld)y[t].re * s + (ld)y[t].im * c;
                idx += k;
                if (idx >= n) idx -= n;
            }
            const ld e = hypotl(sr, si);
            if (!(e <= w)) { w = e; wk = k; }
            ++out.n_oracle;
        }
        out.stat("hilbert_negative_bins_evaluated", (long long)bins.size());
        if (nx > 0) worst("hilbert_negbin", w / bound);
        if (!(w <= bound)) { out.fail("C14:hilbert-negative-bin", hil_json(what, n, kind, cs, wk, w, bound, x, np)); ok = false; }
    }
    return ok;
}

static void hilbert_case(int n, int kind, uint64_t cs, bool emit) {
    vh::Rng r(cs);
    const arr_real x = gen_sig(r, n, kind);
    vh::set_current("C14:hilbert-crash", hil_json("hilbert", n, kind, cs, -1, 0, 0, x));
    arr_cmplx y;
    try { y = hilbert(x); } catch (const std::exception& e) {
        out.fail("C14:hilbert-throws", hil_json("hilbert", n, kind, cs, -1, 0, 0, x));
        vh::clear_current();
        return;
    }
    vh::clear_current();
    check_hilbert(x, y, "hilbert", kind, cs, r);
    out.stat(std::string("hilbert_kind_") + HK[kind]);
    out.stat(n % 2 ? "hilbert_odd_n" : "hilbert_even_n");
    if (emit) {
        out.corr("hilb " + vh::hxs(x), vh::hxs(y));
        if (n <= 8) out.sample("{\"op\":\"hilbert\",\"x\":" + vh::jarr(x) + ",\"y\":" + vh::jarr(y) + "}");
    }
}

// generated input + digest (mirrored by the driver): CORR for many lengths at small volume
static void hilbert_gen_case(int n, uint64_t s) {
    arr_real x(n);
    for (int m = 0; m < n; ++m) x[m] = gen_re(m, s);
    vh::set_current("C14:hilbert-crash", "{\"op\":\"hilbert\",\"n\":" + std::to_string(n) + ",\"generated_seed\":" + std::to_string(s) + "}");
    arr_cmplx y;
    try { y = hilbert(x); } catch (const std::exception& e) {
        out.fail("C14:hilbert-throws", "{\"op\":\"hilbert\",\"n\":" + std::to_string(n) + ",\"generated_seed\":" + std::to_string(s) + "}");
        vh::clear_current();
        return;
    }
    vh::clear_current();
    out.corr("hilbg " + std::to_string(n) + " " + std::to_string(s), digest(y));
}

static void hilbert_n_case(int nx, int np, int kind, uint64_t cs, bool emit) {
    vh::Rng r(cs);
    const arr_real x = gen_sig(r, nx, kind);
    arr_real xp(np);
    for (int t = 0; t < np; ++t) xp[t] = t < nx ? x[t] : 0.0;
    vh::set_current("C14:hilbert-crash", hil_json("hilbert(x,n)", nx, kind, cs, -1, 0, 0, x, np));
    arr_cmplx y, yp;
    try { y = hilbert(x, np); yp = hilbert(xp); } catch (const std::exception& e) {
        out.fail("C14:hilbert-n-throws", hil_json("hilbert(x,n)", nx, kind, cs, -1, 0, 0, x, np));
        vh::clear_current();
        return;
    }
    vh::clear_current();
    ++out.n_oracle;
    out.stat(np > nx ? "hilbert_n_pad" : np < nx ? "hilbert_n_truncate" : "hilbert_n_same");
    if (y.size() != np) { out.fail("C14:hilbert-n-size", hil_json("hilbert(x,n)", nx, kind, cs, y.size(), 0, 0, x, np)); return; }
    // (a) against the library's hilbert of the explicit copy
    ld e2 = 0;
    for (int t = 0; t < np; ++t) e2 += (ld)xp[t] * xp[t];
    const ld bound = 2 * 64 * (ld)np * EPS * sqrtl(e2);
    ld w = 0;
    int wi = 0;
    bool same = true;
    for (int t = 0; t < np; ++t) {
        const ld e = hypotl((ld)y[t].re - (ld)yp[t].re, (ld)y[t].im - (ld)yp[t].im);
        if (!(e <= w)) { w = e; wi = t; }
        if (std::memcmp(&y[t], &yp[t], sizeof(cmplx_t)) != 0) same = false;
    }
    out.stat(same ? "hilbert_n_bit_identical_to_hilbert_of_copy" : "hilbert_n_not_bit_identical");
    if (!(w <= bound)) { out.fail("C14:hilbert-n", hil_json("hilbert(x,n)", nx, kind, cs, wi, w, bound, x, np)); return; }
    // (b) the definition itself on the padded / truncated signal
    check_hilbert(xp, y, "hilbert(x,n)", kind, cs, r, np);
    if (emit) out.corr("hilbn " + std::to_string(np) + " " + vh::hxs(x), vh::hxs(y));
}

static bool is_prime(int n) {
    if (n < 2) return false;
    for (int d = 2; (long long)d * d <= n; ++d) if (n % d == 0) return false;
    return true;
}

static void run_hilbert(bool thorough, vh::Rng& rng) {
    // lengths
    std::vector<int> lens;
    if (thorough) { for (int n = 3; n <= 4096; ++n) lens.push_back(n); }
    else {
        std::set<int> s;
        for (int n = 3; n <= 48; ++n) s.insert(n);
        for (int p = 6; p <= 12; ++p) { s.insert((1 << p) - 1); s.insert(1 << p); if ((1 << p) + 1 <= 4096) s.insert((1 << p) + 1); }
        const int special[] = {97, 100, 101, 127, 210, 243, 250, 360, 625, 1000, 1001, 1009, 1155, 2187, 2310, 3001, 3125, 4093, 4094, 4095};
        for (int v : special) s.insert(v);
        for (int j = 0; j < 40; ++j) s.insert(rng.range(49, 4096));
        lens.assign(s.begin(), s.end());
    }
    out.stat("hilbert_lengths", (long long)lens.size());
    // CORR subsets: full vectors for small n, digest for a spread of n
    std::set<int> corr_full, corr_dig;
    for (int n = 3; n <= (thorough ? 64 : 24); ++n) corr_full.insert(n);
    { const int more[] = {31, 32, 33, 47, 64, 100, 127, 128, 243, 256}; for (int v : more) corr_full.insert(v); }
    if (thorough) { for (int n = 3; n <= 512; ++n) corr_dig.insert(n); for (int j = 0; j < 300; ++j) corr_dig.insert(rng.range(513, 4096)); }
    else { for (int n = 3; n <= 64; ++n) corr_dig.insert(n); for (int j = 0; j < 12; ++j) corr_dig.insert(rng.range(65, 1024)); }
    { const int more[] = {512, 1000, 1024, 1009, 2048, 2187, 3001, 4093, 4095, 4096}; for (int v : more) corr_dig.insert(v); }
    for (int n : lens) {
        vh::watch(120);
        for (int kind = 0; kind < NHK; ++kind) {
            const uint64_t cs = g_seed * 1000003ULL + (uint64_t)n * 64 + kind;
            const bool emit = corr_full.count(n) && (n <= 16 || kind == (n % NHK) || kind == 0);
            hilbert_case(n, kind, cs, emit);
        }
        if (corr_dig.count(n)) hilbert_gen_case(n, g_seed + n);
        vh::unwatch();
        out.stat(is_prime(n) ? "hilbert_prime_n" : ((n & (n - 1)) == 0 ? "hilbert_pow2_n" : "hilbert_composite_n"));
    }
    // below the property's domain (n < 3): the code throws; CORR only
    for (int n = 0; n <= 2; ++n) {
        arr_real x(n);
        for (int t = 0; t < n; ++t) x[t] = rng.gauss();
        std::string o;
        try { o = vh::hxs(hilbert(x)); } catch (const std::exception& e) { o = "ERR"; }
        out.corr("hilb " + vh::hxs(x), o);
        arr_real x5(5);
        for (int t = 0; t < 5; ++t) x5[t] = rng.gauss();
        try { o = vh::hxs(hilbert(x5, n)); } catch (const std::exception& e) { o = "ERR"; }
        out.corr("hilbn " + std::to_string(n) + " " + vh::hxs(x5), o);
        out.stat("hilbert_below_domain_cases", 2);
    }
    // hilbert(x, n')
    const int npairs = thorough ? 3000 : 200;
    for (int j = 0; j < npairs; ++j) {
        int nx, np;
        if (j < 60) { nx = 3 + j % 10; np = 3 + (j / 10) * 2 + (j % 2); }          // small exhaustive-ish grid, both directions
        else {
            nx = rng.range(3, (j % 5 == 0) ? 4096 : 400);
            const int mode = j % 4;
            np = mode == 0 ? nx : mode == 1 ? rng.range(3, nx) : mode == 2 ? rng.range(nx, std::min(4096, 2 * nx + 3)) : rng.range(3, 4096);
        }
        const uint64_t cs = g_seed * 7000003ULL + j;
        hilbert_n_case(nx, np, j % NHK, cs, j < 60 ? (j % 3 == 0) : (std::max(nx, np) <= 300 && (j % 4 == 1 || j % 8 == 2 || j % 8 == 4)));
    }
}

// =====================================================================================================
//                                           Delay (CORR only; the delay clause of HilbertFilter is checked below)
// =====================================================================================================
static void run_delay(bool thorough, vh::Rng& rng) {
    {   // Delay(0): process throws (slice constructor); CORR only
        arr_real x(3);
        for (int i = 0; i < 3; ++i) x[i] = rng.gauss();
        std::string o;
        try { DelayReal d(0); o = vh::hxs(d.process(x)); } catch (const std::exception& e) { o = "ERR"; }
        out.corr("dlyR 0 1 " + vh::hxs(x), o);
        try { DelayReal d(0); o = vh::hxs(d.process(arr_real(0))); } catch (const std::exception& e) { o = "ERR"; }
        out.corr("dlyR 0 1 0", o);
    }
    const int ncase = thorough ? 120 : 30;
    for (int j = 0; j < ncase; ++j) {
        const int nd = j < 6 ? j + 1 : rng.range(1, 200);
        const int total = rng.range(0, 3 * nd + 20);
        const auto lens = gen_cuts(rng, total, rng.range(1, 6));
        vh::set_current("C14:delay-crash", "{\"op\":\"Delay\",\"nd\":" + std::to_string(nd) + ",\"frames\":" + vh::jints(lens) + "}");
        if (j % 4 == 3) {
            // the "initial contents" constructor, complex (did not compile before /repo a0bedcc)
            arr_cmplx x(total);
            for (int i = 0; i < total; ++i) x[i] = cmplx_t{rng.gauss(), rng.gauss()};
            arr_cmplx init(nd);
            for (int i = 0; i < nd; ++i) init[i] = cmplx_t{rng.gauss(), rng.gauss()};
            DelayCmplx d(init);
            std::string o;
            int p = 0;
            ld bad = 0;
            for (int l : lens) {
                const arr_cmplx y = d.process(sub(x, p, l));
                for (int i = 0; i < y.size(); ++i) {
                    const cmplx_t e = (p + i < nd) ? init[p + i] : x[p + i - nd];
                    if (y[i].re != e.re || y[i].im != e.im || y.size() != l) bad = 1;
                }
                o += (o.empty() ? "" : " ") + vh::hxs(y);
                p += l;
            }
            ++out.n_oracle;
            if (bad != 0) out.fail("C14:delay", "{\"op\":\"DelayCmplx(initial)\",\"nd\":" + std::to_string(nd) + ",\"frames\":" + vh::jints(lens) + "}");
            out.corr("dlyJ " + vh::hxs(init) + " " + frames_str(x, lens), o);
        } else if (j % 3 == 2) {
            arr_cmplx x(total);
            for (int i = 0; i < total; ++i) x[i] = cmplx_t{rng.gauss(), rng.gauss()};
            DelayCmplx d(nd);
            std::string o;
            int p = 0;
            ld bad = 0;
            for (int l : lens) {
                const arr_cmplx y = d.process(sub(x, p, l));
                for (int i = 0; i < y.size(); ++i) {
                    const cmplx_t e = (p + i < nd) ? cmplx_t{0, 0} : x[p + i - nd];
                    if (y[i].re != e.re || y[i].im != e.im || y.size() != l) bad = 1;
                }
                o += (o.empty() ? "" : " ") + vh::hxs(y);
                p += l;
            }
            ++out.n_oracle;
            if (bad != 0) out.fail("C14:delay", "{\"op\":\"DelayCmplx\",\"nd\":" + std::to_string(nd) + ",\"frames\":" + vh::jints(lens) + "}");
            out.corr("dlyC " + std::to_string(nd) + " " + frames_str(x, lens), o);
        } else if (j % 3 == 0) {
            arr_real x(total);
            for (int i = 0; i < total; ++i) x[i] = rng.gauss();
            DelayReal d(nd);
            std::string o;
            int p = 0;
            ld bad = 0;
            for (int l : lens) {
                const arr_real y = d.process(sub(x, p, l));
                for (int i = 0; i < y.size(); ++i) { const double e = (p + i < nd) ? 0.0 : x[p + i - nd]; if (y[i] != e || y.size() != l) bad = 1; }
                o += (o.empty() ? "" : " ") + vh::hxs(y);
                p += l;
            }
            ++out.n_oracle;
            if (bad != 0) out.fail("C14:delay", "{\"op\":\"DelayReal\",\"nd\":" + std::to_string(nd) + ",\"frames\":" + vh::jints(lens) + "}");
            out.corr("dlyR " + std::to_string(nd) + " " + frames_str(x, lens), o);
        } else {
            // the "initial contents" constructor, real
            arr_real x(total);
            for (int i = 0; i < total; ++i) x[i] = rng.gauss();
            arr_real init(nd);
            for (int i = 0; i < nd; ++i) init[i] = rng.gauss();
            DelayReal d(init);
            std::string o;
            int p = 0;
            ld bad = 0;
            for (int l : lens) {
                const arr_real y = d.process(sub(x, p, l));
                for (int i = 0; i < y.size(); ++i) {
                    const double e = (p + i < nd) ? init[p + i] : x[p + i - nd];
                    if (y[i] != e || y.size() != l) bad = 1;
                }
                o += (o.empty() ? "" : " ") + vh::hxs(y);
                p += l;
            }
            ++out.n_oracle;
            if (bad != 0) out.fail("C14:delay", "{\"op\":\"DelayReal(initial)\",\"nd\":" + std::to_string(nd) + ",\"frames\":" + vh::jints(lens) + "}");
            out.corr("dlyI " + vh::hxs(init) + " " + frames_str(x, lens), o);
        }
        vh::clear_current();
        out.stat("delay_cases");
    }
}

// =====================================================================================================
//                                           HilbertFilter
// =====================================================================================================
static std::string hf_json(int flen, double tw, double f, double A, double ph, int idx, ld err, ld bound, const std::vector<int>& lens) {
    std::ostringstream o;
    o << "{\"op\":\"HilbertFilter\",\"flen\":" << flen << ",\"tw\":" << vh::jnum(tw) << ",\"tone_freq\":" << vh::jnum(f) << ",\"amplitude\":" << vh::jnum(A)
      << ",\"phase\":" << vh::jnum(ph) << ",\"index\":" << idx << ",\"error\":" << vh::jnum((double)err) << ",\"bound\":" << vh::jnum((double)bound)
      << ",\"frames\":" << vh::jints(lens) << "}";
    return o.str();
}

static void hf_filter(int flen, double tw, int ntones, int ngrid, bool emit_design, bool emit_proc, vh::Rng& rng) {
    const int M = (flen % 2 == 0) ? flen + 1 : flen;
    const std::vector<int> none;
    vh::set_current("C14:hilbertfilter-crash", hf_json(flen, tw, 0, 0, 0, -1, 0, 0, none));
    vh::watch(60);
    arr_real h;
    try {
        HilbertFilter probe(flen, tw);
        h = probe.impz();
    } catch (const std::exception& e) {
        out.fail("C14:hilbertfilter-ctor-throws", hf_json(flen, tw, 0, 0, 0, -1, 0, 0, none));
        vh::unwatch();
        vh::clear_current();
        return;
    }
    ++out.n_oracle;
    out.stat(flen % 2 ? "hf_odd_request" : "hf_even_request");
    if (h.size() != M) { out.fail("C14:hilbertfilter-length", hf_json(flen, tw, 0, 0, 0, h.size(), 0, 0, none)); vh::unwatch(); vh::clear_current(); return; }
    if (emit_design) out.corr("hfd " + std::to_string(flen) + " " + vh::hx(tw), vh::hxs(h));
    const int D = M / 2;
    const double fmin = std::max(2 * tw, 6.0 / M), fmax = 0.5 - fmin;
    // ---- (1) long-double frequency response of the taps on a dense grid of the stated band (edges included)
    {
        ld w = 0;
        double wf = fmin;
        for (int g = 0; g <= ngrid; ++g) {
            const double f = g == ngrid ? fmax : fmin + (fmax - fmin) * (double(g) / ngrid);
            ld hr = 0, hi = 0;
            for (int k = 0; k < M; ++k) {
                const ld a = 2 * PIL * (ld)f * (k - D);   // delay removed: H(f) e^{+2 pi i f D}
                hr += (ld)h[k] * cosl(a);
                hi -= (ld)h[k] * sinl(a);
            }
            // expected -i
            const ld e = hypotl(hr, hi + 1);
            if (!(e <= w)) { w = e; wf = f; }
            ++out.n_oracle;
        }
        worst("hf_response", w / 1e-3L);
        if (!(w <= 1e-3L)) out.fail("C14:hilbertfilter-response", hf_json(flen, tw, wf, 1, 0, -1, w, 1e-3L, none));
    }
    // ---- (2) tones through process(): real part = delayed input (bit exact), imag part = tone shifted by 90 degrees
    for (int j = 0; j < ntones; ++j) {
        double f;
        if (j == 0) f = fmin;
        else if (j == 1) f = fmax;
        else if (j == 2) f = 0.25;
        else if (j % 2) f = fmin + (fmax - fmin) * rng.unit();
        else f = std::round((fmin + (fmax - fmin) * rng.unit()) * 64) / 64;   // on a coarse "bin centre" grid
        if (f < fmin) f = fmin;
        if (f > fmax) f = fmax;
        const double A = (j % 3 == 0) ? 1.0 : std::pow(10.0, rng.range(-3, 3)) * (0.5 + rng.unit());
        const double ph = 6.283185307179586 * rng.unit();
        const int L = 2 * M + rng.range(8, 200);
        arr_real x(L);
        for (int t = 0; t < L; ++t) {
            ld cyc = (ld)f * t;
            cyc -= floorl(cyc);
            x[t] = double((ld)A * cosl(2 * PIL * cyc + (ld)ph));
        }
        const auto lens = (j % 2) ? gen_cuts(rng, L, rng.range(2, 6)) : std::vector<int>{L};
        vh::set_current("C14:hilbertfilter-crash", hf_json(flen, tw, f, A, ph, -1, 0, 0, lens));
        HilbertFilter flt(flen, tw);
        arr_cmplx y(L);
        std::string o;
        int p = 0;
        bool sizes_ok = true;
        for (int l : lens) {
            const arr_cmplx yy = flt.process(sub(x, p, l));
            if (yy.size() != l) { sizes_ok = false; break; }
            for (int i = 0; i < l; ++i) y[p + i] = yy[i];
            if (emit_proc && j < 2) o += (o.empty() ? "" : " ") + vh::hxs(yy);
            p += l;
        }
        ++out.n_oracle;
        if (!sizes_ok) { out.fail("C14:hilbertfilter-size", hf_json(flen, tw, f, A, ph, -1, 0, 0, lens)); continue; }
        if (emit_proc && j < 2) out.corr("hfp " + vh::hxs(h) + " " + frames_str(x, lens), o);
        // real part: x delayed by D, exactly
        for (int t = 0; t < L; ++t) {
            const double e = t < D ? 0.0 : x[t - D];
            if (!(y[t].re == e)) { out.fail("C14:hilbertfilter-delay", hf_json(flen, tw, f, A, ph, t, fabsl((ld)y[t].re - e), 0, lens)); break; }
        }
        // imaginary part once the filter is full
        ld w = 0;
        int wi = M - 1;
        for (int t = M - 1; t < L; ++t) {
            ld cyc = (ld)f * (t - D);
            cyc -= floorl(cyc);
            const ld e = fabsl((ld)y[t].im - (ld)A * sinl(2 * PIL * cyc + (ld)ph));
            if (!(e <= w)) { w = e; wi = t; }
        }
        const ld bound = 1e-3L * A;
        worst("hf_tone", w / bound);
        out.stat("hf_tones");
        if (std::fabs(f - fmin) < 1e-12 || std::fabs(f - fmax) < 1e-12) out.stat("hf_tones_at_band_edge");
        if (!(w <= bound)) out.fail("C14:hilbertfilter-quadrature", hf_json(flen, tw, f, A, ph, wi, w, bound, lens));
    }
    vh::unwatch();
    vh::clear_current();
    out.stat("hf_filters");
}

static void run_hf(bool thorough, vh::Rng& rng) {
    const double tws[] = {0.005, 0.0075, 0.01, 0.015, 0.02, 0.03, 0.05, 0.075, 0.1};
    std::vector<int> flens;
    if (thorough) { for (int f = 31; f <= 401; ++f) flens.push_back(f); }
    else {
        const int v[] = {31, 32, 33, 40, 51, 52, 63, 64, 65, 100, 101, 127, 128, 150, 199, 200, 255, 256, 257, 300, 333, 400, 401};
        flens.assign(v, v + sizeof v / sizeof v[0]);
        flens.push_back(rng.range(34, 399));
        flens.push_back(rng.range(34, 399));
    }
    int idx = 0;
    for (int flen : flens) {
        for (int ti = 0; ti < 9; ++ti) {
            if (!thorough && (ti + idx) % 3 != 0 && ti != 0 && ti != 8) continue;
            const bool small = flen <= 65;
            hf_filter(flen, tws[ti], thorough ? 10 : 6, thorough ? 240 : 96, (idx % (thorough ? 12 : 3) == 0) && (ti % 4 == idx % 4 || ti == 0),
                      small && (ti == (idx % 9)), rng);
        }
        // a random transition width in [0.005, 0.1]
        hf_filter(flen, 0.005 + 0.095 * rng.unit(), thorough ? 8 : 4, thorough ? 240 : 96, flen % 50 == 1, false, rng);
        ++idx;
    }
    // the constructor from taps: accepts type-3 taps only (CORR: the model reproduces the rejection)
    for (int j = 0; j < 6; ++j) {
        // 0: random (8)   1: random (9)   2: antisymmetric, odd length, centre 0 (the accepted kind)
        // 3: antisymmetric, even length   4: symmetric, odd length   5: antisymmetric, odd length, centre 0.25
        const int nh = (j == 0 || j == 3) ? 8 : 9;
        arr_real h(nh);
        for (int i = 0; i < nh; ++i) h[i] = rng.gauss();
        if (j == 2 || j == 3 || j == 5) for (int i = 0; i < nh / 2; ++i) h[nh - 1 - i] = -h[i];
        if (j == 4) for (int i = 0; i < nh / 2; ++i) h[nh - 1 - i] = h[i];
        if (j == 2) h[nh / 2] = 0.0;
        if (j == 5) h[nh / 2] = 0.25;
        arr_real x(20);
        for (int i = 0; i < 20; ++i) x[i] = rng.gauss();
        std::string o;
        try {
            HilbertFilter flt(h);
            o = vh::hxs(flt.process(x));
            out.stat("hf_taps_ctor_accepted");
        } catch (const std::exception& e) { o = "ERR"; out.stat("hf_taps_ctor_rejected"); }
        out.corr("hfp " + vh::hxs(h) + " 1 " + vh::hxs(x), o);
    }
}

// =====================================================================================================
//                                               Tuner
// =====================================================================================================
static std::string tun_json(int fs, double f, long long total, const std::vector<int>& lens, long long k, ld err, ld bound) {
    std::ostringstream o;
    o << "{\"op\":\"Tuner\",\"fs\":" << fs << ",\"freq\":" << vh::jnum(f) << ",\"freq_bits\":\"" << vh::hx(f) << "\",\"samples\":" << total << ",\"frames\":";
    if (lens.size() <= 12) o << vh::jints(lens); else o << "\"" << lens.size() << " frames\"";
    o << ",\"index\":" << k << ",\"error\":" << vh::jnum((double)err) << ",\"bound\":" << vh::jnum((double)bound) << "}";
    return o.str();
}

static std::vector<int> tuner_frames(vh::Rng& r, int total, int fs, int mode) {
    std::vector<int> lens;
    if (mode == 0) { lens.push_back(total); return lens; }
    if (mode == 1) return gen_cuts(r, total, r.range(2, 7));
    // mode 2: frame lengths around fs and small ones, empty frames included
    int left = total;
    while (left > 0 && lens.size() < 4000) {
        const int pick = r.range(0, 7);
        int l = pick == 0 ? 0 : pick == 1 ? 1 : pick == 2 ? fs - 1 : pick == 3 ? fs : pick == 4 ? fs + 1 : pick == 5 ? r.range(1, std::max(1, fs / 3)) : r.range(1, 2 * fs);
        if (l > left) l = left;
        lens.push_back(l);
        left -= l;
    }
    if (left > 0) lens.push_back(left);
    return lens;
}

// selection of stream indices whose outputs go into a CORR line of a long stream (mirrored by the driver)
static inline bool tun_sel(long long k, long long total, int fs, int stride) {
    const long long m = k % fs;
    return k % stride == 0 || m == 0 || m == 1 || m == fs - 1 || k + 2 >= total;
}

static void tuner_case(int fs, double f, int total, int fmode, int corr_mode, vh::Rng& rng) {
    // corr_mode: 0 none, 1 explicit samples ("tunx"), 2 generated input + selected outputs ("tun")
    const uint64_t s = rng.next() % 1000000;
    arr_cmplx x(total);
    if (corr_mode == 2) { for (int k = 0; k < total; ++k) x[k] = cmplx_t{gen_re(k, s), gen_im(k, s)}; }
    else { for (int k = 0; k < total; ++k) x[k] = cmplx_t{rng.gauss(), rng.gauss()}; }
    const auto lens = tuner_frames(rng, total, fs, fmode);
    vh::set_current("C14:tuner-crash", tun_json(fs, f, total, lens, -1, 0, 0));
    vh::watch(120);
    const bool integral = f == std::floor(f);
    out.stat(integral ? "tuner_integer_f" : "tuner_fractional_f");
    std::string lens_s = std::to_string(lens.size());
    for (int l : lens) lens_s += " " + std::to_string(l);
    arr_cmplx y(total);
    bool threw = false;
    try {
        Tuner tn(fs, f);
        int p = 0;
        for (int l : lens) {
            const arr_cmplx yy = tn.process(sub(x, p, l));
            if (yy.size() != l) { out.fail("C14:tuner-size", tun_json(fs, f, total, lens, p, 0, 0)); vh::unwatch(); vh::clear_current(); return; }
            for (int i = 0; i < l; ++i) y[p + i] = yy[i];
            p += l;
        }
    } catch (const std::exception& e) { threw = true; }
    vh::unwatch();
    vh::clear_current();
    if (threw) {
        // the constructor rejects |f| > fs / 2 (integer division): not an admissible f; the model must reject it too
        out.stat("tuner_rejected_by_constructor");
        // admissible = |f| <= fs/2 as real numbers (the header: "freq - tune freq in range (-sample_rate/2 : sample_rate/2)", the property:
        // f in [-fs/2, fs/2]); an integer-division guard `_fs / 2` rejected floor(fs/2) < |f| <= fs/2 for odd fs (repaired in /repo bd73cae)
        if (std::fabs(f) <= fs / 2.0) {
            out.stat("tuner_rejected_inside_half_band");
            out.fail("C14:tuner-rejects-admissible-f", tun_json(fs, f, total, lens, -1, 0, 0));
        }
        if (corr_mode == 1) out.corr("tunx " + std::to_string(fs) + " " + vh::hx(f) + " " + frames_str(x, lens), "ERR");
        else if (corr_mode == 2) out.corr("tun " + std::to_string(fs) + " " + vh::hx(f) + " " + std::to_string(s) + " 1 " + lens_s, "ERR");
        return;
    }
    // ---- oracle: every sample against the definition
    ld w = 0;
    long long wk = 0;
    ld wb = 0;
    for (int k = 0; k < total; ++k) {
        ld cyc = (ld)f * (ld)k / (ld)fs;
        const ld phase_abs = 2 * PIL * fabsl(cyc);
        cyc -= floorl(cyc);
        const ld c = cosl(2 * PIL * cyc), sn = sinl(2 * PIL * cyc);
        const ld er = (ld)x[k].re * c - (ld)x[k].im * sn, ei = (ld)x[k].re * sn + (ld)x[k].im * c;
        const ld mag = hypotl((ld)x[k].re, (ld)x[k].im);
        const ld bound = mag * (1e-9L + 4 * EPS * phase_abs);
        const ld e = hypotl((ld)y[k].re - er, (ld)y[k].im - ei);
        if (mag > 0) { const ld ratio = e / bound; if (!(ratio <= w)) { w = ratio; wk = k; wb = bound; } }
        else if (!(e == 0)) { w = 2; wk = k; wb = 0; }
    }
    out.n_oracle += total;
    worst(integral ? "tuner_integer_f" : "tuner_fractional_f", w);
    maxstat("tuner_longest_stream_in_units_of_fs_x100", (long long)(100.0 * total / fs));
    if (!(w <= 1)) out.fail("C14:tuner", tun_json(fs, f, total, lens, wk, w * wb, wb));
    // ---- framing: a second object fed in one call must give the same bits
    if (lens.size() > 1) {
        Tuner t2(fs, f);
        const arr_cmplx y1 = t2.process(x);
        ++out.n_oracle;
        out.stat("tuner_framed_runs");
        for (int k = 0; k < total; ++k)
            if (std::memcmp(&y1[k], &y[k], sizeof(cmplx_t)) != 0) { out.fail("C14:tuner-framing", tun_json(fs, f, total, lens, k, 0, 0)); break; }
    }
    // ---- CORR
    if (corr_mode == 1) {
        std::string o;
        int p = 0;
        for (int l : lens) { o += (o.empty() ? "" : " ") + vh::hxs(sub(y, p, l)); p += l; }
        out.corr("tunx " + std::to_string(fs) + " " + vh::hx(f) + " " + frames_str(x, lens), o);
    } else if (corr_mode == 2) {
        const int stride = total <= 2048 ? 1 : std::max(1, total / 1500);
        std::string o;
        long long cnt = 0;
        for (int k = 0; k < total; ++k) if (tun_sel(k, total, fs, stride)) { o += " " + vh::hx(y[k].re) + " " + vh::hx(y[k].im); ++cnt; }
        out.corr("tun " + std::to_string(fs) + " " + vh::hx(f) + " " + std::to_string(s) + " " + std::to_string(stride) + " " + lens_s, std::to_string(cnt) + o);
    }
}

static void run_tuner(bool thorough, vh::Rng& rng) {
    std::vector<int> rates = {8, 9, 10, 11, 16, 25, 64, 100, 1000, 8000, 44100, 99999, 100000};
    const int nrand = thorough ? 110 : 12;
    for (int j = 0; j < nrand; ++j) rates.push_back(j % 3 == 0 ? rng.range(8, 200) : j % 3 == 1 ? rng.range(201, 20000) : rng.range(20001, 100000));
    long long big_budget = thorough ? 60 : 10;   // number of long CORR cases
    int idx = 0;
    for (int fs : rates) {
        const int half = fs / 2;
        std::vector<double> fr;
        // integer f
        fr.push_back(0.0);
        fr.push_back(1.0);
        fr.push_back(-1.0);
        fr.push_back(double(half));
        fr.push_back(-double(half));
        fr.push_back(double(rng.range(-half, half)));
        fr.push_back(double(rng.range(2, std::max(2, half))));
        // fractional f
        fr.push_back(0.5);
        fr.push_back(-0.5);
        fr.push_back(0.25);
        fr.push_back(half - 0.5);
        fr.push_back(-(half - 0.5));
        fr.push_back(1.0 / 3.0);
        fr.push_back(std::nextafter(1.0, 2.0));          // just not an integer
        fr.push_back(std::nextafter(double(half), 0.0)); // just below the largest admissible value
        fr.push_back(half * rng.sym());
        fr.push_back(half * rng.sym());
        fr.push_back(rng.sym());
        if (thorough) for (int j = 0; j < 6; ++j) fr.push_back(j % 2 ? half * rng.sym() : double(rng.range(-half, half)) + 0.5 * rng.coin());
        // boundary of admissibility: fs/2 as a real number for odd fs, and beyond
        fr.push_back(fs / 2.0);
        fr.push_back(-(fs / 2.0));
        fr.push_back(half + 1.0);
        fr.push_back(-(half + 0.75));
        int fi = 0;
        for (double f : fr) {
            // streams longer than several multiples of fs (3..6 fs, + a ragged tail), capped for the largest rates
            const int mult = fs <= 20000 ? rng.range(3, 6) : 3;
            const int total = mult * fs + rng.range(1, std::max(2, fs / 2));
            const int fmode = (fi + idx) % 3;
            int corr_mode = 0;
            if (total <= 700 && (fi % 2 == 0 || !thorough)) corr_mode = 1;
            else if (total <= 700) corr_mode = 2;
            else if (big_budget > 0 && ((fi + idx) % (thorough ? 5 : 9) == 0)) { corr_mode = 2; --big_budget; }
            else if (std::fabs(f) > half) corr_mode = 2;   // rejected by the constructor: cheap
            tuner_case(fs, f, total, fmode, corr_mode, rng);
            ++fi;
        }
        out.stat("tuner_rates");
        ++idx;
    }
}

int main(int argc, char** argv) {
    vh::Args a(argc, argv);
    vh::install_guards();
    g_seed = a.seed;
    vh::Rng rng(a.seed * 0x9e3779b97f4a7c15ULL + 14);
    const char* only = std::getenv("VERIF_PHASE");   // development aid: run a single phase
    if (!only || std::strchr(only, 'h')) run_hilbert(a.thorough, rng);
    if (!only || std::strchr(only, 'd')) run_delay(a.thorough, rng);
    if (!only || std::strchr(only, 'f')) run_hf(a.thorough, rng);
    if (!only || std::strchr(only, 't')) run_tuner(a.thorough, rng);
    out.finish();
    return 0;
}
