// C20 — Dynamics processors never amplify, follow their static curves, and settle.
//
// CORR   : Compressor / Limiter / NoiseGate / Agc objects are driven with framed signals; the Lean model
//          (Model/Dynamics.lean) recomputes gain, output and log-gain.  Tags comp / lim / gate / agcr / agcc.
// ORACLE : (A) gain in [0,1], out = x*gain, limiter ceiling on arbitrary 1e5-sample signals;
//          (B) smoothing: the smoothed gain (recovered from the emitted gain) moves monotonically towards the
//              long-double reference target with ratio exp(-ln 9/(fs t)); 10%..90% rise time = fs*t samples;
//          (C) static characteristic with attack = release = 0 against the documented piecewise curve in
//              long double: unity below, slope 1/R (0) above, continuous monotone knee (0.01 dB grid at the edges);
//          (D) AGC: constant-envelope input reaches the target power within 1 % when the required gain is below
//              max_gain; gain <= max_gain always.
#include "common.hpp"
#include <algorithm>
using namespace dsplib;
typedef long double LD;
static vh::Out out;
static const LD EPSL = 2.220446049250313080847263336181640625e-16L;   // dsplib::eps()
static const LD TOL_DB = 1e-9L;      // float<->real gap allowed on dB quantities (measurement)
static const LD TOL_REL = 1e-12L;    // ... on linear quantities

// ------------------------------------------------------------------------------------ parameters
struct CP { int fs; double T; int R; double W, ta, tr; };          // Compressor
struct LP { int fs; double T; double W, ta, tr; };                 // Limiter
struct GP { int fs; double T, ta, tr, th; };                       // NoiseGate
struct AP { double target, mg; int n; double trise, tfall; };      // Agc

static int pick_fs(vh::Rng& r) {
    static const int tab[] = {8000, 11025, 16000, 22050, 32000, 44100, 48000, 88200, 96000, 192000};
    return r.range(0, 3) == 0 ? r.range(8000, 192000) : tab[r.range(0, 9)];
}
static double pick(vh::Rng& r, double lo, double hi) {
    const int k = r.range(0, 9);
    if (k == 0) return lo;
    if (k == 1) return hi;
    if (k == 2) return std::round(lo + (hi - lo) * r.unit());   // integral values
    return lo + (hi - lo) * r.unit();
}
static double pick_time(vh::Rng& r) {
    const int k = r.range(0, 9);
    if (k == 0) return 0.0;
    if (k == 1) return 4.0;
    if (k == 2) return std::pow(10.0, -6 + 3 * r.unit());       // shorter than a sample
    return std::pow(10.0, -4 + (std::log10(4.0) + 4) * r.unit());
}
static CP rnd_cp(vh::Rng& r) { return {pick_fs(r), pick(r, -50, 0), r.range(0, 4) == 0 ? (r.coin() ? 1 : 50) : r.range(1, 50), pick(r, 0, 20), pick_time(r), pick_time(r)}; }
static LP rnd_lp(vh::Rng& r) { return {pick_fs(r), pick(r, -50, 0), pick(r, 0, 20), pick_time(r), pick_time(r)}; }
static GP rnd_gp(vh::Rng& r) { return {pick_fs(r), pick(r, -50, 0), pick_time(r), pick_time(r), r.range(0, 2) == 0 ? 0.0 : std::min(4.0, pick_time(r))}; }

static std::string js(const CP& p) {
    return "\"proc\":\"compressor\",\"fs\":" + std::to_string(p.fs) + ",\"threshold\":" + vh::jnum(p.T) + ",\"ratio\":" + std::to_string(p.R) +
           ",\"knee\":" + vh::jnum(p.W) + ",\"attack\":" + vh::jnum(p.ta) + ",\"release\":" + vh::jnum(p.tr);
}
static std::string js(const LP& p) {
    return "\"proc\":\"limiter\",\"fs\":" + std::to_string(p.fs) + ",\"threshold\":" + vh::jnum(p.T) + ",\"knee\":" + vh::jnum(p.W) +
           ",\"attack\":" + vh::jnum(p.ta) + ",\"release\":" + vh::jnum(p.tr);
}
static std::string js(const GP& p) {
    return "\"proc\":\"noisegate\",\"fs\":" + std::to_string(p.fs) + ",\"threshold\":" + vh::jnum(p.T) + ",\"attack\":" + vh::jnum(p.ta) +
           ",\"release\":" + vh::jnum(p.tr) + ",\"hold\":" + vh::jnum(p.th);
}
static std::string js(const AP& p) {
    return "\"proc\":\"agc\",\"target\":" + vh::jnum(p.target) + ",\"max_gain\":" + vh::jnum(p.mg) + ",\"average_len\":" + std::to_string(p.n) +
           ",\"t_rise\":" + vh::jnum(p.trise) + ",\"t_fall\":" + vh::jnum(p.tfall);
}

// ------------------------------------------------------------------------------------ signals
enum { SIG_NOISE, SIG_BURSTS, SIG_STEPS, SIG_SILENCE, SIG_SINE, SIG_TINY, SIG_MIX, SIG_KINDS };
static const char* SIG_NAME[] = {"noise", "bursts", "steps", "silence", "sine", "tiny", "mix"};

static void fill(vh::Rng& r, arr_real& x, int a, int b, int kind) {
    switch (kind) {
    case SIG_NOISE: {
        const double sc = std::pow(10.0, (-80 + 100 * r.unit()) / 20);
        for (int i = a; i < b; ++i) x[i] = sc * r.gauss();
    } break;
    case SIG_BURSTS: {
        int i = a;
        while (i < b) {
            const int gap = r.range(1, 4000), len = r.range(1, 3000);
            const double sc = std::pow(10.0, (-30 + 50 * r.unit()) / 20);
            for (int k = 0; k < gap && i < b; ++k, ++i) x[i] = r.range(0, 3) == 0 ? 0.0 : 1e-5 * r.sym();
            for (int k = 0; k < len && i < b; ++k, ++i) x[i] = sc * r.gauss();
        }
    } break;
    case SIG_STEPS: {
        int i = a;
        while (i < b) {
            const int len = r.range(1, 5000);
            const double lvl = std::pow(10.0, (-100 + 120 * r.unit()) / 20);
            const bool alt = r.coin();
            for (int k = 0; k < len && i < b; ++k, ++i) x[i] = (alt && (k & 1)) ? -lvl : lvl;
        }
    } break;
    case SIG_SILENCE:
        for (int i = a; i < b; ++i) x[i] = 0.0;
        if (b - a > 2 && r.coin()) x[a + r.range(0, b - a - 1)] = r.sym();   // a single click
        break;
    case SIG_SINE: {
        const double f = 0.0001 + 0.45 * r.unit(), am = 0.00001 + 0.001 * r.unit(), sc = std::pow(10.0, (-40 + 60 * r.unit()) / 20);
        for (int i = a; i < b; ++i) x[i] = sc * (0.55 + 0.45 * std::sin(6.283185307179586 * am * i)) * std::sin(6.283185307179586 * f * i);
    } break;
    case SIG_TINY:
        for (int i = a; i < b; ++i) x[i] = (r.coin() ? 4.9e-324 : 1e-300) * double(r.range(-3, 3));
        break;
    default: {
        int i = a;
        while (i < b) {
            const int len = std::min(b - i, r.range(1, 20000));
            fill(r, x, i, i + len, r.range(0, SIG_MIX - 1));
            i += len;
        }
    }
    }
}
static arr_real gen_signal(vh::Rng& r, int n, int kind) {
    arr_real x(n);
    fill(r, x, 0, n, kind);
    return x;
}

// split [0,n) into nf frames (some possibly empty)
static std::vector<arr_real> split_frames(vh::Rng& r, const arr_real& x, int nf) {
    std::vector<int> cut{0, x.size()};
    for (int k = 1; k < nf; ++k) cut.push_back(r.range(0, x.size()));
    std::sort(cut.begin(), cut.end());
    std::vector<arr_real> fr;
    for (size_t k = 0; k + 1 < cut.size(); ++k) {
        arr_real f(cut[k + 1] - cut[k]);
        for (int i = cut[k]; i < cut[k + 1]; ++i) f[i - cut[k]] = x[i];
        fr.push_back(f);
    }
    return fr;
}

// ------------------------------------------------------------------------------------ CORR helpers
static std::string hxs_dec(const arr_real& a, int dec) {
    if (dec <= 1) return vh::hxs(a);
    std::vector<double> v;
    for (int i = 0; i < a.size(); ++i) if (i % dec == 0 || i + 1 == a.size()) v.push_back(a[i]);
    std::string s = std::to_string(v.size());
    for (double d : v) { s += " "; s += vh::hx(d); }
    return s;
}
static std::string hxs_dec(const arr_cmplx& a, int dec) {
    if (dec <= 1) return vh::hxs(a);
    std::vector<cmplx_t> v;
    for (int i = 0; i < a.size(); ++i) if (i % dec == 0 || i + 1 == a.size()) v.push_back(a[i]);
    std::string s = std::to_string(v.size());
    for (auto d : v) { s += " "; s += vh::hx(d.re); s += " "; s += vh::hx(d.im); }
    return s;
}
static std::string frames_str(const std::vector<arr_real>& fr) {
    std::string s = std::to_string(fr.size());
    for (auto& f : fr) { s += " "; s += vh::hxs(f); }
    return s;
}
static std::string frames_str(const std::vector<arr_cmplx>& fr) {
    std::string s = std::to_string(fr.size());
    for (auto& f : fr) { s += " "; s += vh::hxs(f); }
    return s;
}
static arr_real map_log(const arr_real& g, bool db) {
    arr_real r(g.size());
    for (int i = 0; i < g.size(); ++i) r[i] = db ? 20 * std::log10(g[i]) : std::log(g[i]);
    return r;
}

// selectors: 0 = gain, 1 = out, 2 = gain in the log domain (dB for comp/lim, natural log for agc)
template<class MakeFn>
static void corr_real(const std::string& head, MakeFn make, const std::vector<arr_real>& frames, int dec, int selmask, bool db,
                      const std::string& key, const std::string& json) {
    std::string rhs[3];
    bool err = false;
    vh::set_current(key, json);
    try {
        auto proc = make();
        for (auto& f : frames) {
            auto r = proc.process(f);
            rhs[0] += (rhs[0].empty() ? "" : " ") + hxs_dec(r.gain, dec);
            rhs[1] += (rhs[1].empty() ? "" : " ") + hxs_dec(r.out, dec);
            rhs[2] += (rhs[2].empty() ? "" : " ") + hxs_dec(map_log(r.gain, db), dec);
        }
    } catch (const std::exception&) { err = true; }
    vh::clear_current();
    for (int sel = 0; sel < 3; ++sel)
        if (selmask & (1 << sel))
            out.corr(head + " " + std::to_string(dec) + " " + std::to_string(sel) + " " + frames_str(frames), err ? "ERR" : rhs[sel]);
    out.stat(err ? "corr_ctor_throws" : "corr_ctor_ok");
}

static std::string head(const CP& p) { return "comp " + std::to_string(p.fs) + " " + vh::hx(p.T) + " " + std::to_string(p.R) + " " + vh::hx(p.W) + " " + vh::hx(p.ta) + " " + vh::hx(p.tr); }
static std::string head(const LP& p) { return "lim " + std::to_string(p.fs) + " " + vh::hx(p.T) + " " + vh::hx(p.W) + " " + vh::hx(p.ta) + " " + vh::hx(p.tr); }
static std::string head(const GP& p) { return "gate " + std::to_string(p.fs) + " " + vh::hx(p.T) + " " + vh::hx(p.ta) + " " + vh::hx(p.tr) + " " + vh::hx(p.th); }
static std::string head(const AP& p, bool c) { return std::string(c ? "agcc " : "agcr ") + vh::hx(p.target) + " " + vh::hx(p.mg) + " " + std::to_string(p.n) + " " + vh::hx(p.trise) + " " + vh::hx(p.tfall); }

static void corr_comp(const CP& p, const std::vector<arr_real>& fr, int dec, int mask) {
    corr_real(head(p), [&] { return Compressor(p.fs, p.T, p.R, p.W, p.ta, p.tr); }, fr, dec, mask, true, "C20:crash:compressor", "{" + js(p) + "}");
}
static void corr_lim(const LP& p, const std::vector<arr_real>& fr, int dec, int mask) {
    corr_real(head(p), [&] { return Limiter(p.fs, p.T, p.W, p.ta, p.tr); }, fr, dec, mask, true, "C20:crash:limiter", "{" + js(p) + "}");
}
static void corr_gate(const GP& p, const std::vector<arr_real>& fr, int dec) {
    corr_real(head(p), [&] { return NoiseGate(p.fs, p.T, p.ta, p.tr, p.th); }, fr, dec, 3, true, "C20:crash:noisegate", "{" + js(p) + "}");
}
static void corr_agc_r(const AP& p, const std::vector<arr_real>& fr, int dec, int mask) {
    corr_real(head(p, false), [&] { return Agc(p.target, p.mg, p.n, p.trise, p.tfall); }, fr, dec, mask, false, "C20:crash:agc", "{" + js(p) + "}");
}
static void corr_agc_c(const AP& p, const std::vector<arr_cmplx>& frames, int dec, int selmask) {
    std::string rhs[3];
    bool err = false;
    vh::set_current("C20:crash:agc", "{" + js(p) + "}");
    try {
        Agc proc(p.target, p.mg, p.n, p.trise, p.tfall);
        for (auto& f : frames) {
            auto r = proc.process(f);
            rhs[0] += (rhs[0].empty() ? "" : " ") + hxs_dec(r.gain, dec);
            rhs[1] += (rhs[1].empty() ? "" : " ") + hxs_dec(r.out, dec);
            rhs[2] += (rhs[2].empty() ? "" : " ") + hxs_dec(map_log(r.gain, false), dec);
        }
    } catch (const std::exception&) { err = true; }
    vh::clear_current();
    for (int sel = 0; sel < 3; ++sel)
        if (selmask & (1 << sel))
            out.corr(head(p, true) + " " + std::to_string(dec) + " " + std::to_string(sel) + " " + frames_str(frames), err ? "ERR" : rhs[sel]);
}

// short signal for CORR: levels spread over the whole characteristic, incl. the knee edges of (T, W)
static arr_real corr_signal(vh::Rng& r, int n, double T, double W) {
    arr_real x(n);
    for (int i = 0; i < n; ++i) {
        const int k = r.range(0, 11);
        double lvl;
        if (k == 0) { x[i] = 0.0; continue; }
        else if (k == 1) lvl = T - W / 2;
        else if (k == 2) lvl = T + W / 2;
        else if (k == 3) lvl = T;
        else if (k <= 6) lvl = T + (W / 2 + 0.5) * r.sym();   // in and around the knee
        else if (k <= 8) lvl = T + W / 2 + 40 * r.unit();      // above
        else lvl = -100 + 120 * r.unit();
        double v = std::pow(10.0, lvl / 20);
        if (k <= 3 && r.coin()) v = std::nextafter(v, r.coin() ? 0.0 : 10.0);
        x[i] = r.coin() ? v : -v;
    }
    return x;
}

// ------------------------------------------------------------------------------------ references (long double)
// documented static characteristic; s = 1/ratio (compressor) or 0 (limiter)
static LD ref_curve(LD l, LD T, LD s, LD W) {
    if (2 * (l - T) < -W) return l;                 // l < T - W/2 : unity
    if (2 * (l - T) > W) return T + (l - T) * s;    // l > T + W/2 : slope s
    if (W == 0) return l;                            // l = T
    const LD y = l - T + W / 2;
    return l + (s - 1) * y * y / (2 * W);           // quadratic knee
}
static LD ref_coef(int fs, double t) { return t == 0 ? 0.0L : expl(-logl(9.0L) / (LD(fs) * LD(t))); }

struct DynStats { long long attack = 0, release = 0, below = 0, knee = 0, above = 0, gain_gt1 = 0; LD max_gain_excess = 0, max_tc_err = 0, max_ceiling_ratio = 0; };

// (A)+(B) on one processed signal of a compressor (s = 1/R) or limiter (s = 0)
static void check_dyn(const char* who, int fs, double T, LD s, double W, double ta, double tr, const arr_real& x, const arr_real& gain,
                      const arr_real& outv, LD& gs_prev, const std::string& json, DynStats& st, int base) {
    const LD wA = ref_coef(fs, ta), wR = ref_coef(fs, tr);
    const LD ceil_lin = powl(10.0L, LD(T) / 20);
    const std::string w = who;
    for (int i = 0; i < x.size(); ++i) {
        out.n_oracle++;
        const double g = gain[i];
        const std::string at = "{" + json + ",\"index\":" + std::to_string(base + i) + ",\"x\":" + vh::jnum(x[i]) + ",\"gain\":" + vh::jnum(g) + ",\"out\":" + vh::jnum(outv[i]) + "}";
        if (!(g >= 0 && LD(g) <= 1 + TOL_REL)) { out.fail("C20:gain-range:" + w, at); gs_prev = 0; continue; }
        if (g > 1) { st.gain_gt1++; st.max_gain_excess = std::max(st.max_gain_excess, LD(g) - 1); }
        if (!(outv[i] == x[i] * g)) out.fail("C20:out-not-x-times-gain:" + w, at);
        if (ta == 0) {
            const LD ratio = fabsl(LD(outv[i])) / ceil_lin;
            st.max_ceiling_ratio = std::max(st.max_ceiling_ratio, ratio);
            if (s == 0 && !(ratio <= 1 + TOL_REL)) out.fail("C20:limiter-ceiling", at);
        }
        if (g == 0) { out.fail("C20:gain-zero:" + w, at); gs_prev = 0; continue; }   // 10^(gs/20) cannot vanish for the levels generated
        const LD xl = 20 * log10l(fabsl(LD(x[i])) + EPSL);
        const LD gc = ref_curve(xl, T, s, W) - xl;
        const LD gs = 20 * log10l(LD(g));
        const LD d = gs - gc, dp = gs_prev - gc;
        const bool att = gc <= gs_prev;
        const LD wv = att ? wA : wR;
        (att ? st.attack : st.release)++;
        if (2 * (xl - T) < -W) st.below++; else if (2 * (xl - T) > W) st.above++; else st.knee++;
        if (fabsl(d) > fabsl(dp) + TOL_DB) out.fail("C20:smoothing-not-monotone:" + w, at);
        if ((dp > TOL_DB && d < -TOL_DB) || (dp < -TOL_DB && d > TOL_DB)) out.fail("C20:smoothing-overshoot:" + w, at);
        const LD e = fabsl(d - wv * dp);
        st.max_tc_err = std::max(st.max_tc_err, e);
        if (e > TOL_DB) out.fail("C20:smoothing-time-constant:" + w, at);
        gs_prev = gs;
    }
}

template<class P, class Make>
static void arbitrary_dyn(vh::Rng& r, const char* who, const P& p, LD s, Make make, int n, int kind, DynStats& st, int caseno) {
    const arr_real x = gen_signal(r, n, kind);
    const auto frames = split_frames(r, x, r.range(1, 5));
    const std::string json = js(p) + ",\"signal\":\"" + SIG_NAME[kind] + "\",\"n\":" + std::to_string(n) + ",\"case\":" + std::to_string(caseno);
    vh::set_current(std::string("C20:crash:") + who, "{" + json + "}");
    auto proc = make();
    LD gs_prev = 0;
    int base = 0;
    for (auto& f : frames) {
        auto res = proc.process(f);
        if (res.gain.size() != f.size() || res.out.size() != f.size()) { out.fail(std::string("C20:result-size:") + who, "{" + json + "}"); return; }
        check_dyn(who, p.fs, p.T, s, p.W, p.ta, p.tr, f, res.gain, res.out, gs_prev, json, st, base);
        base += f.size();
    }
    vh::clear_current();
    out.stat(std::string("oracle_signal_") + SIG_NAME[kind]);
}

static void arbitrary_gate(vh::Rng& r, const GP& p, int n, int kind, int caseno) {
    const arr_real x = gen_signal(r, n, kind);
    const auto frames = split_frames(r, x, r.range(1, 5));
    const std::string json = js(p) + ",\"signal\":\"" + SIG_NAME[kind] + "\",\"n\":" + std::to_string(n) + ",\"case\":" + std::to_string(caseno);
    vh::set_current("C20:crash:noisegate", "{" + json + "}");
    NoiseGate proc(p.fs, p.T, p.ta, p.tr, p.th);
    int base = 0;
    long long open = 0, closed = 0, moving = 0;
    for (auto& f : frames) {
        auto res = proc.process(f);
        for (int i = 0; i < f.size(); ++i) {
            out.n_oracle++;
            const double g = res.gain[i];
            const std::string at = "{" + json + ",\"index\":" + std::to_string(base + i) + ",\"x\":" + vh::jnum(f[i]) + ",\"gain\":" + vh::jnum(g) + "}";
            if (!(g >= 0 && LD(g) <= 1 + TOL_REL)) out.fail("C20:gain-range:noisegate", at);
            if (!(res.out[i] == f[i] * g)) out.fail("C20:out-not-x-times-gain:noisegate", at);
            if (g == 1) ++open; else if (g == 0) ++closed; else ++moving;
        }
        base += f.size();
    }
    vh::clear_current();
    out.stat("gate_samples_open", open);
    out.stat("gate_samples_closed", closed);
    out.stat("gate_samples_moving", moving);
}

// (B') 10 % .. 90 % rise / fall time of the smoothed gain on a level step = attack / release time
template<class Make>
static void rise_time(const char* who, int fs, double T, double ta, double tr, Make make, const std::string& json) {
    const double na = fs * ta, nr = fs * tr;
    if (na < 8 || nr < 8 || na + nr > 70000) return;
    const int La = int(std::ceil(3.5 * na)) + 16, Lr = int(std::ceil(3.5 * nr)) + 16;
    arr_real x(La + Lr);
    const double loud = std::pow(10.0, (T + 20) / 20);   // 20 dB over the threshold (threshold <= 0)
    for (int i = 0; i < La; ++i) x[i] = (i & 1) ? -loud : loud;
    for (int i = La; i < La + Lr; ++i) x[i] = 0;
    auto proc = make();
    auto res = proc.process(x);
    std::vector<LD> gs(x.size());
    for (int i = 0; i < x.size(); ++i) gs[i] = 20 * log10l(LD(res.gain[i]));
    const LD xl = 20 * log10l(LD(loud) + EPSL);
    (void)xl;
    // attack: gs falls from 0 towards G (< 0); G is estimated from the reference curve, not from the run
    // (the caller passes processors with a non-trivial reduction at +20 dB)
    const LD G = gs[La - 1] / (1 - powl(ref_coef(fs, ta), La));   // asymptote consistent with the observed end value
    if (!(G < -0.5L)) { out.stat("rise_skipped_no_reduction"); return; }
    int i10 = -1, i90 = -1;
    for (int i = 0; i < La; ++i) {
        if (i10 < 0 && gs[i] <= 0.1L * G) i10 = i;
        if (i90 < 0 && gs[i] <= 0.9L * G) { i90 = i; break; }
    }
    out.n_oracle++;
    if (i10 < 0 || i90 < 0 || fabsl(LD(i90 - i10) - na) > 2)
        out.fail(std::string("C20:attack-time:") + who, "{" + json + ",\"expected_samples\":" + vh::jnum(na) + ",\"i10\":" + std::to_string(i10) + ",\"i90\":" + std::to_string(i90) + "}");
    // release: gs rises from g0 towards 0
    const LD g0 = gs[La - 1];
    int j10 = -1, j90 = -1;
    for (int i = La; i < La + Lr; ++i) {
        if (j10 < 0 && gs[i] >= 0.9L * g0) j10 = i;
        if (j90 < 0 && gs[i] >= 0.1L * g0) { j90 = i; break; }
    }
    out.n_oracle++;
    if (j10 < 0 || j90 < 0 || fabsl(LD(j90 - j10) - nr) > 2)
        out.fail(std::string("C20:release-time:") + who, "{" + json + ",\"expected_samples\":" + vh::jnum(nr) + ",\"j10\":" + std::to_string(j10) + ",\"j90\":" + std::to_string(j90) + "}");
    out.stat("rise_time_checks");
}

// (C) static characteristic, attack = release = 0
struct CurveStats { LD max_err = 0, max_step_excess = 0; long long pts = 0; };
template<class Make>
static void static_curve(vh::Rng& r, const char* who, double T, LD s, double W, Make make, const std::string& json, bool dense, CurveStats& cs) {
    std::vector<double> xs;
    const double cstep = dense ? 0.25 : 1.0;
    for (double l = -100; l <= 20.0001; l += cstep) xs.push_back(std::pow(10.0, l / 20));
    for (int e = -1; e <= 1; e += 2) {
        const double edge = T + e * W / 2;
        for (int k = -100; k <= 100; ++k) xs.push_back(std::pow(10.0, (edge + 0.01 * k) / 20));
        double v = std::pow(10.0, edge / 20);
        double lo = v, hi = v;
        for (int k = 0; k < 4; ++k) { lo = std::nextafter(lo, 0.0); hi = std::nextafter(hi, 100.0); xs.push_back(lo); xs.push_back(hi); }
    }
    // random order, random signs: with zero attack and release the processor is memoryless
    for (size_t i = xs.size(); i > 1; --i) std::swap(xs[i - 1], xs[r.range(0, int(i) - 1)]);
    arr_real x(int(xs.size()));
    for (int i = 0; i < x.size(); ++i) x[i] = r.coin() ? xs[i] : -xs[i];
    vh::set_current(std::string("C20:crash:static:") + who, "{" + json + "}");
    auto proc = make();
    auto res = proc.process(x);
    vh::clear_current();
    struct Pt { LD lin, lout; double x, o; };
    std::vector<Pt> pts(x.size());
    for (int i = 0; i < x.size(); ++i) pts[i] = {20 * log10l(fabsl(LD(x[i]))), 20 * log10l(fabsl(LD(res.out[i]))), x[i], res.out[i]};
    std::sort(pts.begin(), pts.end(), [](const Pt& a, const Pt& b) { return a.lin < b.lin; });
    const std::string w = who;
    for (size_t i = 0; i < pts.size(); ++i) {
        out.n_oracle++;
        cs.pts++;
        const Pt& p = pts[i];
        const std::string at = "{" + json + ",\"x\":" + vh::jnum(p.x) + ",\"out\":" + vh::jnum(p.o) + ",\"in_db\":" + vh::jnum(double(p.lin)) + ",\"out_db\":" + vh::jnum(double(p.lout)) +
                               ",\"expected_db\":" + vh::jnum(double(ref_curve(p.lin, T, s, W))) + "}";
        const LD err = fabsl(p.lout - ref_curve(p.lin, T, s, W));
        cs.max_err = std::max(cs.max_err, err);
        if (!(err <= 1e-8L)) out.fail("C20:static-curve:" + w, at);
        if (2 * (p.lin - T) < -W - 1e-8L && !(p.o == p.x)) out.fail("C20:static-unity-below:" + w, at);
        if ((p.o > 0) != (p.x > 0)) out.fail("C20:static-sign:" + w, at);
        if (i + 1 < pts.size()) {
            const Pt& q = pts[i + 1];
            const LD din = q.lin - p.lin, dout = q.lout - p.lout;
            const std::string at2 = "{" + json + ",\"x0\":" + vh::jnum(p.x) + ",\"x1\":" + vh::jnum(q.x) + ",\"in_db\":[" + vh::jnum(double(p.lin)) + "," + vh::jnum(double(q.lin)) + "],\"out_db\":[" +
                                    vh::jnum(double(p.lout)) + "," + vh::jnum(double(q.lout)) + "]}";
            // monotone, never steeper than unity (no jump beyond the grid step), never flatter than 1/R
            if (!(dout >= s * din - TOL_DB && dout <= din + TOL_DB)) out.fail("C20:static-monotone-continuous:" + w, at2);
            cs.max_step_excess = std::max(cs.max_step_excess, dout - din);
            if (2 * (p.lin - T) > W + 1e-8L && !(fabsl(dout - s * din) <= TOL_DB)) out.fail("C20:static-slope-above:" + w, at2);
        }
    }
}

// (D) AGC on a constant-envelope input
struct AgcStats { LD worst_level_err = 0, worst_gain_ratio = 0; long long converge = 0, capped = 0; };
static void agc_case(vh::Rng& r, const AP& p, double amp, bool cplx, AgcStats& st) {
    const LD pin = LD(amp) * LD(amp);
    const LD req_db = 10 * log10l(LD(p.target) / pin);   // required amplitude gain in dB
    const LD gmax = powl(10.0L, LD(p.mg) / 20);
    const double tmin = std::min(p.trise, p.tfall);
    const int settle = int(std::ceil(12.0 / (2 * tmin))) + 200;
    const int n = p.n + settle;
    const std::string json = js(p) + ",\"amplitude\":" + vh::jnum(amp) + ",\"complex\":" + (cplx ? "true" : "false") + ",\"n\":" + std::to_string(n) +
                             ",\"required_gain_db\":" + vh::jnum(double(req_db));
    vh::set_current("C20:crash:agc", "{" + json + "}");
    Agc agc(p.target, p.mg, p.n, p.trise, p.tfall);
    arr_real gain;
    std::vector<LD> pout(n);
    const int nf = r.range(1, 3);
    if (cplx) {
        arr_cmplx x(n);
        for (int i = 0; i < n; ++i) { const double ph = 6.283185307179586 * r.unit(); x[i] = cmplx_t{amp * std::cos(ph), amp * std::sin(ph)}; }
        // frames: state must persist across calls
        arr_cmplx o(n);
        gain = arr_real(n);
        int a = 0;
        for (int k = 0; k < nf; ++k) {
            const int b = (k + 1 == nf) ? n : std::min(n, a + r.range(0, n));
            arr_cmplx f(b - a);
            for (int i = a; i < b; ++i) f[i - a] = x[i];
            auto res = agc.process(f);
            for (int i = a; i < b; ++i) { o[i] = res.out[i - a]; gain[i] = res.gain[i - a]; }
            a = b;
        }
        for (int i = 0; i < n; ++i) pout[i] = LD(o[i].re) * o[i].re + LD(o[i].im) * o[i].im;
    } else {
        arr_real x(n), o(n);
        for (int i = 0; i < n; ++i) x[i] = r.coin() ? amp : -amp;
        gain = arr_real(n);
        int a = 0;
        for (int k = 0; k < nf; ++k) {
            const int b = (k + 1 == nf) ? n : std::min(n, a + r.range(0, n));
            arr_real f(b - a);
            for (int i = a; i < b; ++i) f[i - a] = x[i];
            auto res = agc.process(f);
            for (int i = a; i < b; ++i) { o[i] = res.out[i - a]; gain[i] = res.gain[i - a]; }
            a = b;
        }
        for (int i = 0; i < n; ++i) pout[i] = LD(o[i]) * o[i];
    }
    vh::clear_current();
    for (int i = 0; i < n; ++i) {
        out.n_oracle++;
        const LD ratio = LD(gain[i]) / gmax;
        st.worst_gain_ratio = std::max(st.worst_gain_ratio, ratio);
        if (!(gain[i] > 0 && ratio <= 1 + TOL_REL)) {
            out.fail("C20:agc-gain-exceeds-max", "{" + json + ",\"index\":" + std::to_string(i) + ",\"gain\":" + vh::jnum(gain[i]) + ",\"max_gain_lin\":" + vh::jnum(double(gmax)) + "}");
            break;
        }
    }
    if (req_db < LD(p.mg) - 0.25L) {
        st.converge++;
        for (int i = n - 100; i < n; ++i) {
            const LD rel = pout[i] / LD(p.target);
            st.worst_level_err = std::max(st.worst_level_err, fabsl(rel - 1));
            if (!(rel >= 0.99L && rel <= 1.01L)) {
                out.fail("C20:agc-level", "{" + json + ",\"index\":" + std::to_string(i) + ",\"out_power\":" + vh::jnum(double(pout[i])) + "}");
                break;
            }
        }
    } else if (req_db > LD(p.mg) + 0.25L) {
        st.capped++;
        // informative: the gain sits at the cap
        if (fabsl(LD(gain[n - 1]) / gmax - 1) > 1e-9L) out.stat("agc_capped_but_below_cap");
    } else out.stat("agc_borderline_skipped");
}

// ------------------------------------------------------------------------------------ main
int main(int argc, char** argv) {
    vh::Args a(argc, argv);
    vh::install_guards();
    vh::Rng rng(a.seed * 1000003ULL + 20);   // (not a multiple of the splitmix increment: streams of different seeds do not overlap)
    vh::watch(a.thorough ? 3000 : 600);
    const bool th = a.thorough;

    // ============================================================ CORR
    {
        const int NC = th ? 1500 : 250;
        for (int c = 0; c < NC; ++c) {
            {   // compressor
                CP p = rnd_cp(rng);
                if (c % 3 == 0) { p.ta = 0; p.tr = c % 2 ? 0 : p.tr; }
                const arr_real x = corr_signal(rng, rng.range(0, 40), p.T, p.W);
                corr_comp(p, split_frames(rng, x, rng.range(1, 3)), 1, 7);
            }
            {   // limiter
                LP p = rnd_lp(rng);
                if (c % 3 == 0) p.ta = 0;
                const arr_real x = corr_signal(rng, rng.range(0, 40), p.T, p.W);
                corr_lim(p, split_frames(rng, x, rng.range(1, 3)), 1, 7);
            }
            {   // noise gate: samples exactly at / next to the linear threshold, short holds
                GP p = rnd_gp(rng);
                if (c % 2 == 0) p.th = rng.range(0, 6) / double(p.fs) + (rng.coin() ? 0.0 : 0.5 / p.fs);
                if (c % 4 == 0) { p.ta = std::pow(10.0, -5 + 2 * rng.unit()); p.tr = std::pow(10.0, -5 + 2 * rng.unit()); }
                const double tl = db2mag(p.T);
                const int n = rng.range(0, 60);
                arr_real x(n);
                bool loud = rng.coin();
                for (int i = 0; i < n; ++i) {
                    if (rng.range(0, 5) == 0) loud = !loud;
                    const int k = rng.range(0, 9);
                    double v = k == 0 ? tl : k == 1 ? std::nextafter(tl, 0.0) : k == 2 ? std::nextafter(tl, 2.0) : loud ? tl * (1 + 3 * rng.unit()) : tl * rng.unit();
                    if (k == 3) v = 0;
                    x[i] = rng.coin() ? v : -v;
                }
                corr_gate(p, split_frames(rng, x, rng.range(1, 3)), 1);
            }
            {   // agc
                AP p{std::pow(10.0, -2 + 4 * rng.unit()), rng.range(0, 3) == 0 ? 60.0 : 5 + 75 * rng.unit(), 1, 0.01, 0.01};
                const int k = rng.range(0, 9);
                p.n = k == 0 ? 1 : k == 1 ? 2 : k == 2 ? 1000 : k <= 5 ? rng.range(1, 12) : rng.range(1, 1000);
                if (rng.range(0, 2) == 0) { p.trise = std::pow(10.0, -3 + 2.5 * rng.unit()); p.tfall = std::pow(10.0, -3 + 2.5 * rng.unit()); }
                const int n = (p.n <= 12 ? rng.range(0, 5 * p.n + 8) : rng.range(0, 40)) + (c % 50 == 0 ? p.n : 0);
                const double amp = std::pow(10.0, (-60 + 80 * rng.unit()) / 20);
                if (c % 2 == 0) {
                    arr_real x(n);
                    for (int i = 0; i < n; ++i) x[i] = (rng.range(0, 7) == 0 ? 0.0 : amp) * (rng.range(0, 3) == 0 ? rng.gauss() : (rng.coin() ? 1.0 : -1.0));
                    corr_agc_r(p, split_frames(rng, x, rng.range(1, 3)), 1, 7);
                } else {
                    arr_cmplx x(n);
                    for (int i = 0; i < n; ++i) { const double ph = 6.283185307179586 * rng.unit(); const double m = rng.range(0, 3) == 0 ? amp * rng.unit() : amp; x[i] = cmplx_t{m * std::cos(ph), m * std::sin(ph)}; }
                    std::vector<arr_cmplx> fr;
                    const int cut = rng.range(0, n);
                    arr_cmplx f1(cut), f2(n - cut);
                    for (int i = 0; i < cut; ++i) f1[i] = x[i];
                    for (int i = cut; i < n; ++i) f2[i - cut] = x[i];
                    fr.push_back(f1); fr.push_back(f2);
                    corr_agc_c(p, fr, 1, 7);
                }
            }
        }
        // constructor guards: boundary values accepted, just outside rejected (ERR)
        {
            const arr_real x = corr_signal(rng, 6, -10, 4);
            const std::vector<arr_real> fr{x};
            const double nan = std::nan("");
            const double Ts[] = {-50, 0, -50.000001, 1e-9, nan, -25};
            const int Rs[] = {1, 50, 0, 51, -3, 5};
            const double Ws[] = {0, 20, -1e-9, 20.000001, nan, 3};
            const double ts[] = {0, 4, -1e-9, 4.000001, nan, 0.01};
            for (double T : Ts) corr_comp({44100, T, 5, 2, 0.01, 0.2}, fr, 1, 1), corr_lim({44100, T, 2, 0, 0.2}, fr, 1, 1), corr_gate({44100, T, 0.05, 0.02, 0.001}, fr, 1);
            for (int R : Rs) corr_comp({44100, -10, R, 2, 0.01, 0.2}, fr, 1, 1);
            for (double W : Ws) corr_comp({44100, -10, 5, W, 0.01, 0.2}, fr, 1, 1), corr_lim({44100, -10, W, 0, 0.2}, fr, 1, 1);
            for (double t : ts) {
                corr_comp({44100, -10, 5, 2, t, 0.2}, fr, 1, 1), corr_comp({44100, -10, 5, 2, 0.01, t}, fr, 1, 1);
                corr_lim({44100, -10, 2, t, 0.2}, fr, 1, 1), corr_lim({44100, -10, 2, 0, t}, fr, 1, 1);
                corr_gate({44100, -10, t, 0.02, 0.001}, fr, 1), corr_gate({44100, -10, 0.05, t, 0.001}, fr, 1), corr_gate({44100, -10, 0.05, 0.02, t > 1 ? t : t / 100}, fr, 1);
            }
            corr_gate({44100, -140, 0.05, 0.02, 0.0}, fr, 1);
            corr_gate({44100, -140.001, 0.05, 0.02, 0.0}, fr, 1);
            for (int n : {1, 0, -1, 3}) corr_agc_r({1.0, 60.0, n, 0.01, 0.01}, fr, 1, 1);
            // default-constructed objects = documented defaults
            corr_comp({44100, -10.0, 5, 0, 0.01, 0.2}, fr, 1, 7);
            corr_lim({44100, -10.0, 0, 0, 0.2}, fr, 1, 7);
            corr_gate({44100, -10.0, 0.05, 0.02, 0.05}, fr, 1);
            corr_agc_r({1, 60.0, 100, 0.01, 0.01}, fr, 1, 7);
        }
        // extreme finite amplitudes
        {
            arr_real x(8);
            const double v[] = {1e300, -1e300, 1.7976931348623157e308, 4.9e-324, -2.2250738585072014e-308, 1e-200, 1e150, 0.0};
            for (int i = 0; i < 8; ++i) x[i] = v[i];
            corr_comp({48000, -20, 4, 6, 0.0, 0.0}, {x}, 1, 5);
            corr_comp({48000, -20, 50, 20, 0.001, 0.1}, {x}, 1, 5);
            corr_lim({48000, -20, 6, 0.0, 0.0}, {x}, 1, 5);
            corr_lim({48000, 0, 0, 0.0, 0.01}, {x}, 1, 5);
            corr_gate({48000, -20, 0.001, 0.001, 0.0}, {x}, 1);
        }
        // long signals, decimated outputs
        const int NL = th ? 12 : 3;
        for (int c = 0; c < NL; ++c) {
            const int n = 20000;
            const int kind = c % SIG_KINDS;
            {
                CP p = rnd_cp(rng);
                if (c % 2) { p.ta = std::pow(10.0, -4 + 2 * rng.unit()); p.tr = std::pow(10.0, -3 + 2 * rng.unit()); }
                corr_comp(p, split_frames(rng, gen_signal(rng, n, kind), 3), 97, 5);
            }
            {
                LP p = rnd_lp(rng);
                if (c % 2) { p.ta = 0; p.tr = std::pow(10.0, -3 + 2 * rng.unit()); }
                corr_lim(p, split_frames(rng, gen_signal(rng, n, kind), 3), 97, 5);
            }
            {
                GP p = rnd_gp(rng);
                p.T = -40 + 30 * rng.unit(); p.ta = std::pow(10.0, -4 + 2 * rng.unit()); p.tr = std::pow(10.0, -4 + 2 * rng.unit()); p.th = 0.002 * rng.unit();
                corr_gate(p, split_frames(rng, gen_signal(rng, n, c % 2 ? SIG_BURSTS : kind), 3), 97);
            }
            {
                AP p{std::pow(10.0, -2 + 4 * rng.unit()), 60.0, c % 3 == 0 ? 1000 : rng.range(1, 1000), 0.01, 0.01};
                corr_agc_r(p, split_frames(rng, gen_signal(rng, n, c % 2 ? SIG_NOISE : SIG_STEPS), 3), 97, 5);
            }
        }
    }

    // ============================================================ ORACLE (A)(B): arbitrary signals
    {
        const int NA = th ? 60 : 4;
        const int N = 100000;
        DynStats sc, sl;
        for (int c = 0; c < NA; ++c) {
            const int kind = c % SIG_KINDS;
            CP p = rnd_cp(rng);
            arbitrary_dyn(rng, "compressor", p, 1.0L / p.R, [&] { return Compressor(p.fs, p.T, p.R, p.W, p.ta, p.tr); }, N, kind, sc, c);
            LP q = rnd_lp(rng);
            if (c % 2 == 0) q.ta = 0;   // the ceiling clause
            arbitrary_dyn(rng, "limiter", q, 0.0L, [&] { return Limiter(q.fs, q.T, q.W, q.ta, q.tr); }, N, (kind + 1) % SIG_KINDS, sl, c);
            GP g = rnd_gp(rng);
            if (c % 2) { g.ta = std::pow(10.0, -4 + 2 * rng.unit()); g.tr = std::pow(10.0, -4 + 2 * rng.unit()); g.th = 0.01 * rng.unit(); }
            arbitrary_gate(rng, g, N, (kind + 2) % SIG_KINDS, c);
        }
        // shorter signals over many more parameter sets (incl. all corner combinations)
        const int NS = th ? 3000 : 300;
        for (int c = 0; c < NS; ++c) {
            CP p = rnd_cp(rng);
            if (c < 64) { p.T = (c & 1) ? 0 : -50; p.R = (c & 2) ? 50 : 1; p.W = (c & 4) ? 20 : 0; p.ta = (c & 8) ? 4 : 0; p.tr = (c & 16) ? 4 : 0; p.fs = (c & 32) ? 192000 : 8000; }
            arbitrary_dyn(rng, "compressor", p, 1.0L / p.R, [&] { return Compressor(p.fs, p.T, p.R, p.W, p.ta, p.tr); }, 3000, rng.range(0, SIG_KINDS - 1), sc, 1000 + c);
            LP q = rnd_lp(rng);
            if (c < 32) { q.T = (c & 1) ? 0 : -50; q.W = (c & 2) ? 20 : 0; q.ta = (c & 4) ? 4 : 0; q.tr = (c & 8) ? 4 : 0; q.fs = (c & 16) ? 192000 : 8000; }
            else if (c % 2 == 0) q.ta = 0;
            arbitrary_dyn(rng, "limiter", q, 0.0L, [&] { return Limiter(q.fs, q.T, q.W, q.ta, q.tr); }, 3000, rng.range(0, SIG_KINDS - 1), sl, 1000 + c);
            GP g = rnd_gp(rng);
            arbitrary_gate(rng, g, 3000, rng.range(0, SIG_KINDS - 1), 1000 + c);
        }
        out.stat("comp_attack_steps", sc.attack); out.stat("comp_release_steps", sc.release);
        out.stat("comp_level_below", sc.below); out.stat("comp_level_knee", sc.knee); out.stat("comp_level_above", sc.above);
        out.stat("lim_attack_steps", sl.attack); out.stat("lim_release_steps", sl.release);
        out.stat("lim_level_below", sl.below); out.stat("lim_level_knee", sl.knee); out.stat("lim_level_above", sl.above);
        out.stat("gain_above_one_by_rounding", sc.gain_gt1 + sl.gain_gt1);
        out.stat("max_gain_excess_e18", (long long)(std::max(sc.max_gain_excess, sl.max_gain_excess) * 1e18L));
        out.stat("max_smoothing_residual_db_e15", (long long)(std::max(sc.max_tc_err, sl.max_tc_err) * 1e15L));
        out.stat("limiter_max_out_over_ceiling_e15_minus1", (long long)((sl.max_ceiling_ratio - 1) * 1e15L));
    }

    // ============================================================ ORACLE (B'): rise / fall times
    {
        const int NR = th ? 200 : 24;
        for (int c = 0; c < NR; ++c) {
            const int fs = pick_fs(rng);
            const double ta = std::pow(10.0, std::log10(10.0 / fs) + rng.unit() * (std::log10(std::min(4.0, 30000.0 / fs)) - std::log10(10.0 / fs)));
            const double tr = std::pow(10.0, std::log10(10.0 / fs) + rng.unit() * (std::log10(std::min(4.0, 30000.0 / fs)) - std::log10(10.0 / fs)));
            const double T = pick(rng, -50, 0), W = pick(rng, 0, 20);
            const int R = rng.range(2, 50);
            const CP p{fs, T, R, W, ta, tr};
            rise_time("compressor", fs, T, ta, tr, [&] { return Compressor(fs, T, R, W, ta, tr); }, js(p));
            const LP q{fs, T, W, ta, tr};
            rise_time("limiter", fs, T, ta, tr, [&] { return Limiter(fs, T, W, ta, tr); }, js(q));
        }
        if (th) {   // the longest admitted time constant at the lowest rate
            const CP p{8000, -20, 4, 6, 4.0, 4.0};
            rise_time("compressor", 8000, -20, 4.0, 4.0, [&] { return Compressor(8000, -20, 4, 6, 4.0, 4.0); }, js(p));
        }
    }

    // ============================================================ ORACLE (C): static characteristic
    {
        CurveStats cs;
        std::vector<double> Ts, Ws;
        std::vector<int> Rs;
        if (th) {
            for (int t = -50; t <= 0; t += 5) Ts.push_back(t);
            Ts.push_back(-50 + 50 * rng.unit()); Ts.push_back(-0.3);
            for (int r = 1; r <= 50; ++r) Rs.push_back(r);
            for (int w = 0; w <= 20; w += 2) Ws.push_back(w);
            Ws.push_back(0.01); Ws.push_back(0.5); Ws.push_back(1); Ws.push_back(20 * rng.unit()); Ws.push_back(19.99);
        } else {
            Ts = {-50, -10, 0, -50 + 50 * rng.unit()};
            Rs = {1, 2, 5, 50, rng.range(3, 49)};
            Ws = {0, 0.01, 10, 20, 20 * rng.unit()};
        }
        for (double T : Ts)
            for (double W : Ws) {
                const int fs = pick_fs(rng);
                for (int R : Rs) {
                    const CP p{fs, T, R, W, 0, 0};
                    static_curve(rng, "compressor", T, 1.0L / R, W, [&] { return Compressor(fs, T, R, W, 0, 0); }, js(p), th, cs);
                }
                const LP q{fs, T, W, 0, 0};
                static_curve(rng, "limiter", T, 0.0L, W, [&] { return Limiter(fs, T, W, 0, 0); }, js(q), th, cs);
            }
        out.stat("static_curve_points", cs.pts);
        out.stat("static_curve_max_err_db_e15", (long long)(cs.max_err * 1e15L));
    }

    // ============================================================ ORACLE (D): AGC
    {
        AgcStats st;
        std::vector<double> targets = {0.01, 0.1, 1, 10, 100};
        std::vector<int> lens = th ? std::vector<int>{1, 2, 3, 10, 100, 999, 1000} : std::vector<int>{1, 10, 1000};
        const int nlev = th ? 17 : 5;   // input power levels over 80 dB: -60 .. +20 dB
        int cnt = 0;
        for (double tg : targets)
            for (int len : lens)
                for (int k = 0; k < nlev; ++k) {
                    const double pdb = -60 + 80.0 * k / (nlev - 1);
                    const double amp = std::pow(10.0, pdb / 20);
                    AP p{tg, 60.0, len, 0.01, 0.01};
                    agc_case(rng, p, amp, (cnt++) & 1, st);
                }
        const int NRND = th ? 600 : 40;
        for (int c = 0; c < NRND; ++c) {
            AP p{std::pow(10.0, -2 + 4 * rng.unit()), 10 + 70 * rng.unit(), rng.range(1, 1000), 0.01, 0.01};
            if (c % 3 == 0) { p.trise = std::pow(10.0, -2.5 + 1.8 * rng.unit()); p.tfall = std::pow(10.0, -2.5 + 1.8 * rng.unit()); }
            const double amp = std::pow(10.0, (-60 + 80 * rng.unit()) / 20);
            agc_case(rng, p, amp, c & 1, st);
        }
        out.stat("agc_cases_converging", st.converge);
        out.stat("agc_cases_capped", st.capped);
        out.stat("agc_worst_level_err_ppm", (long long)(st.worst_level_err * 1e6L));
        out.stat("agc_worst_gain_over_max_e15_minus1", (long long)((st.worst_gain_ratio - 1) * 1e15L));
    }

    // informative probe, NOT part of the oracle (outside the stated quantifier 0..4 s only by the sign bit):
    // a time of -0.0 passes the constructors' `>= 0` guards, sample_rate * -0.0 = -0.0, -log 9 / -0.0 = +inf,
    // exp(+inf) = inf: the coefficient is inf and every output is NaN.  (The model's `coef` returns 0 there.)
    {
        Limiter l(44100, -10.0, 0.0, -0.0, 0.2);
        arr_real x(3);
        x[0] = 0.5; x[1] = 1.0; x[2] = 0.1;
        auto r = l.process(x);
        out.stat("probe_negative_zero_attack_gives_nan", std::isnan(r.out[0]) ? 1 : 0);
    }

    vh::unwatch();
    out.sample("{\"proc\":\"compressor\",\"fs\":44100,\"threshold\":-10,\"ratio\":5,\"knee\":10,\"attack\":0,\"release\":0,\"note\":\"static curve: -5.01..-4.99 dB in must map continuously (old defect: 1 dB jump)\"}");
    out.sample("{\"proc\":\"limiter\",\"fs\":48000,\"threshold\":-6,\"knee\":4,\"attack\":0,\"release\":0.2,\"signal\":\"bursts\",\"n\":100000}");
    out.sample("{\"proc\":\"agc\",\"target\":1,\"max_gain\":60,\"average_len\":100,\"amplitude\":0.001,\"complex\":true}");
    out.finish();
    return 0;
}
