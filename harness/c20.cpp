// C20 — Dynamics processors never amplify, follow their static curves, and settle.
//
// CORR   : Compressor / Limiter / NoiseGate / Agc objects are driven with framed signals; the Lean model
//          (Model/Dynamics.lean) recomputes gain, output and log-gain.  Tags comp / lim / gate / agcr / agcc.
// ORACLE : (A) gain in [0,1], out = x*gain, limiter ceiling on arbitrary 1e5-sample signals;
//          (B) smoothing: the smoothed gain (recovered from the emitted gain) moves monotonically towards the
//              long-double reference target with ratio exp(-ln 9/(fs t)); 10%..90% rise time = fs*t samples;
//          (C) static characteristic with attack = release = 0 against the documented piecewise curve in
//              long double: unity below, slope 1/R (0) above, continuous monotone knee (0.01 dB grid at the edges);
//          (D) AGC: constant-envelope input reaches the target power within 1 % when the required gain is below
//              max_gain; gain <= max_gain always.
//          (E) AGC on ARBITRARY signals (the property's "noise, bursts, steps, silence"): real and complex, averaging
//              lengths 1..1000 (1, 2, 3, 7, 333, 1000 forced), amplitudes over 80 dB at the absolute scale classes
//              1e-300 .. 1e100, bursts followed by exact silence longer than the window, silence first, alternating
//              burst / silence, clicks, +-0, denormals, mixtures; every gain finite, > 0 and <= max_gain,
//              out = x*gain, arbitrary framing and copies made mid-stream (copy-ctor, copy-assign, vector(n, proto))
//              reproduce the single-call result bit for bit, and after the arbitrary part a constant-envelope tail
//              is driven to the target again.  The same signal classes go through Compressor / Limiter / NoiseGate
//              (gain range, ceiling, smoothing law, framing, copies).
#include "common.hpp"
#include <algorithm>
#include <type_traits>
using namespace dsplib;
typedef long double LD;
static vh::Out out;
static const LD EPSL = 2.220446049250313080847263336181640625e-16L;   // dsplib::eps()
static const LD TOL_DB = 1e-9L;      // float<->real gap allowed on dB quantities (measurement)
static const LD TOL_REL = 1e-12L;    // ... on linear quantities

// ------------------------------------------------------------------------------------ parameters
struct CP { int fs; double T; int R; double W, ta, tr; };          // Compressor
struct LP { int fs; double T; double W, ta, tr; };                 // Limiter
struct GP { int fs; double T, ta, tr, th; };                       // NoiseGate
struct AP { double target, mg; int n; double trise, tfall; };      // Agc

static int pick_fs(vh::Rng& r) {
    static const int tab[] = {8000, 11025, 16000, 22050, 32000, 44100, 48000, 88200, 96000, 192000};
    return r.range(0, 3) == 0 ? r.range(8000, 192000) : tab[r.range(0, 9)];
}
static double pick(vh::Rng& r, double lo, double hi) {
    const int k = r.range(0, 9);
    if (k == 0) return lo;
    if (k == 1) return hi;
    if (k == 2) return std::round(lo + (hi - lo) * r.unit());   // integral values
    return lo + (hi - lo) * r.unit();
}
static double pick_time(vh::Rng& r) {
    const int k = r.range(0, 9);
    if (k == 0) return 0.0;
    if (k == 1) return 4.0;
    if (k == 2) return std::pow(10.0, -6 + 3 * r.unit());       // shorter than a sample
    return std::pow(10.0, -4 + (std::log10(4.0) + 4) * r.unit());
}
static CP rnd_cp(vh::Rng& r) { return {pick_fs(r), pick(r, -50, 0), r.range(0, 4) == 0 ? (r.coin() ? 1 : 50) : r.range(1, 50), pick(r, 0, 20), pick_time(r), pick_time(r)}; }
static LP rnd_lp(vh::Rng& r) { return {pick_fs(r), pick(r, -50, 0), pick(r, 0, 20), pick_time(r), pick_time(r)}; }
static GP rnd_gp(vh::Rng& r) { return {pick_fs(r), pick(r, -50, 0), pick_time(r), pick_time(r), r.range(0, 2) == 0 ? 0.0 : std::min(4.0, pick_time(r))}; }

static std::string js(const CP& p) {
    return "\"proc\":\"compressor\",\"fs\":" + std::to_string(p.fs) + ",\"threshold\":" + vh::jnum(p.T) + ",\"ratio\":" + std::to_string(p.R) +
           ",\"knee\":" + vh::jnum(p.W) + ",\"attack\":" + vh::jnum(p.ta) + ",\"release\":" + vh::jnum(p.tr);
}
static std::string js(const LP& p) {
    return "\"proc\":\"limiter\",\"fs\":" + std::to_string(p.fs) + ",\"threshold\":" + vh::jnum(p.T) + ",\"knee\":" + vh::jnum(p.W) +
           ",\"attack\":" + vh::jnum(p.ta) + ",\"release\":" + vh::jnum(p.tr);
}
static std::string js(const GP& p) {
    return "\"proc\":\"noisegate\",\"fs\":" + std::to_string(p.fs) + ",\"threshold\":" + vh::jnum(p.T) + ",\"attack\":" + vh::jnum(p.ta) +
           ",\"release\":" + vh::jnum(p.tr) + ",\"hold\":" + vh::jnum(p.th);
}
static std::string js(const AP& p) {
    return "\"proc\":\"agc\",\"target\":" + vh::jnum(p.target) + ",\"max_gain\":" + vh::jnum(p.mg) + ",\"average_len\":" + std::to_string(p.n) +
           ",\"t_rise\":" + vh::jnum(p.trise) + ",\"t_fall\":" + vh::jnum(p.tfall);
}

// ------------------------------------------------------------------------------------ signals
enum { SIG_NOISE, SIG_BURSTS, SIG_STEPS, SIG_SILENCE, SIG_SINE, SIG_TINY, SIG_MIX, SIG_KINDS };
static const char* SIG_NAME[] = {"noise", "bursts", "steps", "silence", "sine", "tiny", "mix"};

static void fill(vh::Rng& r, arr_real& x, int a, int b, int kind) {
    switch (kind) {
    case SIG_NOISE: {
        const double sc = std::pow(10.0, (-80 + 100 * r.unit()) / 20);
        for (int i = a; i < b; ++i) x[i] = sc * r.gauss();
    } break;
    case SIG_BURSTS: {
        int i = a;
        while (i < b) {
            const int gap = r.range(1, 4000), len = r.range(1, 3000);
            const double sc = std::pow(10.0, (-30 + 50 * r.unit()) / 20);
            for (int k = 0; k < gap && i < b; ++k, ++i) x[i] = r.range(0, 3) == 0 ? 0.0 : 1e-5 * r.sym();
            for (int k = 0; k < len && i < b; ++k, ++i) x[i] = sc * r.gauss();
        }
    } break;
    case SIG_STEPS: {
        int i = a;
        while (i < b) {
            const int len = r.range(1, 5000);
            const double lvl = std::pow(10.0, (-100 + 120 * r.unit()) / 20);
            const bool alt = r.coin();
            for (int k = 0; k < len && i < b; ++k, ++i) x[i] = (alt && (k & 1)) ? -lvl : lvl;
        }
    } break;
    case SIG_SILENCE:
        for (int i = a; i < b; ++i) x[i] = 0.0;
        if (b - a > 2 && r.coin()) x[a + r.range(0, b - a - 1)] = r.sym();   // a single click
        break;
    case SIG_SINE: {
        const double f = 0.0001 + 0.45 * r.unit(), am = 0.00001 + 0.001 * r.unit(), sc = std::pow(10.0, (-40 + 60 * r.unit()) / 20);
        for (int i = a; i < b; ++i) x[i] = sc * (0.55 + 0.45 * std::sin(6.283185307179586 * am * i)) * std::sin(6.283185307179586 * f * i);
    } break;
    case SIG_TINY:
        for (int i = a; i < b; ++i) x[i] = (r.coin() ? 4.9e-324 : 1e-300) * double(r.range(-3, 3));
        break;
    default: {
        int i = a;
        while (i < b) {
            const int len = std::min(b - i, r.range(1, 20000));
            fill(r, x, i, i + len, r.range(0, SIG_MIX - 1));
            i += len;
        }
    }
    }
}
static arr_real gen_signal(vh::Rng& r, int n, int kind) {
    arr_real x(n);
    fill(r, x, 0, n, kind);
    return x;
}

// split [0,n) into nf frames (some possibly empty)
static std::vector<arr_real> split_frames(vh::Rng& r, const arr_real& x, int nf) {
    std::vector<int> cut{0, x.size()};
    for (int k = 1; k < nf; ++k) cut.push_back(r.range(0, x.size()));
    std::sort(cut.begin(), cut.end());
    std::vector<arr_real> fr;
    for (size_t k = 0; k + 1 < cut.size(); ++k) {
        arr_real f(cut[k + 1] - cut[k]);
        for (int i = cut[k]; i < cut[k + 1]; ++i) f[i - cut[k]] = x[i];
        fr.push_back(f);
    }
    return fr;
}

// ------------------------------------------------------------------------------------ CORR helpers
static std::string hxs_dec(const arr_real& a, int dec) {
    if (dec <= 1) return vh::hxs(a);
    std::vector<double> v;
    for (int i = 0; i < a.size(); ++i) if (i % dec == 0 || i + 1 == a.size()) v.push_back(a[i]);
    std::string s = std::to_string(v.size());
    for (double d : v) { s += " "; s += vh::hx(d); }
    return s;
}
static std::string hxs_dec(const arr_cmplx& a, int dec) {
    if (dec <= 1) return vh::hxs(a);
    std::vector<cmplx_t> v;
    for (int i = 0; i < a.size(); ++i) if (i % dec == 0 || i + 1 == a.size()) v.push_back(a[i]);
    std::string s = std::to_string(v.size());
    for (auto d : v) { s += " "; s += vh::hx(d.re); s += " "; s += vh::hx(d.im); }
    return s;
}
static std::string frames_str(const std::vector<arr_real>& fr) {
    std::string s = std::to_string(fr.size());
    for (auto& f : fr) { s += " "; s += vh::hxs(f); }
    return s;
}
static std::string frames_str(const std::vector<arr_cmplx>& fr) {
    std::string s = std::to_string(fr.size());
    for (auto& f : fr) { s += " "; s += vh::hxs(f); }
    return s;
}
static arr_real map_log(const arr_real& g, bool db) {
    arr_real r(g.size());
    for (int i = 0; i < g.size(); ++i) r[i] = db ? 20 * std::log10(g[i]) : std::log(g[i]);
    return r;
}

// selectors: 0 = gain, 1 = out, 2 = gain in the log domain (dB for comp/lim, natural log for agc)
template<class MakeFn>
static void corr_real(const std::string& head, MakeFn make, const std::vector<arr_real>& frames, int dec, int selmask, bool db,
                      const std::string& key, const std::string& json) {
    std::string rhs[3];
    bool err = false;
    vh::set_current(key, json);
    try {
        auto proc = make();
        for (auto& f : frames) {
            auto r = proc.process(f);
            rhs[0] += (rhs[0].empty() ? "" : " ") + hxs_dec(r.gain, dec);
            rhs[1] += (rhs[1].empty() ? "" : " ") + hxs_dec(r.out, dec);
            rhs[2] += (rhs[2].empty() ? "" : " ") + hxs_dec(map_log(r.gain, db), dec);
        }
    } catch (const std::exception&) { err = true; }
    vh::clear_current();
    for (int sel = 0; sel < 3; ++sel)
        if (selmask & (1 << sel))
            out.corr(head + " " + std::to_string(dec) + " " + std::to_string(sel) + " " + frames_str(frames), err ? "ERR" : rhs[sel]);
    out.stat(err ? "corr_ctor_throws" : "corr_ctor_ok");
}

static std::string head(const CP& p) { return "comp " + std::to_string(p.fs) + " " + vh::hx(p.T) + " " + std::to_string(p.R) + " " + vh::hx(p.W) + " " + vh::hx(p.ta) + " " + vh::hx(p.tr); }
static std::string head(const LP& p) { return "lim " + std::to_string(p.fs) + " " + vh::hx(p.T) + " " + vh::hx(p.W) + " " + vh::hx(p.ta) + " " + vh::hx(p.tr); }
static std::string head(const GP& p) { return "gate " + std::to_string(p.fs) + " " + vh::hx(p.T) + " " + vh::hx(p.ta) + " " + vh::hx(p.tr) + " " + vh::hx(p.th); }
static std::string head(const AP& p, bool c) { return std::string(c ? "agcc " : "agcr ") + vh::hx(p.target) + " " + vh::hx(p.mg) + " " + std::to_string(p.n) + " " + vh::hx(p.trise) + " " + vh::hx(p.tfall); }

static void corr_comp(const CP& p, const std::vector<arr_real>& fr, int dec, int mask) {
    corr_real(head(p), [&] { return Compressor(p.fs, p.T, p.R, p.W, p.ta, p.tr); }, fr, dec, mask, true, "C20:crash:compressor", "{" + js(p) + "}");
}
static void corr_lim(const LP& p, const std::vector<arr_real>& fr, int dec, int mask) {
    corr_real(head(p), [&] { return Limiter(p.fs, p.T, p.W, p.ta, p.tr); }, fr, dec, mask, true, "C20:crash:limiter", "{" + js(p) + "}");
}
static void corr_gate(const GP& p, const std::vector<arr_real>& fr, int dec) {
    corr_real(head(p), [&] { return NoiseGate(p.fs, p.T, p.ta, p.tr, p.th); }, fr, dec, 3, true, "C20:crash:noisegate", "{" + js(p) + "}");
}
static void corr_agc_r(const AP& p, const std::vector<arr_real>& fr, int dec, int mask) {
    corr_real(head(p, false), [&] { return Agc(p.target, p.mg, p.n, p.trise, p.tfall); }, fr, dec, mask, false, "C20:crash:agc", "{" + js(p) + "}");
}
static void corr_agc_c(const AP& p, const std::vector<arr_cmplx>& frames, int dec, int selmask) {
    std::string rhs[3];
    bool err = false;
    vh::set_current("C20:crash:agc", "{" + js(p) + "}");
    try {
        Agc proc(p.target, p.mg, p.n, p.trise, p.tfall);
        for (auto& f : frames) {
            auto r = proc.process(f);
            rhs[0] += (rhs[0].empty() ? "" : " ") + hxs_dec(r.gain, dec);
            rhs[1] += (rhs[1].empty() ? "" : " ") + hxs_dec(r.out, dec);
            rhs[2] += (rhs[2].empty() ? "" : " ") + hxs_dec(map_log(r.gain, false), dec);
        }
    } catch (const std::exception&) { err = true; }
    vh::clear_current();
    for (int sel = 0; sel < 3; ++sel)
        if (selmask & (1 << sel))
            out.corr(head(p, true) + " " + std::to_string(dec) + " " + std::to_string(sel) + " " + frames_str(frames), err ? "ERR" : rhs[sel]);
}

// short signal for CORR: levels spread over the whole characteristic, incl. the knee edges of (T, W)
static arr_real corr_signal(vh::Rng& r, int n, double T, double W) {
    arr_real x(n);
    for (int i = 0; i < n; ++i) {
        const int k = r.range(0, 11);
        double lvl;
        if (k == 0) { x[i] = 0.0; continue; }
        else if (k == 1) lvl = T - W / 2;
        else if (k == 2) lvl = T + W / 2;
        else if (k == 3) lvl = T;
        else if (k <= 6) lvl = T + (W / 2 + 0.5) * r.sym();   // in and around the knee
        else if (k <= 8) lvl = T + W / 2 + 40 * r.unit();      // above
        else lvl = -100 + 120 * r.unit();
        double v = std::pow(10.0, lvl / 20);
        if (k <= 3 && r.coin()) v = std::nextafter(v, r.coin() ? 0.0 : 10.0);
        x[i] = r.coin() ? v : -v;
    }
    return x;
}

// ------------------------------------------------------------------------------------ references (long double)
// documented static characteristic; s = 1/ratio (compressor) or 0 (limiter)
static LD ref_curve(LD l, LD T, LD s, LD W) {
    if (2 * (l - T) < -W) return l;                 // l < T - W/2 : unity
    if (2 * (l - T) > W) return T + (l - T) * s;    // l > T + W/2 : slope s
    if (W == 0) return l;                            // l = T
    const LD y = l - T + W / 2;
    return l + (s - 1) * y * y / (2 * W);           // quadratic knee
}
static LD ref_coef(int fs, double t) { return t == 0 ? 0.0L : expl(-logl(9.0L) / (LD(fs) * LD(t))); }

struct DynStats { long long attack = 0, release = 0, below = 0, knee = 0, above = 0, gain_gt1 = 0; LD max_gain_excess = 0, max_tc_err = 0, max_ceiling_ratio = 0; };

// (A)+(B) on one processed signal of a compressor (s = 1/R) or limiter (s = 0)
static void check_dyn(const char* who, int fs, double T, LD s, double W, double ta, double tr, const arr_real& x, const arr_real& gain,
                      const arr_real& outv, LD& gs_prev, const std::string& json, DynStats& st, int base) {
    const LD wA = ref_coef(fs, ta), wR = ref_coef(fs, tr);
    const LD ceil_lin = powl(10.0L, LD(T) / 20);
    const std::string w = who;
    for (int i = 0; i < x.size(); ++i) {
        out.n_oracle++;
        const double g = gain[i];
        const std::string at = "{" + json + ",\"index\":" + std::to_string(base + i) + ",\"x\":" + vh::jnum(x[i]) + ",\"gain\":" + vh::jnum(g) + ",\"out\":" + vh::jnum(outv[i]) + "}";
        if (!(g >= 0 && LD(g) <= 1 + TOL_REL)) { out.fail("C20:gain-range:" + w, at); gs_prev = 0; continue; }
        if (g > 1) { st.gain_gt1++; st.max_gain_excess = std::max(st.max_gain_excess, LD(g) - 1); }
        if (!(outv[i] == x[i] * g)) out.fail("C20:out-not-x-times-gain:" + w, at);
        if (ta == 0) {
            const LD ratio = fabsl(LD(outv[i])) / ceil_lin;
            st.max_ceiling_ratio = std::max(st.max_ceiling_ratio, ratio);
            if (s == 0 && !(ratio <= 1 + TOL_REL)) out.fail("C20:limiter-ceiling", at);
        }
        if (g == 0) { out.fail("C20:gain-zero:" + w, at); gs_prev = 0; continue; }   // 10^(gs/20) cannot vanish for the levels generated
        const LD xl = 20 * log10l(fabsl(LD(x[i])) + EPSL);
        const LD gc = ref_curve(xl, T, s, W) - xl;
        const LD gs = 20 * log10l(LD(g));
        const LD d = gs - gc, dp = gs_prev - gc;
        const bool att = gc <= gs_prev;
        const LD wv = att ? wA : wR;
        (att ? st.attack : st.release)++;
        if (2 * (xl - T) < -W) st.below++; else if (2 * (xl - T) > W) st.above++; else st.knee++;
        if (fabsl(d) > fabsl(dp) + TOL_DB) out.fail("C20:smoothing-not-monotone:" + w, at);
        if ((dp > TOL_DB && d < -TOL_DB) || (dp < -TOL_DB && d > TOL_DB)) out.fail("C20:smoothing-overshoot:" + w, at);
        const LD e = fabsl(d - wv * dp);
        st.max_tc_err = std::max(st.max_tc_err, e);
        if (e > TOL_DB) out.fail("C20:smoothing-time-constant:" + w, at);
        gs_prev = gs;
    }
}

struct ArbStats;
template<class Proc, class T, class Make, class Res>
static void framing_and_copies(vh::Rng& r, const std::string& who, Make make, const base_array<T>& x, const Res& whole, const std::string& json, ArbStats& st);
static ArbStats& dyn_arb();

// one processor on the signal `x`: per-sample oracle on the result of ONE process() call, then the same signal in
// random frames with copies made mid-stream must reproduce it bit for bit
template<class P, class Make>
static void arbitrary_dyn_x(vh::Rng& r, const char* who, const P& p, LD s, Make make, const arr_real& x, const std::string& signame, DynStats& st, int caseno) {
    const std::string json = js(p) + ",\"signal\":\"" + signame + "\",\"n\":" + std::to_string(x.size()) + ",\"case\":" + std::to_string(caseno);
    vh::set_current(std::string("C20:crash:") + who, "{" + json + "}");
    auto proc = make();
    LD gs_prev = 0;
    const auto res = proc.process(x);
    if (res.gain.size() != x.size() || res.out.size() != x.size()) { out.fail(std::string("C20:result-size:") + who, "{" + json + "}"); return; }
    check_dyn(who, p.fs, p.T, s, p.W, p.ta, p.tr, x, res.gain, res.out, gs_prev, json, st, 0);
    framing_and_copies<decltype(make())>(r, who, make, x, res, json, dyn_arb());
    vh::clear_current();
    out.stat(std::string("oracle_signal_") + signame);
}
template<class P, class Make>
static void arbitrary_dyn(vh::Rng& r, const char* who, const P& p, LD s, Make make, int n, int kind, DynStats& st, int caseno) {
    arbitrary_dyn_x(r, who, p, s, make, gen_signal(r, n, kind), SIG_NAME[kind], st, caseno);
}

static void arbitrary_gate_x(vh::Rng& r, const GP& p, const arr_real& x, const std::string& signame, int caseno) {
    const std::string json = js(p) + ",\"signal\":\"" + signame + "\",\"n\":" + std::to_string(x.size()) + ",\"case\":" + std::to_string(caseno);
    vh::set_current("C20:crash:noisegate", "{" + json + "}");
    auto make = [&] { return NoiseGate(p.fs, p.T, p.ta, p.tr, p.th); };
    NoiseGate proc = make();
    long long open = 0, closed = 0, moving = 0;
    const auto res = proc.process(x);
    if (res.gain.size() != x.size() || res.out.size() != x.size()) { out.fail("C20:result-size:noisegate", "{" + json + "}"); return; }
    for (int i = 0; i < x.size(); ++i) {
        out.n_oracle++;
        const double g = res.gain[i];
        if (!(g >= 0 && LD(g) <= 1 + TOL_REL) || !(res.out[i] == x[i] * g)) {
            const std::string at = "{" + json + ",\"index\":" + std::to_string(i) + ",\"x\":" + vh::jnum(x[i]) + ",\"gain\":" + vh::jnum(g) + "}";
            if (!(g >= 0 && LD(g) <= 1 + TOL_REL)) out.fail("C20:gain-range:noisegate", at);
            if (!(res.out[i] == x[i] * g)) out.fail("C20:out-not-x-times-gain:noisegate", at);
        }
        if (g == 1) ++open; else if (g == 0) ++closed; else ++moving;
    }
    framing_and_copies<NoiseGate>(r, "noisegate", make, x, res, json, dyn_arb());
    vh::clear_current();
    out.stat("gate_samples_open", open);
    out.stat("gate_samples_closed", closed);
    out.stat("gate_samples_moving", moving);
}
static void arbitrary_gate(vh::Rng& r, const GP& p, int n, int kind, int caseno) {
    arbitrary_gate_x(r, p, gen_signal(r, n, kind), SIG_NAME[kind], caseno);
}

// (B') 10 % .. 90 % rise / fall time of the smoothed gain on a level step = attack / release time
template<class Make>
static void rise_time(const char* who, int fs, double T, double ta, double tr, Make make, const std::string& json) {
    const double na = fs * ta, nr = fs * tr;
    if (na < 8 || nr < 8 || na + nr > 70000) return;
    const int La = int(std::ceil(3.5 * na)) + 16, Lr = int(std::ceil(3.5 * nr)) + 16;
    arr_real x(La + Lr);
    const double loud = std::pow(10.0, (T + 20) / 20);   // 20 dB over the threshold (threshold <= 0)
    for (int i = 0; i < La; ++i) x[i] = (i & 1) ? -loud : loud;
    for (int i = La; i < La + Lr; ++i) x[i] = 0;
    auto proc = make();
    auto res = proc.process(x);
    std::vector<LD> gs(x.size());
    for (int i = 0; i < x.size(); ++i) gs[i] = 20 * log10l(LD(res.gain[i]));
    const LD xl = 20 * log10l(LD(loud) + EPSL);
    (void)xl;
    // attack: gs falls from 0 towards G (< 0); G is estimated from the reference curve, not from the run
    // (the caller passes processors with a non-trivial reduction at +20 dB)
    const LD G = gs[La - 1] / (1 - powl(ref_coef(fs, ta), La));   // asymptote consistent with the observed end value
    if (!(G < -0.5L)) { out.stat("rise_skipped_no_reduction"); return; }
    int i10 = -1, i90 = -1;
    for (int i = 0; i < La; ++i) {
        if (i10 < 0 && gs[i] <= 0.1L * G) i10 = i;
        if (i90 < 0 && gs[i] <= 0.9L * G) { i90 = i; break; }
    }
    out.n_oracle++;
    if (i10 < 0 || i90 < 0 || fabsl(LD(i90 - i10) - na) > 2)
        out.fail(std::string("C20:attack-time:") + who, "{" + json + ",\"expected_samples\":" + vh::jnum(na) + ",\"i10\":" + std::to_string(i10) + ",\"i90\":" + std::to_string(i90) + "}");
    // release: gs rises from g0 towards 0
    const LD g0 = gs[La - 1];
    int j10 = -1, j90 = -1;
    for (int i = La; i < La + Lr; ++i) {
        if (j10 < 0 && gs[i] >= 0.9L * g0) j10 = i;
        if (j90 < 0 && gs[i] >= 0.1L * g0) { j90 = i; break; }
    }
    out.n_oracle++;
    if (j10 < 0 || j90 < 0 || fabsl(LD(j90 - j10) - nr) > 2)
        out.fail(std::string("C20:release-time:") + who, "{" + json + ",\"expected_samples\":" + vh::jnum(nr) + ",\"j10\":" + std::to_string(j10) + ",\"j90\":" + std::to_string(j90) + "}");
    out.stat("rise_time_checks");
}

// (C) static characteristic, attack = release = 0
struct CurveStats { LD max_err = 0, max_step_excess = 0; long long pts = 0; };
template<class Make>
static void static_curve(vh::Rng& r, const char* who, double T, LD s, double W, Make make, const std::string& json, bool dense, CurveStats& cs) {
    std::vector<double> xs;
    const double cstep = dense ? 0.25 : 1.0;
    for (double l = -100; l <= 20.0001; l += cstep) xs.push_back(std::pow(10.0, l / 20));
    for (int e = -1; e <= 1; e += 2) {
        const double edge = T + e * W / 2;
        for (int k = -100; k <= 100; ++k) xs.push_back(std::pow(10.0, (edge + 0.01 * k) / 20));
        double v = std::pow(10.0, edge / 20);
        double lo = v, hi = v;
        for (int k = 0; k < 4; ++k) { lo = std::nextafter(lo, 0.0); hi = std::nextafter(hi, 100.0); xs.push_back(lo); xs.push_back(hi); }
    }
    // random order, random signs: with zero attack and release the processor is memoryless
    for (size_t i = xs.size(); i > 1; --i) std::swap(xs[i - 1], xs[r.range(0, int(i) - 1)]);
    arr_real x(int(xs.size()));
    for (int i = 0; i < x.size(); ++i) x[i] = r.coin() ? xs[i] : -xs[i];
    vh::set_current(std::string("C20:crash:static:") + who, "{" + json + "}");
    auto proc = make();
    auto res = proc.process(x);
    vh::clear_current();
    struct Pt { LD lin, lout; double x, o; };
    std::vector<Pt> pts(x.size());
    for (int i = 0; i < x.size(); ++i) pts[i] = {20 * log10l(fabsl(LD(x[i]))), 20 * log10l(fabsl(LD(res.out[i]))), x[i], res.out[i]};
    std::sort(pts.begin(), pts.end(), [](const Pt& a, const Pt& b) { return a.lin < b.lin; });
    const std::string w = who;
    for (size_t i = 0; i < pts.size(); ++i) {
        out.n_oracle++;
        cs.pts++;
        const Pt& p = pts[i];
        const std::string at = "{" + json + ",\"x\":" + vh::jnum(p.x) + ",\"out\":" + vh::jnum(p.o) + ",\"in_db\":" + vh::jnum(double(p.lin)) + ",\"out_db\":" + vh::jnum(double(p.lout)) +
                               ",\"expected_db\":" + vh::jnum(double(ref_curve(p.lin, T, s, W))) + "}";
        const LD err = fabsl(p.lout - ref_curve(p.lin, T, s, W));
        cs.max_err = std::max(cs.max_err, err);
        if (!(err <= 1e-8L)) out.fail("C20:static-curve:" + w, at);
        if (2 * (p.lin - T) < -W - 1e-8L && !(p.o == p.x)) out.fail("C20:static-unity-below:" + w, at);
        if ((p.o > 0) != (p.x > 0)) out.fail("C20:static-sign:" + w, at);
        if (i + 1 < pts.size()) {
            const Pt& q = pts[i + 1];
            const LD din = q.lin - p.lin, dout = q.lout - p.lout;
            const std::string at2 = "{" + json + ",\"x0\":" + vh::jnum(p.x) + ",\"x1\":" + vh::jnum(q.x) + ",\"in_db\":[" + vh::jnum(double(p.lin)) + "," + vh::jnum(double(q.lin)) + "],\"out_db\":[" +
                                    vh::jnum(double(p.lout)) + "," + vh::jnum(double(q.lout)) + "]}";
            // monotone, never steeper than unity (no jump beyond the grid step), never flatter than 1/R
            if (!(dout >= s * din - TOL_DB && dout <= din + TOL_DB)) out.fail("C20:static-monotone-continuous:" + w, at2);
            cs.max_step_excess = std::max(cs.max_step_excess, dout - din);
            if (2 * (p.lin - T) > W + 1e-8L && !(fabsl(dout - s * din) <= TOL_DB)) out.fail("C20:static-slope-above:" + w, at2);
        }
    }
}

// (D) AGC on a constant-envelope input
struct AgcStats { LD worst_level_err = 0, worst_gain_ratio = 0; long long converge = 0, capped = 0; };
static void agc_case(vh::Rng& r, const AP& p, double amp, bool cplx, AgcStats& st) {
    const LD pin = LD(amp) * LD(amp);
    const LD req_db = 10 * log10l(LD(p.target) / pin);   // required amplitude gain in dB
    const LD gmax = powl(10.0L, LD(p.mg) / 20);
    const double tmin = std::min(p.trise, p.tfall);
    const int settle = int(std::ceil(12.0 / (2 * tmin))) + 200;
    const int n = p.n + settle;
    const std::string json = js(p) + ",\"amplitude\":" + vh::jnum(amp) + ",\"complex\":" + (cplx ? "true" : "false") + ",\"n\":" + std::to_string(n) +
                             ",\"required_gain_db\":" + vh::jnum(double(req_db));
    vh::set_current("C20:crash:agc", "{" + json + "}");
    Agc agc(p.target, p.mg, p.n, p.trise, p.tfall);
    arr_real gain;
    std::vector<LD> pout(n);
    const int nf = r.range(1, 3);
    if (cplx) {
        arr_cmplx x(n);
        for (int i = 0; i < n; ++i) { const double ph = 6.283185307179586 * r.unit(); x[i] = cmplx_t{amp * std::cos(ph), amp * std::sin(ph)}; }
        // frames: state must persist across calls
        arr_cmplx o(n);
        gain = arr_real(n);
        int a = 0;
        for (int k = 0; k < nf; ++k) {
            const int b = (k + 1 == nf) ? n : std::min(n, a + r.range(0, n));
            arr_cmplx f(b - a);
            for (int i = a; i < b; ++i) f[i - a] = x[i];
            auto res = agc.process(f);
            for (int i = a; i < b; ++i) { o[i] = res.out[i - a]; gain[i] = res.gain[i - a]; }
            a = b;
        }
        for (int i = 0; i < n; ++i) pout[i] = LD(o[i].re) * o[i].re + LD(o[i].im) * o[i].im;
    } else {
        arr_real x(n), o(n);
        for (int i = 0; i < n; ++i) x[i] = r.coin() ? amp : -amp;
        gain = arr_real(n);
        int a = 0;
        for (int k = 0; k < nf; ++k) {
            const int b = (k + 1 == nf) ? n : std::min(n, a + r.range(0, n));
            arr_real f(b - a);
            for (int i = a; i < b; ++i) f[i - a] = x[i];
            auto res = agc.process(f);
            for (int i = a; i < b; ++i) { o[i] = res.out[i - a]; gain[i] = res.gain[i - a]; }
            a = b;
        }
        for (int i = 0; i < n; ++i) pout[i] = LD(o[i]) * o[i];
    }
    vh::clear_current();
    for (int i = 0; i < n; ++i) {
        out.n_oracle++;
        const LD ratio = LD(gain[i]) / gmax;
        st.worst_gain_ratio = std::max(st.worst_gain_ratio, ratio);
        if (!(gain[i] > 0 && ratio <= 1 + TOL_REL)) {
            out.fail("C20:agc-gain-exceeds-max", "{" + json + ",\"index\":" + std::to_string(i) + ",\"gain\":" + vh::jnum(gain[i]) + ",\"max_gain_lin\":" + vh::jnum(double(gmax)) + "}");
            break;
        }
    }
    if (req_db < LD(p.mg) - 0.25L) {
        st.converge++;
        for (int i = n - 100; i < n; ++i) {
            const LD rel = pout[i] / LD(p.target);
            st.worst_level_err = std::max(st.worst_level_err, fabsl(rel - 1));
            if (!(rel >= 0.99L && rel <= 1.01L)) {
                out.fail("C20:agc-level", "{" + json + ",\"index\":" + std::to_string(i) + ",\"out_power\":" + vh::jnum(double(pout[i])) + "}");
                break;
            }
        }
    } else if (req_db > LD(p.mg) + 0.25L) {
        st.capped++;
        // informative: the gain sits at the cap
        if (fabsl(LD(gain[n - 1]) / gmax - 1) > 1e-9L) out.stat("agc_capped_but_below_cap");
    } else out.stat("agc_borderline_skipped");
}

// ------------------------------------------------------------------------------------ (E) arbitrary signals for the AGC
// (and, as real signals, for the other three processors)
enum { AK_NOISE, AK_BURST_SILENCE, AK_SILENCE_FIRST, AK_ALTERNATE, AK_STEPS, AK_SIGNED_ZERO, AK_DENORMAL, AK_CLICKS, AK_MIX, AK_KINDS };
static const char* AK_NAME[] = {"noise", "burst-then-silence", "silence-first", "alternate-burst-silence", "steps", "signed-zeros", "denormals", "clicks", "mix"};
static const double SCALES[] = {1.0, 1e-300, 1e-17, 1e-8, 1e8, 1e100};   // absolute scale classes (lesson 1)
static const int NSCALES = 6;
static const int FORCED_LEN[] = {1, 2, 3, 7, 333, 1000};

static double dbamp(double db) { return std::pow(10.0, db / 20); }

// one burst of `len` samples at amplitude `lvl` starting at i (three textures)
static void burst(vh::Rng& r, arr_real& x, int& i, int b, int len, double lvl) {
    const int tex = r.range(0, 3);
    for (int k = 0; k < len && i < b; ++k, ++i) {
        if (tex == 0) x[i] = lvl * r.gauss();                      // noise (e.g. randn * 3.3)
        else if (tex == 1) x[i] = r.coin() ? lvl : -lvl;           // constant envelope
        else if (tex == 2) x[i] = lvl * dbamp(-40 * r.unit()) * r.sym();   // very uneven magnitudes: rounding residue in a recurrent sum
        else x[i] = lvl * std::sin(0.37 * k + 0.1);
    }
}
static void zeros(vh::Rng& r, arr_real& x, int& i, int b, int len) {
    const int how = r.range(0, 5);   // mostly +0, sometimes -0 or mixed signs
    for (int k = 0; k < len && i < b; ++k, ++i) x[i] = how == 0 ? -0.0 : how == 1 ? (r.coin() ? 0.0 : -0.0) : 0.0;
}
// a silence run in relation to the averaging length: shorter, equal, one more, several windows
static int silence_len(vh::Rng& r, int navg, bool longer) {
    const int k = r.range(0, 5);
    if (longer) return k == 0 ? navg + 1 : k == 1 ? 2 * navg : k == 2 ? 2 * navg + 1 : navg + 1 + r.range(0, 3 * navg + 60);
    return k == 0 ? navg : k == 1 ? navg + 1 : k == 2 ? std::max(1, navg - 1) : r.range(1, 2 * navg + 2);
}

static void fill_agc(vh::Rng& r, arr_real& x, int a, int b, int kind, int navg, double sc) {
    int i = a;
    switch (kind) {
    case AK_NOISE: {
        const double lvl = sc * dbamp(-60 + 80 * r.unit());
        for (; i < b; ++i) x[i] = lvl * r.gauss();
    } break;
    case AK_BURST_SILENCE:   // loud stretch, then exact zeros for longer than the averaging length, then signal again
        while (i < b) {
            const int len = r.range(0, 3) == 0 ? r.range(1, 5000) : r.range(1, 3 * navg + 8);
            burst(r, x, i, b, len, sc * dbamp(-10 + 30 * r.unit()));
            zeros(r, x, i, b, silence_len(r, navg, true));
        }
        break;
    case AK_SILENCE_FIRST:
        zeros(r, x, i, b, silence_len(r, navg, true) + r.range(0, 500));
        fill_agc(r, x, i, b, r.coin() ? AK_BURST_SILENCE : AK_NOISE, navg, sc);
        break;
    case AK_ALTERNATE: {     // burst / silence, each shorter or longer than the window
        const double lvl = sc * dbamp(-20 + 40 * r.unit());
        while (i < b) {
            burst(r, x, i, b, silence_len(r, navg, false), r.coin() ? lvl : sc * dbamp(-60 + 80 * r.unit()));
            zeros(r, x, i, b, silence_len(r, navg, r.coin()));
        }
    } break;
    case AK_STEPS:           // constant-envelope level steps over 80 dB, with an occasional drop to exact silence
        while (i < b) {
            const int len = r.range(1, 5000);
            if (r.range(0, 5) == 0) { zeros(r, x, i, b, len); continue; }
            const double lvl = sc * dbamp(-60 + 80 * r.unit());
            const bool alt = r.coin();
            for (int k = 0; k < len && i < b; ++k, ++i) x[i] = (alt && (k & 1)) ? -lvl : lvl;
        }
        break;
    case AK_SIGNED_ZERO:     // runs of -0 / +0 / alternating, between loud runs and single samples
        while (i < b) {
            const int how = r.range(0, 2), len = r.range(1, 2 * navg + 5);
            for (int k = 0; k < len && i < b; ++k, ++i) x[i] = how == 0 ? -0.0 : how == 1 ? 0.0 : ((k & 1) ? -0.0 : 0.0);
            if (r.coin()) burst(r, x, i, b, r.range(1, navg + 3), sc * dbamp(-60 + 80 * r.unit()));
        }
        break;
    case AK_DENORMAL: {      // denormals / values whose square underflows, next to loud bursts
        static const double tiny[] = {4.9406564584124654e-324, 2.2250738585072014e-308, 1e-310, 1.4916681462400413e-154, 1.5e-154, 1e-162, 3e-162, 1e-200};
        while (i < b) {
            const int len = r.range(1, 2 * navg + 20);
            for (int k = 0; k < len && i < b; ++k, ++i) x[i] = tiny[r.range(0, 7)] * double(r.range(-3, 3));
            if (r.range(0, 2) == 0) burst(r, x, i, b, r.range(1, navg + 3), sc * dbamp(-60 + 80 * r.unit()));
        }
    } break;
    case AK_CLICKS:          // isolated samples of wildly different size in exact silence
        for (; i < b; ++i) x[i] = 0.0;
        for (i = a + r.range(0, 3); i < b; i += r.range(1, 3 * navg + 1)) x[i] = sc * dbamp(-60 + 80 * r.unit()) * (r.coin() ? 1 : -1);
        break;
    default:
        while (i < b) {
            const int len = std::min(b - i, r.range(1, 20000));
            fill_agc(r, x, i, i + len, r.range(0, AK_MIX - 1), navg, r.range(0, 3) == 0 ? SCALES[r.range(0, NSCALES - 1)] : sc);
            i += len;
        }
    }
}
// complex version: random phases, with (lesson 8) one component alone at a special value (0, -0) now and then
static arr_cmplx to_cmplx(vh::Rng& r, const arr_real& m) {
    arr_cmplx z(m.size());
    for (int i = 0; i < m.size(); ++i) {
        const int k = r.range(0, 15);
        if (k == 0) z[i] = cmplx_t{m[i], 0.0};
        else if (k == 1) z[i] = cmplx_t{0.0, m[i]};
        else if (k == 2) z[i] = cmplx_t{m[i], -0.0};
        else if (k == 3) z[i] = cmplx_t{-0.0, m[i]};
        else { const double ph = 6.283185307179586 * r.unit(); z[i] = cmplx_t{m[i] * std::cos(ph), m[i] * std::sin(ph)}; }
    }
    return z;
}

static bool same_bits(double a, double b) { return std::memcmp(&a, &b, 8) == 0; }
static bool same_bits(const cmplx_t& a, const cmplx_t& b) { return same_bits(a.re, b.re) && same_bits(a.im, b.im); }
static double pw(double v) { return v * v; }
static double pw(const cmplx_t& v) { return v.re * v.re + v.im * v.im; }
static LD pwl(double v) { return LD(v) * v; }
static LD pwl(const cmplx_t& v) { return LD(v.re) * v.re + LD(v.im) * v.im; }
static std::string jv(double v) { return vh::jnum(v); }
static std::string jv(const cmplx_t& v) { return "[" + vh::jnum(v.re) + "," + vh::jnum(v.im) + "]"; }
static bool is_x_times_gain(double o, double x, double g) { return o == x * g; }
static bool is_x_times_gain(const cmplx_t& o, const cmplx_t& x, double g) { return o.re == x.re * g && o.im == x.im * g; }

template<class T>
static std::vector<base_array<T>> cut_frames(vh::Rng& r, const base_array<T>& x, int nf) {
    std::vector<int> cut{0, x.size()};
    for (int k = 1; k < nf; ++k) cut.push_back(r.range(0, 3) == 0 ? cut[r.range(0, int(cut.size()) - 1)] : r.range(0, x.size()));   // some empty frames
    std::sort(cut.begin(), cut.end());
    std::vector<base_array<T>> fr;
    for (size_t k = 0; k + 1 < cut.size(); ++k) {
        base_array<T> f(cut[k + 1] - cut[k]);
        for (int i = cut[k]; i < cut[k + 1]; ++i) f[i - cut[k]] = x[i];
        fr.push_back(f);
    }
    return fr;
}

// the recurrence of lib/ma-filter.h, for the STATISTICS only (how often the scenario class of the repaired defect -
// a power estimate below zero - is actually reached by the generators)
struct MaMirror {
    std::vector<double> buf; int n, pos = 0; double acc = 0;
    explicit MaMirror(int n_) : buf(n_, 0.0), n(n_) {}
    double step(double x) {
        acc -= buf[pos]; acc += x; buf[pos] = x;
        if (++pos == n) { pos = 0; acc = 0; for (double v : buf) acc += v; }
        return acc / n;
    }
};

struct ArbStats {
    long long cases = 0, samples = 0, ma_negative = 0, ma_below_minus_eps = 0, ma_zero = 0, at_cap = 0, level_checks = 0, copies = 0, frames = 0, big_frames = 0;
    LD worst_gain_ratio = 0, worst_level_err = 0; double min_gain = 1e300, max_gain = 0;
};

static ArbStats& dyn_arb() { static ArbStats s; return s; }

// Framing and copies: `x` cut into frames; at a random frame boundary the object is copy-constructed, copy-assigned over a
// USED object, and replicated by vector(n, proto); all four continue with the same frames in interleaved order.
// Every one of them must reproduce the single-call result (gain AND out) bit for bit.
template<class Proc, class T, class Make, class Res>
static void framing_and_copies(vh::Rng& r, const std::string& who, Make make, const base_array<T>& x, const Res& whole, const std::string& json, ArbStats& st) {
    const auto frames = cut_frames(r, x, r.range(1, 6));
    const int kc = r.range(0, int(frames.size()) - 1);
    Proc a = make();
    std::vector<Proc> cp;
    int base = 0, copied_at = -1;
    auto cmp = [&](const Res& res, int b0, const base_array<T>& f, const char* key, const char* which) {
        if (res.gain.size() != f.size() || res.out.size() != f.size()) { out.fail("C20:result-size:" + who, "{" + json + "}"); return; }
        for (int i = 0; i < f.size(); ++i) {
            out.n_oracle++;
            if (!(same_bits(res.gain[i], whole.gain[b0 + i]) && same_bits(res.out[i], whole.out[b0 + i]))) {
                out.fail(std::string(key) + ":" + who, "{" + json + ",\"object\":\"" + which + "\",\"index\":" + std::to_string(b0 + i) + ",\"copied_at\":" + std::to_string(copied_at) +
                         ",\"gain\":" + vh::jnum(res.gain[i]) + ",\"gain_single_call\":" + vh::jnum(whole.gain[b0 + i]) + "}");
                return;
            }
        }
    };
    for (size_t k = 0; k < frames.size(); ++k) {
        if (int(k) == kc) {
            cp.push_back(Proc(a));                              // copy-construct
            if constexpr (std::is_copy_assignable<Proc>::value) {   // (Compressor / Limiter have const members: no assignment)
                Proc used = make();
                if (x.size() > 0) { base_array<T> junk(std::min(x.size(), 37)); for (int i = 0; i < junk.size(); ++i) junk[i] = x[x.size() - 1 - i]; used.process(junk); }
                used = a;                                       // copy-assign over a USED object
                cp.push_back(used);
                Proc& self = cp[0]; Proc* alias = &cp[0]; self = *alias;   // self-assignment keeps the state
            } else cp.push_back(Proc(cp[0]));                   // copy of a copy
            { std::vector<Proc> v(2, a); cp.push_back(v[0]); cp.push_back(v[1]); }   // vector(n, proto), then copies of those
            st.copies += 4;
            copied_at = base;
        }
        const auto& f = frames[k];
        cmp(a.process(f), base, f, "C20:framing", "original");
        for (size_t c = 0; c < cp.size(); ++c) cmp(cp[c].process(f), base, f, "C20:copy-state", c == 0 ? "copy-constructed" : c == 1 ? "copy-assigned" : "vector(n,proto)");
        base += f.size();
        st.frames++;
        if (f.size() > 131072) st.big_frames++;
    }
}

// (E) one AGC object on an arbitrary signal `x` whose last `tail` samples are a constant envelope of amplitude `tail_amp`
template<class T>
static void agc_arbitrary(vh::Rng& r, const AP& p, const base_array<T>& x, int tail, double tail_amp, const std::string& json0, ArbStats& st) {
    const bool cplx = sizeof(T) != sizeof(double);
    const std::string json = js(p) + "," + json0 + ",\"complex\":" + (cplx ? "true" : "false") + ",\"n\":" + std::to_string(x.size());
    const LD gmax = powl(10.0L, LD(p.mg) / 20);
    vh::set_current("C20:crash:agc", "{" + json + "}");
    Agc whole_obj(p.target, p.mg, p.n, p.trise, p.tfall);
    const auto whole = whole_obj.process(x);      // ONE call for the whole signal (frames above 2^17 in some cases)
    const int n = x.size();
    st.cases++;
    if (whole.gain.size() != n || whole.out.size() != n) { out.fail("C20:result-size:agc", "{" + json + "}"); vh::clear_current(); return; }
    MaMirror mm(p.n);
    bool bad_nf = false, bad_max = false, bad_out = false;
    int last_nonzero = -1;
    for (int i = 0; i < n; ++i) {
        out.n_oracle++;
        const double g = whole.gain[i];
        const double m = mm.step(pw(x[i]));
        if (m < 0) { st.ma_negative++; if (m < -2.220446049250313e-16) st.ma_below_minus_eps++; } else if (m == 0) st.ma_zero++;
        auto at = [&] {
            return "{" + json + ",\"index\":" + std::to_string(i) + ",\"x\":" + jv(x[i]) + ",\"gain\":" + vh::jnum(g) + ",\"out\":" + jv(whole.out[i]) +
                   ",\"max_gain_lin\":" + vh::jnum(double(gmax)) + ",\"last_nonzero_input_index\":" + std::to_string(last_nonzero) +
                   ",\"power_estimate_of_the_recurrent_sum\":" + vh::jnum(m) + "}";
        };
        if (pw(x[i]) != 0) last_nonzero = i;
        if (!(std::isfinite(g) && g > 0)) {
            if (!bad_nf) {
                std::string w = at();
                if (p.n <= 40) {   // self-contained replay: the moving average at `index` depends on the last < 2*average_len inputs only
                    w.pop_back();
                    w += ",\"inputs_before_and_at_index\":[";
                    for (int k = std::max(0, i - 2 * p.n); k <= i; ++k) w += (k > std::max(0, i - 2 * p.n) ? "," : "") + jv(x[k]);
                    w += "]}";
                }
                out.fail("C20:agc-gain-not-finite", w);
            }
            bad_nf = true;
            continue;
        }
        const LD ratio = LD(g) / gmax;
        st.worst_gain_ratio = std::max(st.worst_gain_ratio, ratio);
        if (!(ratio <= 1 + TOL_REL)) { if (!bad_max) out.fail("C20:agc-gain-exceeds-max", at()); bad_max = true; }
        if (ratio >= 1 - 1e-12L) st.at_cap++;
        if (!is_x_times_gain(whole.out[i], x[i], g)) { if (!bad_out) out.fail("C20:out-not-x-times-gain:agc", at()); bad_out = true; }
        st.min_gain = std::min(st.min_gain, g); st.max_gain = std::max(st.max_gain, g);
    }
    st.samples += n;
    // the loop recovers: after whatever came first, a constant envelope is driven to the target power within 1 %
    if (tail > 0 && n >= tail && LD(tail_amp) * tail_amp >= 1e-12L) {
        const LD req_db = 10 * log10l(LD(p.target) / (LD(tail_amp) * tail_amp));
        if (req_db < LD(p.mg) - 0.25L) {
            st.level_checks++;
            for (int i = n - 100; i < n; ++i) {
                out.n_oracle++;
                const LD rel = pwl(whole.out[i]) / LD(p.target);
                if (rel == rel) st.worst_level_err = std::max(st.worst_level_err, fabsl(rel - 1));
                if (!(rel >= 0.99L && rel <= 1.01L)) {
                    out.fail("C20:agc-level", "{" + json + ",\"index\":" + std::to_string(i) + ",\"out_power\":" + vh::jnum(double(pwl(whole.out[i]))) + ",\"gain\":" + vh::jnum(whole.gain[i]) +
                             ",\"tail_amplitude\":" + vh::jnum(tail_amp) + ",\"tail_samples\":" + std::to_string(tail) + ",\"required_gain_db\":" + vh::jnum(double(req_db)) + "}");
                    break;
                }
            }
        }
    }
    framing_and_copies<Agc>(r, "agc", [&] { return Agc(p.target, p.mg, p.n, p.trise, p.tfall); }, x, whole, json, st);
    vh::clear_current();
}

static int agc_settle(const AP& p) { return 2 * p.n + int(std::ceil(14.0 / (2 * std::min(p.trise, p.tfall)))) + 200; }

// signal = arbitrary part of `narb` samples (kind, scale) + constant-envelope tail
static arr_real agc_signal(vh::Rng& r, const AP& p, int narb, int kind, double sc, int tail, double tail_amp) {
    arr_real x(narb + tail);
    fill_agc(r, x, 0, narb, kind, p.n, sc);
    for (int i = narb; i < narb + tail; ++i) x[i] = r.coin() ? tail_amp : -tail_amp;
    return x;
}
static AP rnd_agc(vh::Rng& r, int len) {
    AP p{std::pow(10.0, -2 + 4 * r.unit()), 60.0, len, 0.01, 0.01};
    const int k = r.range(0, 7);
    if (k == 0) p.target = 0.01; else if (k == 1) p.target = 100; else if (k == 2) p.target = 1;
    const int m = r.range(0, 9);
    p.mg = m == 0 ? 0.0 : m == 1 ? -0.0 : m == 2 ? 1e-17 : m == 3 ? 400.0 : m == 4 ? -20.0 : m <= 6 ? 60.0 : 5 + 75 * r.unit();
    if (r.range(0, 2) == 0) { p.trise = std::pow(10.0, -2.5 + 1.8 * r.unit()); p.tfall = std::pow(10.0, -2.5 + 1.8 * r.unit()); }
    return p;
}
static void agc_arbitrary_case(vh::Rng& r, int len, int narb, int kind, double sc, bool cplx, int caseno, ArbStats& st) {
    const AP p = rnd_agc(r, len);
    const double tail_amp = dbamp(-60 + 80 * r.unit()) * (r.range(0, 4) == 0 && sc >= 1 ? sc : 1.0);
    const int tail = r.range(0, 3) == 0 ? 0 : agc_settle(p);
    const arr_real m = agc_signal(r, p, narb, kind, sc, tail, tail_amp);
    const std::string json0 = std::string("\"signal\":\"") + AK_NAME[kind] + "\",\"scale\":" + vh::jnum(sc) + ",\"arbitrary_samples\":" + std::to_string(narb) + ",\"case\":" + std::to_string(caseno);
    if (cplx) {
        arr_cmplx z = to_cmplx(r, m);
        agc_arbitrary(r, p, z, tail, tail_amp, json0, st);
    } else agc_arbitrary(r, p, m, tail, tail_amp, json0, st);
    out.stat(std::string("agc_arbitrary_signal_") + AK_NAME[kind]);
}

// CORR for the same classes (short: every sample; long: decimated)
static void corr_agc_arbitrary(vh::Rng& r, int len, int n, int kind, double sc, bool cplx, int dec, int mask) {
    AP p = rnd_agc(r, len);
    arr_real m(n);
    fill_agc(r, m, 0, n, kind, len, sc);
    MaMirror mm(len);
    long long neg = 0;
    if (cplx) {
        const arr_cmplx z = to_cmplx(r, m);
        for (int i = 0; i < n; ++i) neg += mm.step(pw(z[i])) < -2.220446049250313e-16;
        corr_agc_c(p, cut_frames(r, z, r.range(1, 4)), dec, mask);
    } else {
        for (int i = 0; i < n; ++i) neg += mm.step(pw(m[i])) < -2.220446049250313e-16;
        corr_agc_r(p, cut_frames(r, m, r.range(1, 4)), dec, mask);
    }
    out.stat("corr_agc_arbitrary");
    out.stat("corr_agc_arbitrary_power_estimate_below_minus_eps_samples", neg);
    if (neg) out.stat("corr_agc_arbitrary_cases_with_negative_power_estimate");
}

// ------------------------------------------------------------------------------------ main
int main(int argc, char** argv) {
    vh::Args a(argc, argv);
    vh::install_guards();
    vh::Rng rng(a.seed * 1000003ULL + 20);   // (not a multiple of the splitmix increment: streams of different seeds do not overlap)
    vh::watch(a.thorough ? 3000 : 600);
    const bool th = a.thorough;

    // ============================================================ CORR
    {
        const int NC = th ? 1500 : 250;
        for (int c = 0; c < NC; ++c) {
            {   // compressor
                CP p = rnd_cp(rng);
                if (c % 3 == 0) { p.ta = 0; p.tr = c % 2 ? 0 : p.tr; }
                const arr_real x = corr_signal(rng, rng.range(0, 40), p.T, p.W);
                corr_comp(p, split_frames(rng, x, rng.range(1, 3)), 1, 7);
            }
            {   // limiter
                LP p = rnd_lp(rng);
                if (c % 3 == 0) p.ta = 0;
                const arr_real x = corr_signal(rng, rng.range(0, 40), p.T, p.W);
                corr_lim(p, split_frames(rng, x, rng.range(1, 3)), 1, 7);
            }
            {   // noise gate: samples exactly at / next to the linear threshold, short holds
                GP p = rnd_gp(rng);
                if (c % 2 == 0) p.th = rng.range(0, 6) / double(p.fs) + (rng.coin() ? 0.0 : 0.5 / p.fs);
                if (c % 4 == 0) { p.ta = std::pow(10.0, -5 + 2 * rng.unit()); p.tr = std::pow(10.0, -5 + 2 * rng.unit()); }
                const double tl = db2mag(p.T);
                const int n = rng.range(0, 60);
                arr_real x(n);
                bool loud = rng.coin();
                for (int i = 0; i < n; ++i) {
                    if (rng.range(0, 5) == 0) loud = !loud;
                    const int k = rng.range(0, 9);
                    double v = k == 0 ? tl : k == 1 ? std::nextafter(tl, 0.0) : k == 2 ? std::nextafter(tl, 2.0) : loud ? tl * (1 + 3 * rng.unit()) : tl * rng.unit();
                    if (k == 3) v = 0;
                    x[i] = rng.coin() ? v : -v;
                }
                corr_gate(p, split_frames(rng, x, rng.range(1, 3)), 1);
            }
            {   // agc
                AP p{std::pow(10.0, -2 + 4 * rng.unit()), rng.range(0, 3) == 0 ? 60.0 : 5 + 75 * rng.unit(), 1, 0.01, 0.01};
                const int k = rng.range(0, 9);
                p.n = k == 0 ? 1 : k == 1 ? 2 : k == 2 ? 1000 : k <= 5 ? rng.range(1, 12) : rng.range(1, 1000);
                if (rng.range(0, 2) == 0) { p.trise = std::pow(10.0, -3 + 2.5 * rng.unit()); p.tfall = std::pow(10.0, -3 + 2.5 * rng.unit()); }
                const int n = (p.n <= 12 ? rng.range(0, 5 * p.n + 8) : rng.range(0, 40)) + (c % 50 == 0 ? p.n : 0);
                const double amp = std::pow(10.0, (-60 + 80 * rng.unit()) / 20);
                if (c % 2 == 0) {
                    arr_real x(n);
                    for (int i = 0; i < n; ++i) x[i] = (rng.range(0, 7) == 0 ? 0.0 : amp) * (rng.range(0, 3) == 0 ? rng.gauss() : (rng.coin() ? 1.0 : -1.0));
                    corr_agc_r(p, split_frames(rng, x, rng.range(1, 3)), 1, 7);
                } else {
                    arr_cmplx x(n);
                    for (int i = 0; i < n; ++i) { const double ph = 6.283185307179586 * rng.unit(); const double m = rng.range(0, 3) == 0 ? amp * rng.unit() : amp; x[i] = cmplx_t{m * std::cos(ph), m * std::sin(ph)}; }
                    std::vector<arr_cmplx> fr;
                    const int cut = rng.range(0, n);
                    arr_cmplx f1(cut), f2(n - cut);
                    for (int i = 0; i < cut; ++i) f1[i] = x[i];
                    for (int i = cut; i < n; ++i) f2[i - cut] = x[i];
                    fr.push_back(f1); fr.push_back(f2);
                    corr_agc_c(p, fr, 1, 7);
                }
            }
        }
        // constructor guards: boundary values accepted, just outside rejected (ERR)
        {
            const arr_real x = corr_signal(rng, 6, -10, 4);
            const std::vector<arr_real> fr{x};
            const double nan = std::nan("");
            const double Ts[] = {-50, 0, -50.000001, 1e-9, nan, -25};
            const int Rs[] = {1, 50, 0, 51, -3, 5};
            const double Ws[] = {0, 20, -1e-9, 20.000001, nan, 3};
            const double ts[] = {0, 4, -1e-9, 4.000001, nan, 0.01};
            for (double T : Ts) corr_comp({44100, T, 5, 2, 0.01, 0.2}, fr, 1, 1), corr_lim({44100, T, 2, 0, 0.2}, fr, 1, 1), corr_gate({44100, T, 0.05, 0.02, 0.001}, fr, 1);
            for (int R : Rs) corr_comp({44100, -10, R, 2, 0.01, 0.2}, fr, 1, 1);
            for (double W : Ws) corr_comp({44100, -10, 5, W, 0.01, 0.2}, fr, 1, 1), corr_lim({44100, -10, W, 0, 0.2}, fr, 1, 1);
            for (double t : ts) {
                corr_comp({44100, -10, 5, 2, t, 0.2}, fr, 1, 1), corr_comp({44100, -10, 5, 2, 0.01, t}, fr, 1, 1);
                corr_lim({44100, -10, 2, t, 0.2}, fr, 1, 1), corr_lim({44100, -10, 2, 0, t}, fr, 1, 1);
                corr_gate({44100, -10, t, 0.02, 0.001}, fr, 1), corr_gate({44100, -10, 0.05, t, 0.001}, fr, 1), corr_gate({44100, -10, 0.05, 0.02, t > 1 ? t : t / 100}, fr, 1);
            }
            corr_gate({44100, -140, 0.05, 0.02, 0.0}, fr, 1);
            corr_gate({44100, -140.001, 0.05, 0.02, 0.0}, fr, 1);
            for (int n : {1, 0, -1, 3}) corr_agc_r({1.0, 60.0, n, 0.01, 0.01}, fr, 1, 1);
            // default-constructed objects = documented defaults
            corr_comp({44100, -10.0, 5, 0, 0.01, 0.2}, fr, 1, 7);
            corr_lim({44100, -10.0, 0, 0, 0.2}, fr, 1, 7);
            corr_gate({44100, -10.0, 0.05, 0.02, 0.05}, fr, 1);
            corr_agc_r({1, 60.0, 100, 0.01, 0.01}, fr, 1, 7);
        }
        // extreme finite amplitudes
        {
            arr_real x(8);
            const double v[] = {1e300, -1e300, 1.7976931348623157e308, 4.9e-324, -2.2250738585072014e-308, 1e-200, 1e150, 0.0};
            for (int i = 0; i < 8; ++i) x[i] = v[i];
            corr_comp({48000, -20, 4, 6, 0.0, 0.0}, {x}, 1, 5);
            corr_comp({48000, -20, 50, 20, 0.001, 0.1}, {x}, 1, 5);
            corr_lim({48000, -20, 6, 0.0, 0.0}, {x}, 1, 5);
            corr_lim({48000, 0, 0, 0.0, 0.01}, {x}, 1, 5);
            corr_gate({48000, -20, 0.001, 0.001, 0.0}, {x}, 1);
        }
        // long signals, decimated outputs
        const int NL = th ? 12 : 3;
        for (int c = 0; c < NL; ++c) {
            const int n = 20000;
            const int kind = c % SIG_KINDS;
            {
                CP p = rnd_cp(rng);
                if (c % 2) { p.ta = std::pow(10.0, -4 + 2 * rng.unit()); p.tr = std::pow(10.0, -3 + 2 * rng.unit()); }
                corr_comp(p, split_frames(rng, gen_signal(rng, n, kind), 3), 97, 5);
            }
            {
                LP p = rnd_lp(rng);
                if (c % 2) { p.ta = 0; p.tr = std::pow(10.0, -3 + 2 * rng.unit()); }
                corr_lim(p, split_frames(rng, gen_signal(rng, n, kind), 3), 97, 5);
            }
            {
                GP p = rnd_gp(rng);
                p.T = -40 + 30 * rng.unit(); p.ta = std::pow(10.0, -4 + 2 * rng.unit()); p.tr = std::pow(10.0, -4 + 2 * rng.unit()); p.th = 0.002 * rng.unit();
                corr_gate(p, split_frames(rng, gen_signal(rng, n, c % 2 ? SIG_BURSTS : kind), 3), 97);
            }
            {
                AP p{std::pow(10.0, -2 + 4 * rng.unit()), 60.0, c % 3 == 0 ? 1000 : rng.range(1, 1000), 0.01, 0.01};
                corr_agc_r(p, split_frames(rng, gen_signal(rng, n, c % 2 ? SIG_NOISE : SIG_STEPS), 3), 97, 5);
            }
        }
    }

    // ============================================================ CORR for class (E): AGC on arbitrary signals
    {
        const int NQ = th ? 180 : 36;      // short windows, every sample, all three selectors
        for (int c = 0; c < NQ; ++c) {
            const int len = c % 5 == 4 ? rng.range(1, 40) : FORCED_LEN[c % 4];   // 1, 2, 3, 7, random
            corr_agc_arbitrary(rng, len, rng.range(20, 30 * len + 300), c % AK_KINDS, SCALES[(c / 3) % NSCALES], (c & 1) != 0, 1, (!th || c % 3 == 0) ? 7 : 5);
        }
        const int NLA = th ? 8 : 4;        // long windows, decimated
        for (int c = 0; c < NLA; ++c)
            corr_agc_arbitrary(rng, c % 2 ? 333 : (c % 4 == 0 ? 1000 : rng.range(100, 1000)), c % 2 ? 12000 : 20000, c < 4 ? AK_BURST_SILENCE + (c / 2) * 2 : c % AK_KINDS,
                               c < 2 ? 1.0 : SCALES[c % NSCALES], (c & 1) != 0, 97, (c & 1) ? 4 : 5);
    }

    // ============================================================ ORACLE (A)(B): arbitrary signals
    {
        const int NA = th ? 60 : 4;
        const int N = 100000;
        DynStats sc, sl;
        for (int c = 0; c < NA; ++c) {
            const int kind = c % SIG_KINDS;
            CP p = rnd_cp(rng);
            arbitrary_dyn(rng, "compressor", p, 1.0L / p.R, [&] { return Compressor(p.fs, p.T, p.R, p.W, p.ta, p.tr); }, N, kind, sc, c);
            LP q = rnd_lp(rng);
            if (c % 2 == 0) q.ta = 0;   // the ceiling clause
            arbitrary_dyn(rng, "limiter", q, 0.0L, [&] { return Limiter(q.fs, q.T, q.W, q.ta, q.tr); }, N, (kind + 1) % SIG_KINDS, sl, c);
            GP g = rnd_gp(rng);
            if (c % 2) { g.ta = std::pow(10.0, -4 + 2 * rng.unit()); g.tr = std::pow(10.0, -4 + 2 * rng.unit()); g.th = 0.01 * rng.unit(); }
            arbitrary_gate(rng, g, N, (kind + 2) % SIG_KINDS, c);
        }
        // shorter signals over many more parameter sets (incl. all corner combinations)
        const int NS = th ? 3000 : 300;
        for (int c = 0; c < NS; ++c) {
            CP p = rnd_cp(rng);
            if (c < 64) { p.T = (c & 1) ? 0 : -50; p.R = (c & 2) ? 50 : 1; p.W = (c & 4) ? 20 : 0; p.ta = (c & 8) ? 4 : 0; p.tr = (c & 16) ? 4 : 0; p.fs = (c & 32) ? 192000 : 8000; }
            arbitrary_dyn(rng, "compressor", p, 1.0L / p.R, [&] { return Compressor(p.fs, p.T, p.R, p.W, p.ta, p.tr); }, 3000, rng.range(0, SIG_KINDS - 1), sc, 1000 + c);
            LP q = rnd_lp(rng);
            if (c < 32) { q.T = (c & 1) ? 0 : -50; q.W = (c & 2) ? 20 : 0; q.ta = (c & 4) ? 4 : 0; q.tr = (c & 8) ? 4 : 0; q.fs = (c & 16) ? 192000 : 8000; }
            else if (c % 2 == 0) q.ta = 0;
            arbitrary_dyn(rng, "limiter", q, 0.0L, [&] { return Limiter(q.fs, q.T, q.W, q.ta, q.tr); }, 3000, rng.range(0, SIG_KINDS - 1), sl, 1000 + c);
            GP g = rnd_gp(rng);
            arbitrary_gate(rng, g, 3000, rng.range(0, SIG_KINDS - 1), 1000 + c);
        }
        out.stat("comp_attack_steps", sc.attack); out.stat("comp_release_steps", sc.release);
        out.stat("comp_level_below", sc.below); out.stat("comp_level_knee", sc.knee); out.stat("comp_level_above", sc.above);
        out.stat("lim_attack_steps", sl.attack); out.stat("lim_release_steps", sl.release);
        out.stat("lim_level_below", sl.below); out.stat("lim_level_knee", sl.knee); out.stat("lim_level_above", sl.above);
        out.stat("gain_above_one_by_rounding", sc.gain_gt1 + sl.gain_gt1);
        out.stat("max_gain_excess_e18", (long long)(std::max(sc.max_gain_excess, sl.max_gain_excess) * 1e18L));
        out.stat("max_smoothing_residual_db_e15", (long long)(std::max(sc.max_tc_err, sl.max_tc_err) * 1e15L));
        out.stat("limiter_max_out_over_ceiling_e15_minus1", (long long)((sl.max_ceiling_ratio - 1) * 1e15L));
    }

    // ============================================================ ORACLE (B'): rise / fall times
    {
        const int NR = th ? 200 : 24;
        for (int c = 0; c < NR; ++c) {
            const int fs = pick_fs(rng);
            const double ta = std::pow(10.0, std::log10(10.0 / fs) + rng.unit() * (std::log10(std::min(4.0, 30000.0 / fs)) - std::log10(10.0 / fs)));
            const double tr = std::pow(10.0, std::log10(10.0 / fs) + rng.unit() * (std::log10(std::min(4.0, 30000.0 / fs)) - std::log10(10.0 / fs)));
            const double T = pick(rng, -50, 0), W = pick(rng, 0, 20);
            const int R = rng.range(2, 50);
            const CP p{fs, T, R, W, ta, tr};
            rise_time("compressor", fs, T, ta, tr, [&] { return Compressor(fs, T, R, W, ta, tr); }, js(p));
            const LP q{fs, T, W, ta, tr};
            rise_time("limiter", fs, T, ta, tr, [&] { return Limiter(fs, T, W, ta, tr); }, js(q));
        }
        if (th) {   // the longest admitted time constant at the lowest rate
            const CP p{8000, -20, 4, 6, 4.0, 4.0};
            rise_time("compressor", 8000, -20, 4.0, 4.0, [&] { return Compressor(8000, -20, 4, 6, 4.0, 4.0); }, js(p));
        }
    }

    // ============================================================ ORACLE (C): static characteristic
    {
        CurveStats cs;
        std::vector<double> Ts, Ws;
        std::vector<int> Rs;
        if (th) {
            for (int t = -50; t <= 0; t += 5) Ts.push_back(t);
            Ts.push_back(-50 + 50 * rng.unit()); Ts.push_back(-0.3);
            for (int r = 1; r <= 50; ++r) Rs.push_back(r);
            for (int w = 0; w <= 20; w += 2) Ws.push_back(w);
            Ws.push_back(0.01); Ws.push_back(0.5); Ws.push_back(1); Ws.push_back(20 * rng.unit()); Ws.push_back(19.99);
        } else {
            Ts = {-50, -10, 0, -50 + 50 * rng.unit()};
            Rs = {1, 2, 5, 50, rng.range(3, 49)};
            Ws = {0, 0.01, 10, 20, 20 * rng.unit()};
        }
        for (double T : Ts)
            for (double W : Ws) {
                const int fs = pick_fs(rng);
                for (int R : Rs) {
                    const CP p{fs, T, R, W, 0, 0};
                    static_curve(rng, "compressor", T, 1.0L / R, W, [&] { return Compressor(fs, T, R, W, 0, 0); }, js(p), th, cs);
                }
                const LP q{fs, T, W, 0, 0};
                static_curve(rng, "limiter", T, 0.0L, W, [&] { return Limiter(fs, T, W, 0, 0); }, js(q), th, cs);
            }
        out.stat("static_curve_points", cs.pts);
        out.stat("static_curve_max_err_db_e15", (long long)(cs.max_err * 1e15L));
    }

    // ============================================================ ORACLE (D): AGC
    {
        AgcStats st;
        std::vector<double> targets = {0.01, 0.1, 1, 10, 100};
        std::vector<int> lens = th ? std::vector<int>{1, 2, 3, 10, 100, 999, 1000} : std::vector<int>{1, 10, 1000};
        const int nlev = th ? 17 : 5;   // input power levels over 80 dB: -60 .. +20 dB
        int cnt = 0;
        for (double tg : targets)
            for (int len : lens)
                for (int k = 0; k < nlev; ++k) {
                    const double pdb = -60 + 80.0 * k / (nlev - 1);
                    const double amp = std::pow(10.0, pdb / 20);
                    AP p{tg, 60.0, len, 0.01, 0.01};
                    agc_case(rng, p, amp, (cnt++) & 1, st);
                }
        const int NRND = th ? 600 : 40;
        for (int c = 0; c < NRND; ++c) {
            AP p{std::pow(10.0, -2 + 4 * rng.unit()), 10 + 70 * rng.unit(), rng.range(1, 1000), 0.01, 0.01};
            if (c % 3 == 0) { p.trise = std::pow(10.0, -2.5 + 1.8 * rng.unit()); p.tfall = std::pow(10.0, -2.5 + 1.8 * rng.unit()); }
            const double amp = std::pow(10.0, (-60 + 80 * rng.unit()) / 20);
            agc_case(rng, p, amp, c & 1, st);
        }
        out.stat("agc_cases_converging", st.converge);
        out.stat("agc_cases_capped", st.capped);
        out.stat("agc_worst_level_err_ppm", (long long)(st.worst_level_err * 1e6L));
        out.stat("agc_worst_gain_over_max_e15_minus1", (long long)((st.worst_gain_ratio - 1) * 1e15L));
    }

    // ============================================================ ORACLE (E): AGC (and the other processors) on arbitrary signals
    {
        ArbStats st;
        int caseno = 0;
        // 1e5-sample signals: every signal class, real and complex, forced averaging lengths, every scale class
        const int NBIG = th ? AK_KINDS * 2 * 6 : AK_KINDS * 2;
        for (int c = 0; c < NBIG; ++c) {
            const int kind = c % AK_KINDS;
            const bool cplx = (c / AK_KINDS) & 1;
            const int len = (c % 7 == 6) ? rng.range(1, 1000) : FORCED_LEN[(c + c / AK_KINDS) % 6];
            const double sc = c < 6 ? 1.0 : SCALES[c % NSCALES];
            agc_arbitrary_case(rng, len, 100000, kind, sc, cplx, caseno++, st);
        }
        // the witness class of the repaired defect, spelled out: Agc(1, 30, 3), 5000 samples randn*3.3, 3000 zeros, signal again
        for (int rep = 0; rep < (th ? 40 : 6); ++rep) {
            const AP p{1.0, 30.0, rep < 2 ? 3 : FORCED_LEN[rep % 6], 0.01, 0.01};
            const int tail = agc_settle(p);
            arr_real x(8000 + tail);
            for (int i = 0; i < 5000; ++i) x[i] = 3.3 * rng.gauss();
            for (int i = 5000; i < 8000; ++i) x[i] = 0.0;
            for (int i = 8000; i < 8000 + tail; ++i) x[i] = rng.coin() ? 0.5 : -0.5;
            const std::string j0 = "\"signal\":\"randn*3.3 (5000) + zeros (3000) + constant envelope\",\"case\":" + std::to_string(caseno++);
            if (rep & 1) agc_arbitrary(rng, p, to_cmplx(rng, x), tail, 0.5, j0, st);
            else agc_arbitrary(rng, p, x, tail, 0.5, j0, st);
        }
        // one call above 2^17 samples arriving after smaller ones (lesson 3), window 1000 and 7
        for (int rep = 0; rep < (th ? 4 : 1); ++rep) {
            const AP p = rnd_agc(rng, rep % 2 ? 7 : 1000);
            const arr_real x = agc_signal(rng, p, 131072 + 4099, AK_MIX, 1.0, 0, 0.0);
            Agc a(p.target, p.mg, p.n, p.trise, p.tfall), b(p.target, p.mg, p.n, p.trise, p.tfall);
            arr_real f1(1500), f2(131072 + 1), f3(x.size() - f1.size() - f2.size());
            for (int i = 0; i < f1.size(); ++i) f1[i] = x[i];
            for (int i = 0; i < f2.size(); ++i) f2[i] = x[f1.size() + i];
            for (int i = 0; i < f3.size(); ++i) f3[i] = x[f1.size() + f2.size() + i];
            const auto w = a.process(x);
            const auto r1 = b.process(f1); const auto r2 = b.process(f2); const auto r3 = b.process(f3);
            bool same = true;
            for (int i = 0; i < x.size() && same; ++i) {
                const double g = i < f1.size() ? r1.gain[i] : i < f1.size() + f2.size() ? r2.gain[i - f1.size()] : r3.gain[i - f1.size() - f2.size()];
                out.n_oracle++;
                if (!same_bits(g, w.gain[i])) { same = false; out.fail("C20:framing:agc", "{" + js(p) + ",\"frames\":[1500,131073," + std::to_string(f3.size()) + "],\"index\":" + std::to_string(i) + "}"); }
            }
            st.big_frames++;
            agc_arbitrary(rng, p, x, 0, 0.0, "\"signal\":\"mix\",\"case\":" + std::to_string(caseno++), st);
        }
        // shorter signals over many (length, class, scale, real/complex) combinations
        const int NSH = th ? 4000 : 320;
        for (int c = 0; c < NSH; ++c) {
            const int len = c % 3 == 0 ? FORCED_LEN[(c / 3) % 6] : rng.range(1, c % 3 == 1 ? 30 : 1000);
            agc_arbitrary_case(rng, len, rng.range(0, 3) == 0 ? rng.range(0, 50) : rng.range(2 * len, 2 * len + 6000), c % AK_KINDS, SCALES[(c / AK_KINDS) % NSCALES], (c & 1) != 0, caseno++, st);
        }
        out.stat("agc_arbitrary_cases", st.cases);
        out.stat("agc_arbitrary_samples", st.samples);
        out.stat("agc_arbitrary_power_estimate_negative_samples", st.ma_negative);
        out.stat("agc_arbitrary_power_estimate_below_minus_eps_samples", st.ma_below_minus_eps);
        out.stat("agc_arbitrary_power_estimate_zero_samples", st.ma_zero);
        out.stat("agc_arbitrary_samples_at_max_gain", st.at_cap);
        out.stat("agc_arbitrary_level_checks_after_recovery", st.level_checks);
        out.stat("agc_arbitrary_worst_level_err_ppm", (long long)(st.worst_level_err * 1e6L));
        out.stat("agc_arbitrary_worst_gain_over_max_e15_minus1", (long long)((st.worst_gain_ratio - 1) * 1e15L));
        out.stat("agc_arbitrary_min_gain_log10_x100", st.min_gain > 0 && st.min_gain < 1e300 ? (long long)(100 * std::log10(st.min_gain)) : 0);
        out.stat("agc_arbitrary_copies_mid_stream", st.copies);
        out.stat("agc_arbitrary_frames", st.frames);
        out.stat("agc_frames_above_2pow17", st.big_frames);

        // the same signal classes through Compressor / Limiter / NoiseGate
        DynStats sc, sl;
        const int ND = th ? 2 * AK_KINDS * NSCALES : AK_KINDS;
        for (int c = 0; c < ND; ++c) {
            const int kind = c % AK_KINDS, navg = FORCED_LEN[c % 6] * 3 + 1;
            const double scale = SCALES[(c / 2) % NSCALES];
            const int n = c < (th ? 12 : 3) ? 100000 : 12000;
            const std::string name = std::string(AK_NAME[kind]) + "@" + vh::jnum(scale);
            arr_real x(n);
            fill_agc(rng, x, 0, n, kind, navg, scale);
            CP p = rnd_cp(rng);
            arbitrary_dyn_x(rng, "compressor", p, 1.0L / p.R, [&] { return Compressor(p.fs, p.T, p.R, p.W, p.ta, p.tr); }, x, name, sc, 5000 + c);
            LP q = rnd_lp(rng);
            if (c % 3 != 2) q.ta = 0;   // the ceiling clause
            fill_agc(rng, x, 0, n, (kind + 1) % AK_KINDS, navg, scale);
            arbitrary_dyn_x(rng, "limiter", q, 0.0L, [&] { return Limiter(q.fs, q.T, q.W, q.ta, q.tr); }, x, name, sl, 5000 + c);
            GP g = rnd_gp(rng);
            if (c % 2) { g.ta = std::pow(10.0, -4 + 2 * rng.unit()); g.tr = std::pow(10.0, -4 + 2 * rng.unit()); g.th = 0.01 * rng.unit(); }
            fill_agc(rng, x, 0, n, (kind + 2) % AK_KINDS, navg, scale);
            arbitrary_gate_x(rng, g, x, name, 5000 + c);
        }
        out.stat("dyn_scaled_signal_cases", 3 * ND);
        out.stat("dyn_copies_mid_stream", dyn_arb().copies);
        out.stat("dyn_frames", dyn_arb().frames);
        out.stat("limiter_scaled_max_out_over_ceiling_e15_minus1", (long long)((sl.max_ceiling_ratio - 1) * 1e15L));
        out.stat("scaled_max_smoothing_residual_db_e15", (long long)(std::max(sc.max_tc_err, sl.max_tc_err) * 1e15L));
    }

    // a time constant of -0.0 IS inside the quantifier 0..4 s (it equals 0 and passes the constructors' `>= 0` guards): it once gave
    // exp(-log 9 / -0.0) = exp(+inf) = inf as smoothing coefficient and NaN on every sample (repaired in /repo, known_findings.txt).
    // Strict probe: every processor with -0.0 for the attack and / or release time must behave bit for bit like the one built with +0.0.
    {
        arr_real x(64);
        vh::Rng pr(a.seed * 7919 + 17);
        for (int i = 0; i < 64; ++i) x[i] = (i % 9 == 0) ? 0.0 : pr.gauss() * ((i / 16) % 2 ? 3.0 : 0.05);
        auto same = [&](const arr_real& u, const arr_real& v) { for (int i = 0; i < u.size(); ++i) if (!(std::isfinite(u[i]) && vh::hx(u[i]) == vh::hx(v[i]))) return false; return true; };
        for (int m = 1; m < 4; ++m) {
            const double ta = (m & 1) ? -0.0 : 0.0, tr = (m & 2) ? -0.0 : 0.2, tr0 = (m & 2) ? 0.0 : 0.2;
            const std::string js = "{\"attack\":" + std::string((m & 1) ? "-0.0" : "0.0") + ",\"release\":" + std::string((m & 2) ? "-0.0" : "0.2") + "}";
            { Compressor p1(44100, -10.0, 5, 4.0, ta, tr), p0(44100, -10.0, 5, 4.0, 0.0, tr0); auto r1 = p1.process(x), r0 = p0.process(x);
              out.n_oracle++; if (!same(r1.gain, r0.gain) || !same(r1.out, r0.out)) out.fail("C20:negative-zero-time:compressor", js); }
            { Limiter p1(44100, -10.0, 2.0, ta, tr), p0(44100, -10.0, 2.0, 0.0, tr0); auto r1 = p1.process(x), r0 = p0.process(x);
              out.n_oracle++; if (!same(r1.gain, r0.gain) || !same(r1.out, r0.out)) out.fail("C20:negative-zero-time:limiter", js); }
        }
        out.stat("negative_zero_time_probes", 6);
    }

    vh::unwatch();
    out.sample("{\"proc\":\"compressor\",\"fs\":44100,\"threshold\":-10,\"ratio\":5,\"knee\":10,\"attack\":0,\"release\":0,\"note\":\"static curve: -5.01..-4.99 dB in must map continuously (old defect: 1 dB jump)\"}");
    out.sample("{\"proc\":\"limiter\",\"fs\":48000,\"threshold\":-6,\"knee\":4,\"attack\":0,\"release\":0.2,\"signal\":\"bursts\",\"n\":100000}");
    out.sample("{\"proc\":\"agc\",\"target\":1,\"max_gain\":60,\"average_len\":100,\"amplitude\":0.001,\"complex\":true}");
    out.finish();
    return 0;
}
