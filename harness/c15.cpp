// C15 — prime and power-of-two helpers agree with number theory and terminate.
#include "common.hpp"
#include <chrono>
using namespace dsplib;
static vh::Out out;

// ---------------------------------------------------------------- references
static std::vector<uint8_t> g_sieve;   // g_sieve[n] = 1 iff prime, n < size
static void build_sieve(uint32_t n) {
    g_sieve.assign(size_t(n) + 1, 1);
    g_sieve[0] = 0; if (n >= 1) g_sieve[1] = 0;
    for (uint64_t i = 2; i * i <= n; ++i)
        if (g_sieve[i]) for (uint64_t j = i * i; j <= n; j += i) g_sieve[j] = 0;
}
static uint64_t mulmod(uint64_t a, uint64_t b, uint64_t m) { return (unsigned __int128)a * b % m; }
static uint64_t powmod(uint64_t a, uint64_t e, uint64_t m) {
    uint64_t r = 1; a %= m;
    while (e) { if (e & 1) r = mulmod(r, a, m); a = mulmod(a, a, m); e >>= 1; }
    return r;
}
// deterministic Miller-Rabin for n < 2^32 (bases 2, 7, 61)
static bool ref_prime(uint64_t n) {
    if (n < g_sieve.size()) return g_sieve[n];
    if (n % 2 == 0) return false;
    uint64_t d = n - 1; int s = 0;
    while (d % 2 == 0) { d /= 2; ++s; }
    for (uint64_t a : {2ULL, 7ULL, 61ULL}) {
        if (a % n == 0) continue;
        uint64_t x = powmod(a, d, n);
        if (x == 1 || x == n - 1) continue;
        bool comp = true;
        for (int i = 1; i < s && comp; ++i) { x = mulmod(x, x, n); if (x == n - 1) comp = false; }
        if (comp) return false;
    }
    return true;
}

static double now() { return std::chrono::duration<double>(std::chrono::steady_clock::now().time_since_epoch()).count(); }
static const double SLOW = 0.5;   // seconds; sqrt(2^32) trial divisions take well under a millisecond

static std::string js(const char* fn, uint64_t n) { return std::string("{\"op\":\"") + fn + "\",\"n\":" + std::to_string(n) + "}"; }

static void chk_isprime(uint32_t n, bool corr) {
    vh::set_current("C15:hang-or-crash:isprime", js("isprime", n));
    const double t0 = now();
    const bool r = isprime(n);
    const double dt = now() - t0;
    vh::clear_current();
    out.n_oracle++;
    if (corr) out.corr("isprime " + std::to_string(n), r ? "1" : "0");
    if (r != ref_prime(n)) out.fail("C15:isprime-wrong", js("isprime", n));
    if (dt > SLOW) out.fail("C15:isprime-slow", js("isprime", n));
    out.stat(r ? "isprime_true" : "isprime_false");
}

static void chk_factor(uint32_t n, bool corr) {
    vh::set_current("C15:hang-or-crash:factor", js("factor", n));
    const double t0 = now();
    const arr_int f = factor(n);
    const double dt = now() - t0;
    vh::clear_current();
    out.n_oracle++;
    if (corr) out.corr("factor " + std::to_string(n), std::to_string(f.size()) + vh::join_ints(f.to_vec()));
    bool ok = f.size() >= 1;
    uint64_t prod = 1;
    for (int i = 0; i < f.size(); ++i) {
        prod *= uint64_t(uint32_t(f[i]));
        if (n >= 2 && !ref_prime(uint32_t(f[i]))) ok = false;
        if (i > 0 && uint32_t(f[i]) < uint32_t(f[i - 1])) ok = false;
        if (prod > 0xffffffffULL) { ok = false; break; }
    }
    // representable: every factor must fit `int`; a prime n >= 2^31 cannot be listed -> not claimed
    if (n >= 2 && ok && prod != n) ok = false;
    if (n < 2 && !(f.size() == 1 && uint32_t(f[0]) == n)) ok = false;   // documented corner: factor(0)={0}, factor(1)={1}
    bool representable = true;
    { uint32_t m = n; for (uint32_t d = 2; uint64_t(d) * d <= m; ++d) while (m % d == 0) m /= d; if (m >= 0x80000000u) representable = false; }
    if (!ok && representable) out.fail("C15:factor-wrong", js("factor", n));
    if (dt > SLOW) out.fail("C15:factor-slow", js("factor", n));
    out.stat("factor_nf_" + std::to_string(f.size() > 5 ? 6 : f.size()));
}

static void chk_nextprime(uint32_t n, bool corr) {
    if (n > 4294967291u) return;   // answer not representable
    vh::set_current("C15:hang-or-crash:nextprime", js("nextprime", n));
    const double t0 = now();
    const uint32_t p = nextprime(n);
    const double dt = now() - t0;
    vh::clear_current();
    out.n_oracle++;
    if (corr) out.corr("nextprime " + std::to_string(n), std::to_string(p));
    bool ok = p >= n && ref_prime(p);
    for (uint64_t q = n; ok && q < p; ++q) if (ref_prime(q)) ok = false;
    if (!ok) out.fail("C15:nextprime-wrong", js("nextprime", n));
    if (dt > SLOW) out.fail("C15:nextprime-slow", js("nextprime", n));
    out.stat("nextprime_calls");
}

static void chk_primes(uint32_t n, bool corr) {
    vh::set_current("C15:hang-or-crash:primes", js("primes", n));
    const arr_int p = primes(n);
    vh::clear_current();
    out.n_oracle++;
    unsigned long long cs = 0;
    for (int i = 0; i < p.size(); ++i) cs = (cs * 31 + uint32_t(p[i])) % 1000000007ULL;
    if (corr) out.corr("primes " + std::to_string(n), std::to_string(p.size()) + " " + std::to_string(cs));
    bool ok = true;
    int k = 0;
    for (uint32_t q = 2; q <= n && ok; ++q)
        if (ref_prime(q)) { if (k >= p.size() || uint32_t(p[k]) != q) ok = false; ++k; }
    if (k != p.size()) ok = false;
    if (!ok) out.fail("C15:primes-wrong", js("primes", n));
    out.stat("primes_calls");
}

static void chk_pow2(int m, bool corr) {
    vh::set_current("C15:hang-or-crash:nextpow2", js("nextpow2", uint32_t(m)));
    const int p = nextpow2(m);
    const bool ip = ispow2(m);
    vh::clear_current();
    out.n_oracle++;
    if (corr) out.corr("pow2 " + std::to_string(m), std::to_string(p) + " " + (ip ? "1" : "0"));
    // ceil(log2 m) for m >= 1
    int want = 0;
    while ((1LL << want) < (long long)m) ++want;
    const bool wantp = m > 0 && (m & (m - 1)) == 0;
    if (m >= 1 && (p != want || ip != wantp)) out.fail("C15:pow2-wrong", js("nextpow2", uint32_t(m)));
    out.stat(ip ? "pow2_true" : "pow2_false");
}

int main(int argc, char** argv) {
    vh::Args a(argc, argv);
    vh::install_guards();
    vh::Rng rng(a.seed);
    const uint32_t NS = a.thorough ? (1u << 22) : (1u << 18);   // exhaustive range against the sieve
    const uint32_t NC = a.thorough ? (1u << 16) : (1u << 13);   // of which: correspondence with the Lean model
    build_sieve(std::max(NS, 1u << 20));
    vh::watch(a.thorough ? 3000 : 600);
    for (uint32_t n = 0; n <= NS; ++n) {
        const bool corr = n <= NC;
        chk_isprime(n, corr);
        chk_factor(n, corr);
        if (n <= (a.thorough ? (1u << 18) : (1u << 14))) chk_nextprime(n, n <= 3000);
        if (n <= 3000 || (n % 50021 == 0 && n <= (1u << 20))) chk_primes(n, n <= 600);
        if (n <= (1u << 20)) chk_pow2(int(n), n <= 5000);
    }
    // boundary windows
    const uint64_t centers[] = {1ULL << 16, 1ULL << 24, 1ULL << 31, 65521ULL * 65521ULL, 1ULL << 32};
    const uint32_t Wd = a.thorough ? 4096 : 256;
    for (uint64_t c : centers)
        for (int64_t d = -int64_t(Wd); d <= int64_t(Wd); ++d) {
            const int64_t v = int64_t(c) + d;
            if (v < 0 || v > 0xffffffffLL) continue;
            // the List-based Lean model is slow for huge n: fewer correspondence cases there
            const bool big = c > (1ULL << 24);
            const bool corr = (std::llabs(d) <= (big ? 3 : 24));
            chk_isprime(uint32_t(v), corr);
            chk_factor(uint32_t(v), corr);
            if (std::llabs(d) <= 64) chk_nextprime(uint32_t(v), std::llabs(d) <= (big ? 0 : 6));
        }
    // squares and products of two primes near 2^16
    std::vector<uint32_t> near;
    for (uint32_t p = 65000; p < 65600; ++p) if (ref_prime(p)) near.push_back(p);
    for (size_t i = 0; i < near.size(); ++i)
        for (size_t j = i; j < near.size() && j < i + (a.thorough ? 12 : 3); ++j) {
            const uint64_t v = uint64_t(near[i]) * near[j];
            if (v > 0xffffffffULL) continue;
            const bool corr = (i % 16 == 0 && j == i);
            chk_isprime(uint32_t(v), corr);
            chk_factor(uint32_t(v), corr);
        }
    // random 32-bit arguments
    const int NR = a.thorough ? 1000000 : 100000;
    for (int r = 0; r < NR; ++r) {
        const uint32_t n = uint32_t(rng.next());
        const bool corr = (r % 5000 == 0);
        chk_isprime(n, corr);
        chk_factor(n, corr);
        if (r % 100 == 0) chk_nextprime(n, r % 50000 == 0);
    }
    // powers of two: every m within 64 of 2^k, INT_MAX
    for (int k = 0; k <= 30; ++k)
        for (int d = -64; d <= 64; ++d) {
            const long long m = (1LL << k) + d;
            if (m >= 0 && m <= 0x7fffffffLL) chk_pow2(int(m), true);
        }
    chk_pow2(0x7fffffff, true);
    chk_pow2(0x7fffffff - 1, true);
    vh::unwatch();
    out.sample(js("isprime", 4294967291u));
    out.sample(js("factor", 4293001441u));
    out.finish();
    return 0;
}
