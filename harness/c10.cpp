// C10 — transform results do not depend on call history; plan caching is transparent.
// Every history runs in a fresh thread (fresh thread_local caches).  After every operation the
// DSPLIB_VERIF hooks report the keys of both caches in recency order (lock-step correspondence with
// the Lean LRU/factory model) and the result is compared bit-exactly with the fresh-thread result.
// Histories INCLUDE REJECTED CALLS (odd irfft lengths, wrong bin counts, plan objects applied to the wrong length, empty
// inputs, istft with an odd nfft / wrong frame length, stft with overlap >= nwin): each must throw exactly as in a fresh
// thread, its cache traffic is part of the lock-step model, and every LATER valid call must still give the fresh-thread bits.
// SOAK: one thread issues > 2^32 operations on the LRU container (lib/lru-cache.h, every operation in lock-step with a
// reference LRU; both tiers) and, through the public API, 2^26 (quick) / > 2^32 (thorough) plan requests per cache, with
// lock-step key comparison (hook + Lean model) at checkpoints and in dense windows around every power of two up to 2^32.
// PADDED / DERIVED CALLS: the alphabet also holds the n-point overloads fft(x, n) / rfft(x, n) with inputs SHORTER, EQUAL and LONGER than n
// (several input lengths for one n within a history, ascending and descending), and what is built on them or pads internally: welch
// (real / complex) and mscohere with winlen < nfft at one nfft, sinad (periodogram), hilbert(x, n), xcorr, FftFilter, finddelay, resample.
// Every result is compared bit-exactly with the same single call in a fresh thread; the witness names every call and its input.
// CONCURRENT HISTORIES: batches of histories run at the same time in different threads (own caches, own inverse-real lengths); each
// thread must see exactly what it sees alone (results, outcomes, key lists).
#pragma GCC optimize("O2")   // the soak loops run > 2^32 iterations
#include "common.hpp"
#include "lru-cache.h"
#include <thread>
#include <map>
#include <algorithm>
#include <chrono>
#include <mutex>
#include <atomic>
using namespace dsplib;

namespace dsplib {
std::vector<int> verif_fft_cache_keys();
std::vector<int> verif_rfft_cache_keys();
int verif_fft_cache_capacity();
}

static vh::Out out;

// kind (valid calls):   c fft(cmplx), r fft(real), i irfft(n) full spectrum, h irfft(n) half spectrum, f ifft(n), z czt(n,m),
//                       s istft(stft(x)) with nfft = n (default window, onesided, wola),
//                       k IfftPlanR(n) object: a call with a wrong bin count is rejected, then the SAME object inverts rfft(x)   (result = that of i<n>)
//                       K FftPlan(n) object: a call with n+1 samples is rejected, then the SAME object transforms x             (result = that of c<n>)
// kind (rejected calls, each must throw): o irfft(X, n) with odd n (n bins), O IfftPlanR(n) with odd n, w irfft(n/2 bins, n),
//                       p FftPlan(n)(n+1 samples), q FftPlanR(n)(n+1 samples), j IfftPlan(n)(n+1 samples), Z CztPlan(n,m)(n+1 samples),
//                       S istft with odd nfft = n, U istft with frames one bin too long (nfft = n), T stft with overlap = nwin = n,
//                       E fft / ifft / rfft / irfft of an EMPTY array
// kind (n-point overloads and calls built on them; xc / xr are the input generators in_c / in_r below):
//                       a<n>:<m> fft(xc(m), n)    b<n>:<m> fft(xr(m), n)    B<n>:<m> rfft(xr(m), n)        (m < n pads, m > n truncates)
//                       W<n>:<m> welch(xr(3m+m/2+1), hann(m), m/2, nfft = n)    V<n>:<m> the same with complex input    M<n>:<m> mscohere(x, y, hamming(m), m/2, nfft = n)
//                       P<n> sinad(xr(n)) (periodogram, nfft = 2^nextpow2(n))   H<n>:<m> hilbert(xr(m), n)
//                       G<n>:<m> S = stft(xr(3m+m/2+1), hann(m), m/2, nfft = n) followed by istft(S, same parameters)   (spectrogram with a window shorter than nfft)
//                       x<n>:<m> xcorr(xc(n), xc(m))   X<n>:<m> xcorr(xr(n), xr(m))   L<n>:<m> FftFilter(xc(m)).process(xc(n))   d<n>:<m> finddelay(xr(n), xr(m))
//                       y<n>:<m> resample(xr(n), m / 100, m % 100)   (pads internally, no transform)
//                       I<n>:<m> m times irfft(X, n) of the same spectrum X = fft(xr(n)); all m results must be identical (result = that of i<n>)
//                       Q<n>:<m> welch with nfft = n NOT a power of two: rejected before any plan is requested
struct Op { char kind; int n; int m; };

static bool is_rejected_kind(char k) { return std::strchr("oOwpqjZSUTEQ", k) != nullptr; }
static bool two_param_kind(char k) { return std::strchr("zZabBWVMHGxXLdyIQ", k) != nullptr; }

static std::string op_str(const Op& o) {
    std::string s(1, o.kind);
    s += std::to_string(o.n);
    if (two_param_kind(o.kind)) s += ":" + std::to_string(o.m);
    return s;
}

// the call an operation makes, in words (part of every witness: together with the generators it is the complete input)
static const char* GENERATORS = "xc(L)[i] = sin(0.37 i + 0.1 L) + j cos(0.11 i i + L); xr(L)[i] = sin(0.37 i + 0.1 L) + 0.25 cos(1.3 i); i = 0 .. L-1";
static std::string describe(const Op& o) {
    const std::string n = std::to_string(o.n), m = std::to_string(o.m);
    switch (o.kind) {
    case 'c': return "fft(xc(" + n + "))";
    case 'f': return "ifft(xc(" + n + "))";
    case 'r': return "fft(xr(" + n + "))";
    case 'i': return "irfft(fft(xr(" + n + ")), " + n + ")";
    case 'h': return "irfft(first " + std::to_string(o.n / 2 + 1) + " bins of fft(xr(" + n + ")), " + n + ")";
    case 'z': return "czt(xc(" + n + "), " + m + ", expj(-2pi/(" + m + "+1.5)), 1)";
    case 's': return "istft(stft(xr(" + std::to_string(3 * o.n + o.n / 2 + 1) + "), nfft=" + n + "), nfft=" + n + ")";
    case 'k': return "IfftPlanR(" + n + "): rejected call, then inverts fft(xr(" + n + "))";
    case 'K': return "FftPlan(" + n + "): rejected call, then transforms xc(" + n + ")";
    case 'a': return "fft(xc(" + m + "), " + n + ")";
    case 'b': return "fft(xr(" + m + "), " + n + ")";
    case 'B': return "rfft(xr(" + m + "), " + n + ")";
    case 'W': return "welch(xr(" + std::to_string(3 * o.m + o.m / 2 + 1) + "), hann(" + m + "), noverlap=" + std::to_string(o.m / 2) + ", nfft=" + n + ")";
    case 'V': return "welch(xc(" + std::to_string(3 * o.m + o.m / 2 + 1) + "), hann(" + m + "), noverlap=" + std::to_string(o.m / 2) + ", nfft=" + n + ")";
    case 'M': return "mscohere(xr(L), flip(xr(L)) + 0.5 xr(L), hamming(" + m + "), noverlap=" + std::to_string(o.m / 2) + ", nfft=" + n + "), L=" + std::to_string(3 * o.m + o.m / 2 + 1);
    case 'P': return "sinad(xr(" + n + "))";
    case 'G': return "S = stft(xr(" + std::to_string(3 * o.m + o.m / 2 + 1) + "), hann(" + m + ", periodic), overlap=" + std::to_string(o.m / 2) + ", nfft=" + n + "); istft(S, same window, overlap, nfft)";
    case 'H': return "hilbert(xr(" + m + "), " + n + ")";
    case 'x': return "xcorr(xc(" + n + "), xc(" + m + "))";
    case 'X': return "xcorr(xr(" + n + "), xr(" + m + "))";
    case 'L': return "FftFilter(xc(" + m + ")).process(xc(" + n + "))";
    case 'd': return "finddelay(xr(" + n + "), xr(" + m + "))";
    case 'y': return "resample(xr(" + n + "), " + std::to_string(o.m / 100) + ", " + std::to_string(o.m % 100) + ")";
    case 'I': return m + " x irfft(fft(xr(" + n + ")), " + n + ")";
    case 'Q': return "welch(xr(" + std::to_string(4 * o.m) + "), hann(" + m + "), noverlap=" + std::to_string(o.m / 2) + ", nfft=" + n + " (not a power of two))";
    default: return "rejected call " + op_str(o);
    }
}

static arr_cmplx in_c(int n) {
    arr_cmplx x(n);
    for (int i = 0; i < n; ++i) x[i] = cmplx_t(std::sin(0.37 * i + 0.1 * n), std::cos(0.11 * i * i + n));
    return x;
}
static arr_real in_r(int n) {
    arr_real x(n);
    for (int i = 0; i < n; ++i) x[i] = std::sin(0.37 * i + 0.1 * n) + 0.25 * std::cos(1.3 * i);
    return x;
}

struct Result {
    bool threw = false;        // the call as a whole ended with an exception
    bool inner_accepted = false;   // k / K / E: a call that had to be rejected returned normally
    bool unstable = false;         // I: identical calls in a row gave different bits
    std::vector<double> v;     // the values returned (flattened)
};

template<class F>
static bool throws(F f) {
    try { f(); } catch (const std::exception&) { return true; }
    return false;
}

// result of one operation as a flat vector of doubles
static Result run_op(const Op& o) {
    Result R;
    std::vector<double>& r = R.v;
    auto push = [&](const arr_cmplx& y) { for (int i = 0; i < y.size(); ++i) { r.push_back(y[i].re); r.push_back(y[i].im); } };
    auto pushr = [&](const arr_real& y) { for (int i = 0; i < y.size(); ++i) r.push_back(y[i]); };
    const cmplx_t zw = expj(-2 * pi / (o.m + 1.5));
    try {
        switch (o.kind) {
        case 'c': push(fft(in_c(o.n))); break;
        case 'f': push(ifft(in_c(o.n))); break;
        case 'r': push(fft(in_r(o.n))); break;
        case 'i': pushr(irfft(fft(in_r(o.n)), o.n)); break;
        case 'h': {   // irfft from the first n/2+1 bins only (same bin count as a full spectrum of length n/2+1)
            const arr_cmplx X = fft(in_r(o.n));
            pushr(irfft(arr_cmplx(X.slice(0, o.n / 2 + 1)), o.n));
            break;
        }
        case 'z': push(czt(in_c(o.n), o.m, zw, cmplx_t(1.0, 0.0))); break;
        case 's': {
            const arr_real x = in_r(3 * o.n + o.n / 2 + 1);
            const auto S = stft(x, o.n, StftRange::Onesided);
            pushr(istft(S, o.n, StftRange::Onesided, OverlapMethod::Wola));
            break;
        }
        case 'k': {
            const IfftPlanR P(o.n);
            if (!throws([&] { (void)P(in_c(o.n / 2)); })) R.inner_accepted = true;
            pushr(P(fft(in_r(o.n))));
            break;
        }
        case 'K': {
            const FftPlan P(o.n);
            if (!throws([&] { (void)P(in_c(o.n + 1)); })) R.inner_accepted = true;
            push(P(in_c(o.n)));
            break;
        }
        // ---- n-point overloads (pad / truncate) and what is built on them
        case 'a': push(fft(in_c(o.m), o.n)); break;
        case 'b': push(fft(in_r(o.m), o.n)); break;
        case 'B': push(rfft(in_r(o.m), o.n)); break;
        case 'W': {
            const auto w = welch(in_r(3 * o.m + o.m / 2 + 1), window::hann(o.m), o.m / 2, o.n);
            pushr(w.pxx);
            pushr(w.f);
            break;
        }
        case 'V': {
            const auto w = welch(in_c(3 * o.m + o.m / 2 + 1), window::hann(o.m), o.m / 2, o.n);
            pushr(w.pxx);
            pushr(w.f);
            break;
        }
        case 'M': {
            const arr_real x = in_r(3 * o.m + o.m / 2 + 1);
            const arr_real y = flip(x) + x * 0.5;
            pushr(mscohere(x, y, window::hamming(o.m), o.m / 2, o.n));
            break;
        }
        case 'P': r.push_back(sinad(in_r(o.n))); break;
        case 'G': {
            const arr_real w = window::hann(o.m, false);
            const auto S = stft(in_r(3 * o.m + o.m / 2 + 1), w, o.m / 2, o.n, StftRange::Onesided);
            for (const auto& fr : S) push(fr);
            pushr(istft(S, w, o.m / 2, o.n, StftRange::Onesided, OverlapMethod::Wola));
            break;
        }
        case 'H': push(hilbert(in_r(o.m), o.n)); break;
        case 'x': push(xcorr(in_c(o.n), in_c(o.m))); break;
        case 'X': pushr(xcorr(in_r(o.n), in_r(o.m))); break;
        case 'L': {
            FftFilter flt(in_c(o.m));
            push(flt.process(in_c(o.n)));
            break;
        }
        case 'd': r.push_back(double(finddelay(in_r(o.n), in_r(o.m)))); break;
        case 'y': pushr(resample(in_r(o.n), o.m / 100, o.m % 100)); break;
        case 'I': {
            const arr_cmplx X = fft(in_r(o.n));
            const arr_real first = irfft(X, o.n);
            for (int j = 1; j < o.m; ++j) {
                const arr_real again = irfft(X, o.n);
                if (again.size() != first.size() || std::memcmp(again.data(), first.data(), sizeof(real_t) * first.size()) != 0) R.unstable = true;
            }
            pushr(first);
            break;
        }
        // ---- calls that must be rejected
        case 'Q': { const auto w = welch(in_r(4 * o.m), window::hann(o.m), o.m / 2, o.n); pushr(w.pxx); break; }
        case 'o': pushr(irfft(in_c(o.n), o.n)); break;
        case 'O': { const IfftPlanR P(o.n); r.push_back(P.size()); break; }
        case 'w': pushr(irfft(in_c(o.n / 2), o.n)); break;
        case 'p': { const FftPlan P(o.n); push(P(in_c(o.n + 1))); break; }
        case 'q': { const FftPlanR P(o.n); push(P(in_r(o.n + 1))); break; }
        case 'j': { const IfftPlan P(o.n); push(P(in_c(o.n + 1))); break; }
        case 'Z': { const CztPlan P(o.n, o.m, zw, cmplx_t(1.0, 0.0)); push(P(in_c(o.n + 1))); break; }
        case 'S': {   // odd nfft
            const std::vector<arr_cmplx> F(2, in_c(o.n / 2 + 1));
            pushr(istft(F, window::hann(o.n - 1, false), (o.n - 1) / 2, o.n, StftRange::Onesided, OverlapMethod::Wola));
            break;
        }
        case 'U': {   // frames one bin too long for the range
            const std::vector<arr_cmplx> F(2, in_c(o.n / 2 + 2));
            pushr(istft(F, window::hann(o.n, false), o.n / 2, o.n, StftRange::Onesided, OverlapMethod::Wola));
            break;
        }
        case 'T': { const auto S = stft(in_r(4 * o.n), window::hann(o.n, false), o.n, o.n, StftRange::Onesided); r.push_back(double(S.size())); break; }
        case 'E': {
            int nthrown = 0;
            nthrown += throws([] { (void)fft(arr_cmplx()); });
            nthrown += throws([] { (void)ifft(arr_cmplx()); });
            nthrown += throws([] { (void)fft(arr_real()); });
            nthrown += throws([] { (void)irfft(arr_cmplx()); });
            if (nthrown != 4) { R.inner_accepted = true; r.push_back(nthrown); break; }
            throw std::runtime_error("all four rejected");
        }
        }
    } catch (const std::exception&) {
        R.threw = true;
        R.v.clear();
    }
    return R;
}

// the operation whose fresh-thread result is the reference (k / K: the plain valid call, no failed call involved)
static Op ref_op(const Op& o) {
    if (o.kind == 'k') return {'i', o.n, 0};
    if (o.kind == 'K') return {'c', o.n, 0};
    if (o.kind == 'I') return {'i', o.n, 0};
    if (o.kind == 'B') return {'b', o.n, o.m};   // rfft(x, n) "equal fft(x, n)"
    return o;
}

static std::map<std::string, Result> g_ref;

static const Result& reference(const Op& o0) {
    const Op o = ref_op(o0);
    const std::string k = op_str(o);
    auto it = g_ref.find(k);
    if (it != g_ref.end()) return it->second;
    Result r;
    std::thread t([&] { r = run_op(o); });
    t.join();
    return g_ref[k] = r;
}

static bool same_bits(const std::vector<double>& a, const std::vector<double>& b) {
    return a.size() == b.size() && (a.empty() || std::memcmp(a.data(), b.data(), a.size() * sizeof(double)) == 0);
}
static bool same_bits(const Result& a, const Result& b) { return a.threw == b.threw && same_bits(a.v, b.v); }

static std::string hist_json(const std::vector<Op>& h, int upto, const char* what) {
    std::string s = "{\"op\":\"history\",\"what\":\"";
    s += what;
    s += "\",\"ops\":[";
    for (int i = 0; i <= upto && i < int(h.size()); ++i) { if (i) s += ","; s += "\"" + op_str(h[i]) + "\""; }
    return s + "]}";
}

// witness of an oracle failure: the history (letters), every call of it in words (the last 24 for long histories), the generators of
// the inputs and — for the n-point overloads — the input of the failing call itself
static std::string witness_json(const std::vector<Op>& h, int upto, const std::string& what) {
    std::string s = hist_json(h, upto, what.c_str());
    s.pop_back();
    const int last = std::min(upto, int(h.size()) - 1);
    s += ",\"calls_in_words\":[";
    const int from = std::max(0, last - 23);
    for (int i = from; i <= last; ++i) { if (i > from) s += ","; s += "\"" + describe(h[i]) + "\""; }
    s += "],\"first_call_in_words_is_number\":" + std::to_string(from) + ",\"inputs\":\"" + GENERATORS + "\"";
    if (last >= 0 && upto < int(h.size())) {
        const Op& o = h[last];
        s += ",\"failing_call\":\"" + describe(o) + "\"";
        if (std::strchr("abBH", o.kind) && o.m <= 96) {
            if (o.kind == 'a') s += ",\"failing_call_input\":" + vh::jarr(in_c(o.m));
            else s += ",\"failing_call_input\":" + vh::jarr(in_r(o.m));
        }
    }
    return s + "}";
}

// bookkeeping shared by history threads (sequential histories: one thread at a time; concurrent batches: several)
static std::mutex g_out_mx;
static void h_fail(const std::string& k, const std::string& js) { std::lock_guard<std::mutex> g(g_out_mx); out.fail(k, js); }
static void h_stat(const std::string& k, long long d = 1) { std::lock_guard<std::mutex> g(g_out_mx); out.stat(k, d); }
static void h_oracle(long long d = 1) { std::lock_guard<std::mutex> g(g_out_mx); out.n_oracle += d; }

static const Op LL_OPS[3] = {{'c', 60, 0}, {'c', 47, 0}, {'r', 90, 0}};

// one history, executed by the CALLING thread (which must be fresh: no transform call before).  References must exist already.
// `concurrent`: other histories run at the same time in other threads (the process-wide "case in flight" is then set by the caller)
static void exec_history(const std::vector<Op>& h, bool with_long_lived, bool concurrent, std::string& lhs, std::string& rhs, const std::string& others = "") {
    const Op* ll_ops = LL_OPS;
    const std::string ctx = concurrent ? " [while other threads run their own histories; transform lengths of all threads: " + others + "]" : "";
    {
        const int cap = verif_fft_cache_capacity();
        lhs = "hist " + std::to_string(cap) + " " + std::to_string(with_long_lived ? 1 : 0) + " " + std::to_string(h.size());
        std::unique_ptr<FftPlan> p60, p47;
        std::unique_ptr<FftPlanR> r90;
        if (with_long_lived) {   // long-lived plan objects created first: they touch the caches too
            p60 = std::make_unique<FftPlan>(60);
            p47 = std::make_unique<FftPlan>(47);
            r90 = std::make_unique<FftPlanR>(90);
        }
        for (size_t i = 0; i < h.size(); ++i) {
            const Op& o = h[i];
            lhs += " " + op_str(o);
            if (!concurrent) vh::set_current("C10:crash", hist_json(h, int(i), "crash"));
            const auto got = run_op(o);
            if (!concurrent) vh::clear_current();
            h_oracle();
            const Result& want = reference(o);
            if (!same_bits(got, want))
                h_fail("C10:history-dependence", witness_json(h, int(i), (got.threw != want.threw ? "outcome (exception or not) differs from the fresh-thread outcome"
                                                                                                   : "result differs from the fresh-thread result") + ctx));
            if (got.unstable) h_fail("C10:history-dependence", witness_json(h, int(i), "identical irfft calls in a row returned different bits" + ctx));
            if ((is_rejected_kind(o.kind) && !got.threw) || got.inner_accepted)
                h_fail("C10:rejected-call-accepted", witness_json(h, int(i), "a call that must be rejected returned normally" + ctx));
            if (!is_rejected_kind(o.kind) && got.threw) h_fail("C10:valid-call-threw", witness_json(h, int(i), "a valid call ended with an exception" + ctx));
            h_stat(is_rejected_kind(o.kind) ? "ops_rejected_calls" : "ops_valid_calls");
            if (!is_rejected_kind(o.kind) && i > 0 && is_rejected_kind(h[i - 1].kind)) h_stat("valid_calls_directly_after_a_rejected_call");
            if (std::strchr("abBWVMHPG", o.kind)) {   // input-length relation of the n-point calls, and repeats of one n with another input length
                if (std::strchr("abBH", o.kind)) h_stat(o.m < o.n ? "npoint_calls_input_shorter" : o.m == o.n ? "npoint_calls_input_equal" : "npoint_calls_input_longer");
                for (int j = int(i) - 1; j >= 0; --j) {
                    const Op& q = h[j];
                    if (!std::strchr("abBWVMHPG", q.kind)) continue;
                    if (q.n == o.n && q.m > o.m && o.m < o.n) h_stat("padded_calls_after_a_longer_input_at_the_same_n");
                    if (q.n == o.n && q.m < o.m) h_stat("padded_calls_after_a_shorter_input_at_the_same_n");
                    break;
                }
            }
            const auto kc = verif_fft_cache_keys();
            const auto kr = verif_rfft_cache_keys();
            rhs += " C " + std::to_string(kc.size()) + vh::join_ints(kc) + " R " + std::to_string(kr.size()) + vh::join_ints(kr);
            if (int(kc.size()) > cap || int(kr.size()) > cap) h_fail("C10:cache-exceeds-capacity", witness_json(h, int(i), "more plans cached than DSPLIB_FFT_CACHE_SIZE"));
            // the plan used last (if it is cacheable) must be the most recent entry of its cache
            auto small = [](int n) { return n == 1 || n == 2 || n == 4 || n == 8; };
            if (std::strchr("cfKpjaV", o.kind) && !small(o.n)) { if (kc.empty() || kc[0] != o.n) h_fail("C10:mru-not-cached", witness_json(h, int(i), "most recently used complex length is not the front entry")); }
            if (std::strchr("rqbBWM", o.kind) && !small(o.n)) { if (kr.empty() || kr[0] != o.n) h_fail("C10:mru-not-cached", witness_json(h, int(i), "most recently used real length is not the front entry")); }
            h_stat(kc.size() >= size_t(cap) ? "complex_cache_full" : "complex_cache_not_full");
        }
        if (with_long_lived) {   // plans obtained earlier stay valid after arbitrarily many other lengths
            std::vector<double> a, b, c;
            auto flat = [](const arr_cmplx& y) { std::vector<double> r; for (int i = 0; i < y.size(); ++i) { r.push_back(y[i].re); r.push_back(y[i].im); } return r; };
            if (!concurrent) vh::set_current("C10:crash", hist_json(h, int(h.size()), "crash using a long-lived plan"));
            a = flat((*p60)(in_c(60)));
            b = flat((*p47)(in_c(47)));
            c = flat((*r90)(in_r(90)));
            // copies of plan objects stay valid after the original is gone (copy-construct, copy-assign)
            {
                const FftPlan c60(*p60);
                FftPlanR c90(*r90);
                c90 = *r90;
                p60.reset();
                r90.reset();
                if (!same_bits(flat(c60(in_c(60))), a) || !same_bits(flat(c90(in_r(90))), c) || c60.size() != 60 || c90.size() != 90)
                    h_fail("C10:long-lived-plan", witness_json(h, int(h.size()), "a COPY of a plan object gives a different result once the original is destroyed"));
            }
            if (!concurrent) vh::clear_current();
            h_oracle(4);
            if (!same_bits(a, reference(ll_ops[0]).v) || !same_bits(b, reference(ll_ops[1]).v) || !same_bits(c, reference(ll_ops[2]).v))
                h_fail("C10:long-lived-plan", witness_json(h, int(h.size()), "a plan object obtained before the history no longer gives the fresh-thread result" + ctx));
        }
    }
}

static void note_history(const std::vector<Op>& h) {
    out.stat("histories");
    out.stat("history_len_" + std::to_string(h.size() > 8 ? 9 : h.size()) + (h.size() > 8 ? "plus" : ""));
    if (out.n_cases % 997 == 1) out.sample(hist_json(h, int(h.size()), "sample"));
}

// executes one history in a fresh thread
static void run_history(const std::vector<Op>& h, bool with_long_lived, bool emit_corr) {
    if (g_ref.size() > 40000) g_ref.clear();   // the random histories name ever new (n, m) pairs: references are cheap to recompute, memory is bounded
    for (auto& o : h) reference(o);   // make sure references exist (computed in their own threads)
    for (auto& o : LL_OPS) reference(o);
    std::string lhs, rhs;
    std::thread t([&] { exec_history(h, with_long_lived, false, lhs, rhs); });
    t.join();
    if (emit_corr) out.corr(lhs, rhs.empty() ? "-" : rhs.substr(1));
    note_history(h);
}

// several histories at the same time, one fresh thread each, released together.  Every thread has its own plan caches, so each must
// behave exactly as if it ran alone: same bits as the fresh-thread references (computed beforehand, one thread at a time), same key lists.
static void run_concurrent(const std::vector<std::vector<Op>>& hs, bool with_long_lived) {
    if (g_ref.size() > 40000) g_ref.clear();
    for (auto& h : hs) for (auto& o : h) reference(o);
    for (auto& o : LL_OPS) reference(o);
    std::string js = "{\"op\":\"concurrent histories\",\"what\":\"crash or hang while these histories ran at the same time, one thread each\",\"threads\":" + std::to_string(hs.size()) + ",\"histories_first_40_ops\":[";
    for (size_t t = 0; t < hs.size(); ++t) {
        js += t ? ",[" : "[";
        for (size_t i = 0; i < hs[t].size() && i < 40; ++i) { if (i) js += ","; js += "\"" + op_str(hs[t][i]) + "\""; }
        js += "]";
    }
    js += "],\"inputs\":\"" + std::string(GENERATORS) + "\"}";
    vh::set_current("C10:crash-concurrent-histories", js);
    std::vector<std::string> lhs(hs.size()), rhs(hs.size());
    std::string others;   // which lengths each thread works on (part of every witness of the batch)
    for (size_t t = 0; t < hs.size(); ++t) {
        std::vector<int> ns;
        for (auto& o : hs[t]) if (std::find(ns.begin(), ns.end(), o.n) == ns.end()) ns.push_back(o.n);
        std::sort(ns.begin(), ns.end());
        others += (t ? "; thread " : "thread ") + std::to_string(t) + ":" + vh::join_ints(ns);
    }
    std::atomic<int> ready{0};
    std::atomic<bool> go{false};
    std::vector<std::thread> ts;
    for (size_t t = 0; t < hs.size(); ++t)
        ts.emplace_back([&, t] {
            ++ready;
            while (!go.load()) std::this_thread::yield();
            exec_history(hs[t], with_long_lived, true, lhs[t], rhs[t], others);
        });
    while (ready.load() < int(hs.size())) std::this_thread::yield();
    go = true;
    for (auto& t : ts) t.join();
    vh::clear_current();
    for (size_t t = 0; t < hs.size(); ++t) {
        out.corr(lhs[t], rhs[t].empty() ? "-" : rhs[t].substr(1));
        note_history(hs[t]);
        out.stat("histories_run_concurrently");
    }
    out.stat("concurrent_batches");
}

static void enumerate(const std::vector<Op>& alphabet, int maxlen, bool ll) {
    std::vector<int> idx;
    std::function<void()> rec = [&] {
        if (!idx.empty()) {
            std::vector<Op> h;
            for (int i : idx) h.push_back(alphabet[i]);
            run_history(h, ll, true);
        }
        if (int(idx.size()) == maxlen) return;
        for (int i = 0; i < int(alphabet.size()); ++i) { idx.push_back(i); rec(); idx.pop_back(); }
    };
    rec();
}

// ================================================================ SOAK: very long single-thread histories
// Nothing in the property bounds the number of requests a thread makes: "the most recently used ones" must hold
// after arbitrarily many requests (use counters / clocks of any width must not wrap into wrong evictions).
struct Side {   // results of a background thread, merged by the main thread at the end
    std::vector<std::pair<std::string, std::string>> corr;
    std::vector<std::pair<std::string, std::string>> fails;
    std::map<std::string, long long> stats;
    long long n_oracle = 0;
    void fail(const std::string& k, const std::string& js) { if (fails.size() < 12) fails.push_back({k, js}); stats["soak_failures"]++; }
};

// reference LRU: keys, most recently used first
struct RefLru {
    int cap;
    std::vector<int> keys;
    explicit RefLru(int c) : cap(c) {}
    bool has(int k) const { return std::find(keys.begin(), keys.end(), k) != keys.end(); }
    bool request(int k) {   // true on miss
        auto it = std::find(keys.begin(), keys.end(), k);
        const bool miss = it == keys.end();
        if (!miss) keys.erase(it);
        keys.insert(keys.begin(), k);
        if (int(keys.size()) > cap) keys.pop_back();
        return miss;
    }
};

static std::string ints_json(const std::vector<int>& v) { return vh::jints(v); }

// dense lock-step windows: the start, [2^k - half, 2^k + half] for every k >= 8 (a use counter of any width wraps at a power of two),
// and a little later (2^31 + 2^16, 2^32 + 2^16, 2^32 + 2^20: entries stamped before a wrap and never touched again)
struct Windows {
    uint64_t half, ws, we;   // the current / next window [ws, we)
    std::vector<uint64_t> centres;
    size_t next = 0;
    explicit Windows(uint64_t h) : half(h), ws(0), we(2 * h) {
        for (int k = 8; k < 48; ++k) centres.push_back(1ull << k);
        for (uint64_t c : {(1ull << 31) + (1ull << 16), (1ull << 32) + (1ull << 16), (1ull << 32) + (1ull << 20), (1ull << 16) + (1ull << 12), (1ull << 24) + (1ull << 16)}) centres.push_back(c);
        std::sort(centres.begin(), centres.end());
    }
    void advance() {
        while (next < centres.size() && centres[next] + half + 1 <= we) ++next;
        const uint64_t p = next < centres.size() ? centres[next] : ~0ull - half - 1;
        ws = std::max(we, p - half);
        we = p + half + 1;
    }
    bool dense(uint64_t t) {
        while (t >= we) advance();
        return t >= ws;
    }
};

// reference LRU for the container soak: fixed array, most recently used first (a few ns per operation)
struct FastLru {
    int cap, n = 0;
    int k[64];
    explicit FastLru(int c) : cap(std::min(c, 63)) {}
    int find(int key) const { for (int i = 0; i < n; ++i) if (k[i] == key) return i; return -1; }
    void use(int key, int pos) {   // pos = find(key)
        if (pos < 0) { pos = n < cap ? n++ : n - 1; }
        for (int i = pos; i > 0; --i) k[i] = k[i - 1];
        k[0] = key;
    }
    std::vector<int> keys() const { return std::vector<int>(k, k + n); }
};

// (1) the container itself (lib/lru-cache.h as compiled into the harness): every operation in lock-step with the reference
static void soak_container(uint64_t total, int cap, uint64_t seed, Side& R) {
    LRUCache<int, int> c(cap);
    FastLru ref(cap);
    const int nh = std::max(1, std::min(cap, 3));
    uint64_t x = seed * 0x9e3779b97f4a7c15ULL + 77;
    uint64_t t = 0, hits = 0, misses = 0, windows = 0, orders = 0;
    int cyc = 0;
    auto value_of = [](int k) { return k * 7919 + 13; };
    std::vector<int> kk;
    bool bad = false;
    std::string wl, wr;   // a window's CORR line under construction
    int wn = 0;
    const auto t0 = std::chrono::steady_clock::now();
    Windows W(160);
    auto order_check = [&](int k) {
        kk.clear();
        c.keys(kk);
        ++orders;
        if (kk != ref.keys() || c.size() != ref.n) {
            bad = true;
            R.fail("C10:lru-not-most-recently-used", "{\"what\":\"LRUCache<int,int> in lock-step with a reference LRU: key order differs\",\"operation_number\":" + std::to_string(t - 1) +
                                                     ",\"capacity\":" + std::to_string(cap) + ",\"key\":" + std::to_string(k) + ",\"library_keys_mru_first\":" + ints_json(kk) +
                                                     ",\"reference_keys_mru_first\":" + ints_json(ref.keys()) + "}");
        }
    };
    auto differs = [&](int k, bool ex) {
        bad = true;
        R.fail("C10:lru-not-most-recently-used", "{\"what\":\"LRUCache<int,int> in lock-step with a reference LRU: exists(key) differs\",\"operation_number\":" + std::to_string(t) +
                                                 ",\"capacity\":" + std::to_string(cap) + ",\"key\":" + std::to_string(k) + ",\"library_exists\":" + (ex ? "true" : "false") +
                                                 ",\"reference_keys_mru_first\":" + ints_json(ref.keys()) + "}");
    };
    // lookup-or-create, compared with the reference.  `probe`: ask exists() first (as create_fft_plan does); otherwise a key the
    // reference holds is fetched with get() directly (one hash lookup; a missing key throws, caught below)
    auto one = [&](int k, bool probe) {
        const int pos = ref.find(k);
        if (probe || pos < 0) {
            const bool ex = c.exists(k);
            if (ex != (pos >= 0)) { differs(k, ex); return; }
        }
        if (pos >= 0) {
            ++hits;
            if (c.get(k) != value_of(k)) { bad = true; R.fail("C10:lru-wrong-value", "{\"operation_number\":" + std::to_string(t) + ",\"key\":" + std::to_string(k) + "}"); }
        } else {
            ++misses;
            c.put(k, value_of(k));
        }
        ref.use(k, pos);
        ++t;
    };
    try {
    while (t < total && !bad) {
        if (W.dense(t) || (t & ((1ull << 24) - 1)) < 48) {
            // dense: uniform over 8 keys, full key order after every operation, replayed by the Lean model from the window's start state
            x = x * 6364136223846793005ULL + 1442695040888963407ULL;
            const int k = int(uint32_t(x >> 33) % 8);
            if (wn == 0) { const auto ks = ref.keys(); wl = "lru " + std::to_string(cap) + " " + std::to_string(ks.size()) + vh::join_ints(ks); wr.clear(); }
            one(k, true);
            if (bad) break;
            order_check(k);
            wl += " " + std::to_string(k);
            wr += " " + std::to_string(kk.size()) + vh::join_ints(kk);
            if (++wn == 32) { R.corr.push_back({wl, wr.substr(1)}); wn = 0; ++windows; }
            continue;
        }
        if (wn) { R.corr.push_back({wl, wr.substr(1)}); wn = 0; ++windows; }
        // bulk up to the next window: the hot keys, now and then one of 8 keys (miss, eviction, the evicted hot key returns)
        uint64_t stop = std::min(total, (t | 0xfffff) + 1);
        if (W.ws > t) stop = std::min(stop, W.ws);
        stop = std::min<uint64_t>(stop, (t | ((1ull << 24) - 1)) + 1);
        // (a predictable cycle: a random choice costs twice the time in branch mispredictions)
        uint64_t tt = t, hh = 0;
        int cy = cyc;
        while (tt < stop) {
            if ((tt & 15) == 15) {   // every 16th operation through the general path: exists() first; every 128th a key outside the cycle
                t = tt;
                if ((tt & 127) == 127) {
                    x = x * 6364136223846793005ULL + 1442695040888963407ULL;
                    one(int((x >> 40) & 7), (x >> 50) & 1);
                } else {
                    if (++cy >= nh) cy = 0;
                    one(cy, true);
                }
                if (bad) break;
                tt = t;
                continue;
            }
            if (++cy >= nh) cy = 0;
            const int pos = ref.find(cy);
            if (pos < 0) { t = tt; one(cy, false); if (bad) break; tt = t; continue; }
            if (c.get(cy) != value_of(cy)) { t = tt; bad = true; R.fail("C10:lru-wrong-value", "{\"operation_number\":" + std::to_string(tt) + ",\"key\":" + std::to_string(cy) + "}"); break; }
            ref.use(cy, pos);
            ++hh;
            ++tt;
        }
        if (!bad) t = tt;
        hits += hh;
        cyc = cy;
        if (!bad) order_check(-1);
    }
    } catch (const std::exception& e) {   // get() of a key the reference holds
        bad = true;
        R.fail("C10:lru-not-most-recently-used", "{\"what\":\"LRUCache<int,int> in lock-step with a reference LRU: get(key) threw for a key that is among the most recently used\",\"operation_number\":" +
                                                 std::to_string(t) + ",\"capacity\":" + std::to_string(cap) + ",\"exception\":\"" + e.what() + "\",\"reference_keys_mru_first\":" + ints_json(ref.keys()) + "}");
    }
    if (wn && !bad) { R.corr.push_back({wl, wr.substr(1)}); ++windows; }
    R.n_oracle += (long long)std::min<uint64_t>(t, 1ull << 62);
    R.stats["soak_container_operations"] = (long long)t;
    R.stats["soak_container_hits"] = (long long)hits;
    R.stats["soak_container_misses"] = (long long)misses;
    R.stats["soak_container_full_order_comparisons"] = (long long)orders;
    R.stats["soak_container_corr_windows"] = (long long)windows;
    R.stats["soak_container_ms"] = (long long)(std::chrono::duration<double>(std::chrono::steady_clock::now() - t0).count() * 1e3);
}

// (2) through the public API: plan requests of one thread; `real` selects the cache (FftPlanR / FftPlan)
static void soak_api(uint64_t total, bool real, uint64_t seed, Side& R) {
    const int cap = verif_fft_cache_capacity();
    const char* nm = real ? "real" : "complex";
    const int P2[6] = {16, 32, 64, 128, 256, 512};   // no sub-plan requests into the same cache: one request = one cache operation
    RefLru ref(cap);
    const int nh = std::max(1, std::min(cap, 2));
    uint64_t x = seed * 0xbf58476d1ce4e5b9ULL + (real ? 5 : 3);
    uint64_t t = 0, windows = 0, checkpoints = 0;
    long long sink = 0;
    bool bad = false;
    auto mine = [&] { return real ? verif_rfft_cache_keys() : verif_fft_cache_keys(); };
    auto request = [&](int n) { if (real) { const FftPlanR p(n); sink += p.size(); } else { const FftPlan p(n); sink += p.size(); } };
    auto keys_str = [&] {
        const auto kc = verif_fft_cache_keys();
        const auto kr = verif_rfft_cache_keys();
        return "C " + std::to_string(kc.size()) + vh::join_ints(kc) + " R " + std::to_string(kr.size()) + vh::join_ints(kr);
    };
    auto check = [&](const char* where) {
        const auto k = mine();
        ++checkpoints;
        R.n_oracle++;
        if (k != ref.keys) {
            bad = true;
            R.fail("C10:soak-not-most-recently-used", std::string("{\"what\":\"one thread, plan requests through the public API in lock-step with a reference LRU\",\"cache\":\"") + nm +
                                                      "\",\"where\":\"" + where + "\",\"requests_so_far\":" + std::to_string(t) + ",\"capacity\":" + std::to_string(cap) +
                                                      ",\"library_keys_mru_first\":" + ints_json(k) + ",\"reference_keys_mru_first\":" + ints_json(ref.keys) + "}");
        }
    };
    // a plan object obtained at the very beginning must stay valid and correct all the way
    const FftPlan ll(48);
    const arr_cmplx ll_ref = ll(in_c(48));
    ref.keys = mine();   // 48 = 16 * 3: the model of the nested requests is the Lean model's business (first window)
    const auto t0 = std::chrono::steady_clock::now();
    Windows W(96);
    const uint64_t PM = (1ull << 26) - 1, PO = 1ull << 25;   // periodic windows at 2^25 (mod 2^26)
    while (t < total && !bad) {
        if (W.dense(t) || ((t & PM) >= PO && (t & PM) < PO + 64)) {
            // ---- window: 48 mixed requests (pow2, composites sharing prime leaves, CZT prime, the other cache), hook after EVERY request,
            //      replayed by the Lean model from the state at the window's start
            std::string lhs = "win " + std::to_string(cap) + " " + keys_str() + " 48", rhs;
            for (int j = 0; j < 48 && !bad; ++j) {
                x = x * 6364136223846793005ULL + 1442695040888963407ULL;
                const uint32_t r = uint32_t(x >> 33);
                static const int MIX[12] = {16, 32, 64, 128, 256, 512, 60, 45, 47, 7, 100, 96};
                const int n = MIX[r % 12];
                const bool other = (r >> 8) % 8 == 0;   // a request to the other cache in between
                const bool as_real = other ? !real : real;
                if (as_real) { const FftPlanR p(n); sink += p.size(); } else { const FftPlan p(n); sink += p.size(); }
                lhs += std::string(" ") + (as_real ? "r" : "c") + std::to_string(n);
                rhs += " " + keys_str();
                const auto k = mine();
                R.n_oracle++;
                if (int(k.size()) > cap) { bad = true; R.fail("C10:cache-exceeds-capacity", "{\"soak\":\"" + std::string(nm) + "\",\"requests_so_far\":" + std::to_string(t) + "}"); }
                if (as_real == real && (k.empty() || k[0] != n)) {
                    bad = true;
                    R.fail("C10:soak-not-most-recently-used", std::string("{\"what\":\"the length requested last is not the front entry of the cache\",\"cache\":\"") + nm + "\",\"requests_so_far\":" +
                                                              std::to_string(t) + ",\"length\":" + std::to_string(n) + ",\"library_keys_mru_first\":" + ints_json(k) + "}");
                }
                if (as_real == real) ++t;
            }
            R.corr.push_back({lhs, rhs.substr(1)});
            ++windows;
            ref.keys = mine();   // resynchronise the flat reference (the Lean model judges the window through CORR)
            continue;
        }
        // ---- bulk: until the next window, hits on the hot lengths, every 2^16 requests a few misses; full key comparison after each block
        uint64_t stop = std::min(total, (t | 0xffff) + 1);
        if (W.ws > t) stop = std::min(stop, W.ws);   // do not run into a window
        {
            uint64_t g = (t & ~PM) + PO;
            if (g <= t) g += PM + 1;
            stop = std::min(stop, g);
        }
        if (stop <= t) stop = t + 1;
        const int hot[2] = {P2[0], P2[1]};
        for (uint64_t u = t; u < stop; ++u) {
            const int n = hot[u % uint64_t(nh)];
            request(n);
            // reference: move to front (all hits after the first round)
            if (ref.keys.empty() || ref.keys[0] != n) ref.request(n);
        }
        t = stop;
        check("after a block of hits on the hot lengths");
        if ((t & 0xfffff) == 0 && !bad) {   // a burst with misses and evictions, one comparison per request
            for (int j = 0; j < 12 && !bad; ++j) {
                x = x * 6364136223846793005ULL + 1442695040888963407ULL;
                const int n = P2[(x >> 40) % 6];
                request(n);
                ref.request(n);
                ++t;
                check("burst of mixed power-of-two lengths");
            }
        }
    }
    // the long-lived plan
    R.n_oracle++;
    const arr_cmplx again = ll(in_c(48));
    if (again.size() != ll_ref.size() || std::memcmp(again.data(), ll_ref.data(), sizeof(cmplx_t) * ll_ref.size()) != 0)
        R.fail("C10:long-lived-plan", std::string("{\"what\":\"FftPlan(48) obtained before the soak gives different bits after it\",\"cache\":\"") + nm + "\",\"requests\":" + std::to_string(t) + "}");
    R.stats[std::string("soak_api_") + nm + "_requests"] = (long long)t;
    R.stats[std::string("soak_api_") + nm + "_lockstep_windows"] = (long long)windows;
    R.stats[std::string("soak_api_") + nm + "_checkpoints"] = (long long)checkpoints;
    R.stats[std::string("soak_api_") + nm + "_ms"] = (long long)(std::chrono::duration<double>(std::chrono::steady_clock::now() - t0).count() * 1e3);
    if (sink == 42) R.stats["sink"] = 1;
}

int main(int argc, char** argv) {
    vh::Args a(argc, argv);
    vh::install_guards();
    vh::Rng rng(a.seed);
    // ---- SOAK threads run beside the enumeration (thread_local caches: no interference)
    //   VERIF_C10_SOAK = full : the > 2^32-operation soaks also in the quick tier;  = off : no soak, = only : nothing else (development aids)
    const char* soak_env = std::getenv("VERIF_C10_SOAK");
    const bool soak_off = soak_env && std::string(soak_env) == "off";
    const bool soak_full = a.thorough || (soak_env && std::string(soak_env) == "full");
    const uint64_t BEYOND = (1ull << 32) + (1ull << 21);
    Side sk[3];
    std::vector<std::thread> soakers;
    const uint64_t SHORT = (1ull << 26) + (1ull << 13);
    if (!soak_off) {
        const int cap = verif_fft_cache_capacity();
        soakers.emplace_back([&, cap] { soak_container(soak_full ? BEYOND : SHORT, cap, a.seed, sk[0]); });
        soakers.emplace_back([&] { soak_api(soak_full ? BEYOND : SHORT, false, a.seed, sk[1]); });
        soakers.emplace_back([&] { soak_api(soak_full ? BEYOND : SHORT, true, a.seed, sk[2]); });
    }
    vh::watch(a.thorough ? 10800 : 1800);   // the enumeration below (each history also names itself through set_current)
    // complex alphabet: pow2, composites sharing prime leaves (60 -> 3,4,5; 45 -> 3,3,5), CZT prime (47 -> 128,128), small prime, the CZT's pow2
    const std::vector<Op> AC = {{'c', 16, 0}, {'c', 60, 0}, {'c', 45, 0}, {'c', 47, 0}, {'c', 7, 0}, {'c', 128, 0}};
    // real alphabet (each also drives the complex cache)
    const std::vector<Op> AR = {{'r', 16, 0}, {'r', 60, 0}, {'r', 45, 0}, {'r', 47, 0}, {'r', 7, 0}, {'r', 100, 0}};
    // mixed
    const std::vector<Op> AM = {{'c', 30, 0}, {'r', 60, 0}, {'i', 60, 0}, {'f', 15, 0}, {'z', 10, 7}, {'r', 43, 0}, {'c', 64, 0}, {'c', 8, 0}};
    // inverse real transforms given all n bins or only n/2+1 bins: 'i10' and 'h18' both pass 10 bins, 'i18'/'h34' both 18
    const std::vector<Op> AI = {{'i', 10, 0}, {'h', 18, 0}, {'i', 18, 0}, {'h', 34, 0}, {'h', 10, 0}, {'i', 6, 0}};
    // inverse real transforms with REJECTED calls in between: the odd neighbours of the valid lengths (11 -> 10, 19 -> 18, 7 -> 6: same n/2),
    // a wrong bin count, istft with an odd nfft, a plan object that has rejected a call
    const std::vector<Op> AJ = {{'i', 10, 0}, {'h', 18, 0}, {'o', 11, 0}, {'O', 19, 0}, {'w', 10, 0}, {'S', 11, 0}, {'k', 18, 0}, {'i', 6, 0}, {'o', 7, 0}};
    // forward / complex calls with rejected calls in between: plan objects applied to the wrong length, empty inputs, CZT plan on the wrong length,
    // istft with frames of the wrong length, and the stft round trip
    const std::vector<Op> AF = {{'c', 16, 0}, {'p', 16, 0}, {'K', 60, 0}, {'j', 45, 0}, {'r', 60, 0}, {'q', 60, 0}, {'E', 0, 0}, {'Z', 10, 7}, {'z', 10, 7}, {'U', 16, 0}, {'s', 16, 0}};
    // ---- n-point overloads: several input lengths (shorter / equal / longer) for ONE n, complex and real, pow2 / composite / CZT-prime n
    const std::vector<Op> AP = {{'a', 64, 48}, {'a', 64, 20}, {'a', 64, 64}, {'a', 64, 80}, {'b', 64, 48}, {'b', 64, 20}, {'B', 64, 33}, {'b', 64, 64},
                                {'a', 60, 45}, {'a', 60, 7}, {'b', 60, 31}, {'b', 60, 77}};
    const std::vector<Op> AP2 = {{'a', 97, 31}, {'a', 97, 10}, {'b', 97, 96}, {'b', 97, 31}, {'b', 97, 10}, {'a', 16, 15}, {'a', 16, 1}, {'b', 16, 9}, {'b', 16, 2}, {'c', 16, 0}, {'r', 97, 0}};
    // ---- what is built on them: welch (real / complex) and mscohere with several window lengths at one nfft, the periodogram of sinad (48 and 40 -> nfft 64),
    //      hilbert(x, n), the stft / istft pair with windows shorter than nfft; and a rejected welch call (nfft not a power of two)
    const std::vector<Op> AS = {{'W', 64, 48}, {'W', 64, 16}, {'W', 64, 64}, {'V', 64, 48}, {'V', 64, 16}, {'M', 64, 32}, {'M', 64, 12}, {'P', 48, 0}, {'P', 40, 0},
                                {'H', 64, 48}, {'H', 64, 20}, {'Q', 60, 16}, {'b', 64, 30}, {'G', 64, 48}, {'G', 64, 16}};
    // ---- calls that pad internally (xcorr 20+13 and 16+10 -> 32; FftFilter 8 and 5 taps -> 16, 17 taps -> 64; finddelay -> 32; resample: no transform)
    const std::vector<Op> AX = {{'x', 20, 13}, {'x', 16, 10}, {'X', 20, 13}, {'X', 9, 5}, {'L', 40, 8}, {'L', 40, 5}, {'L', 100, 17}, {'d', 30, 20}, {'d', 17, 31},
                                {'y', 50, 302}, {'y', 37, 203}, {'a', 32, 10}, {'a', 16, 12}};
    const bool soak_only = soak_env && std::string(soak_env) == "only";   // development aid: nothing but the soak
    const int L = a.thorough ? 7 : 5;
    auto tph = std::chrono::steady_clock::now();
    auto phase = [&](const char* name) {   // wall time of the phases (statistics)
        const auto now = std::chrono::steady_clock::now();
        out.stat(std::string("phase_ms_") + name, (long long)(std::chrono::duration<double>(now - tph).count() * 1e3));
        tph = now;
    };
    if (!soak_only) {
    // every even n <= 64 (thorough 256) after each kind of rejected request for n+1 and n-1, as the first requests of a thread
    for (int n = 2; n <= (a.thorough ? 256 : 64); n += 2)
        for (char rk : {'o', 'O', 'S'})
            for (char vk : {'i', 'h', 's'}) {
                if (vk == 's' && (n < 4 || (n > 64 && n % 16))) continue;
                if (rk == 'S' && n < 4) continue;
                run_history({{rk, n + 1, 0}, {vk, n, 0}, {rk, n - 1, 0}, {vk, n, 0}, {'w', n, 0}, {vk, n, 0}}, false, n <= 64);
            }
    enumerate(AC, L, false);
    enumerate(AR, L, false);
    enumerate(AM, a.thorough ? 5 : 4, false);
    enumerate(AI, a.thorough ? 5 : 4, false);
    enumerate(AJ, a.thorough ? 5 : 4, false);
    enumerate(AF, a.thorough ? 4 : 3, false);
    enumerate(AC, a.thorough ? 5 : 3, true);
    enumerate(AJ, a.thorough ? 4 : 2, true);
    phase("plan_alphabets");
    enumerate(AP, a.thorough ? 4 : 3, false);
    enumerate(AP2, a.thorough ? 4 : 3, false);
    enumerate(AS, a.thorough ? 4 : 3, false);
    enumerate(AX, a.thorough ? 4 : 3, false);
    enumerate(AP, 2, true);
    // every n <= 40 (thorough 130): inputs of length n-1, then 1, then n+3, then n/2 at the same n (descending, ascending), complex and real, first calls of a thread
    for (int n = 3; n <= (a.thorough ? 130 : 40); ++n)
        for (char k : {'a', 'b'}) {
            run_history({{k, n, n - 1}, {k, n, 1}, {k, n, n + 3}, {k, n, n / 2}, {k, n, n}, {k, n, n / 2 + 1}}, false, true);
            run_history({{k, n, 1}, {k == 'a' ? 'b' : 'a', n, n - 1}, {k, n, n - 1}, {k, n, 2}}, false, n <= 40);
        }
    phase("npoint_alphabets");
    // large single calls (>= 2^16 / 2^17 samples), the large frame arriving after small ones and the short one after the large one
    run_history({{'a', 64, 20}, {'a', 131072, 70000}, {'a', 131072, 1000}, {'a', 64, 10}}, false, true);
    run_history({{'b', 64, 20}, {'b', 65536, 65535}, {'b', 65536, 3}, {'b', 64, 10}, {'b', 98304, 49152}, {'b', 98304, 5}}, false, true);
    if (a.thorough) {
        run_history({{'a', 196608, 131073}, {'a', 196608, 65536}, {'a', 196608, 196608}, {'a', 196608, 7}}, false, true);
        run_history({{'W', 131072, 70000}, {'W', 131072, 1000}, {'V', 65536, 65535}, {'V', 65536, 3}, {'M', 65536, 40000}, {'M', 65536, 100}}, false, true);
        run_history({{'H', 131072, 70000}, {'H', 131072, 100}, {'X', 40000, 30000}, {'X', 60000, 5}, {'L', 70000, 20000}, {'L', 1000, 16385}}, false, true);
    }
    phase("large_calls");
    // random long histories over 40 lengths with long-lived plan objects interleaved
    std::vector<int> lens;
    for (int n : {3, 5, 6, 7, 9, 10, 11, 12, 15, 16, 18, 20, 21, 24, 25, 27, 30, 32, 33, 36, 41, 43, 45, 47, 48, 49, 50, 53, 60, 64, 77, 81, 90, 96, 100, 101, 120, 121, 128, 143}) lens.push_back(n);
    const int NH = a.thorough ? 200 : 20, HL = a.thorough ? 2000 : 400;
    for (int r = 0; r < NH; ++r) {
        std::vector<Op> h;
        const bool faults = r % 4 != 3;   // three of four histories contain rejected calls (about one request in five)
        for (int i = 0; i < HL; ++i) {
            const int n = lens[rng.next() % lens.size()];
            if (faults && rng.next() % 5 == 0) {
                switch (rng.next() % 10) {
                case 0: case 1: case 2: {   // "try n+1, fall back to n": odd request, mostly followed by an even neighbour
                    const int odd = 2 * n + ((rng.next() & 1) ? 1 : -1);
                    const char kinds[3] = {'o', 'O', 'S'};
                    h.push_back({kinds[rng.next() % 3], odd, 0});
                    if (rng.next() % 4) h.push_back({(rng.next() & 1) ? 'i' : 'h', (rng.next() % 3) ? odd - 1 : odd + 1, 0});
                    break;
                }
                case 3: h.push_back({'w', 2 * n, 0}); break;
                case 4: h.push_back({'p', n, 0}); break;
                case 5: h.push_back({'q', n, 0}); break;
                case 6: h.push_back({'j', n, 0}); break;
                case 7: h.push_back({(rng.next() & 1) ? 'k' : 'U', 2 * n, 0}); break;
                case 8: if (rng.next() & 1) h.push_back({'K', n, 0}); else h.push_back({'E', 0, 0}); break;
                default: h.push_back({'Z', n, 1 + int(rng.next() % 40)}); break;
                }
                continue;
            }
            if (rng.next() % 6 == 0) {   // a burst of n-point calls at ONE n with 2..4 different input lengths (shorter / equal / longer; any order), other calls in between now and then
                const bool spectral = rng.next() % 3 == 0;
                const int nn = spectral ? (1 << vh::Rng(rng.next()).range(4, 8)) : n;
                const int cnt = 2 + int(rng.next() % 3);
                for (int j = 0; j < cnt; ++j) {
                    int m;
                    switch (rng.next() % 4) {
                    case 0: m = nn; break;
                    case 1: m = nn + 1 + int(rng.next() % uint64_t(nn)); break;
                    default: m = 1 + int(rng.next() % uint64_t(nn)); break;
                    }
                    if (spectral) {
                        m = std::max(3, std::min(m, nn));   // (window::hann(2, periodic) and hann(1) throw: the window functions are not this property's subject)
                        const char kinds[6] = {'W', 'V', 'M', 'H', 'b', 'G'};
                        h.push_back({kinds[rng.next() % 6], nn, m});
                    } else {
                        const char kinds[4] = {'a', 'b', 'B', 'H'};
                        h.push_back({kinds[rng.next() % 4], nn, m});
                    }
                    if (rng.next() % 4 == 0) h.push_back({(rng.next() & 1) ? 'c' : 'r', lens[rng.next() % lens.size()], 0});
                }
                continue;
            }
            if (rng.next() % 10 == 0) {   // calls that pad internally
                const int m = 1 + int(rng.next() % uint64_t(n + 8));
                switch (rng.next() % 6) {
                case 0: h.push_back({'x', n, m}); break;
                case 1: h.push_back({'X', n, m}); break;
                case 2: h.push_back({'L', n, 1 + m % 40}); break;
                case 3: h.push_back({'d', n, m}); break;
                case 4: h.push_back({'P', 8 + n, 0}); break;
                default: h.push_back({'y', n, 100 * (1 + int(rng.next() % 5)) + 1 + int(rng.next() % 5)}); break;
                }
                continue;
            }
            switch (rng.next() % 8) {
            case 0: case 1: case 2: h.push_back({'c', n, 0}); break;
            case 3: case 4: h.push_back({'r', n, 0}); break;
            case 5: h.push_back({'f', n, 0}); break;
            case 6: h.push_back({(rng.next() & 1) ? 'i' : 'h', 2 * n, 0}); break;
            default:
                if (rng.next() % 4 == 0) h.push_back({'s', 2 * n, 0});
                else h.push_back({'z', n, 1 + int(rng.next() % 40)});
                break;
            }
        }
        run_history(h, r % 2 == 0, true);
    }
    phase("random_histories");
    // ---- concurrent histories: 8 threads at a time, each with its own inverse-real lengths (nothing the threads do is shared), own padded calls
    {
        const int NB = a.thorough ? 12 : 3, NT = 8, CL = a.thorough ? 1500 : 500;
        for (int bch = 0; bch < NB; ++bch) {
            std::vector<std::vector<Op>> hs(NT);
            for (int t = 0; t < NT; ++t) {
                int mine[4];
                for (int j = 0; j < 4; ++j) mine[j] = 2 * (8 + 37 * t + 9 * j + int(rng.next() % 4)) + (j == 3 ? 400 : 0);   // even lengths, different in every thread
                for (int i = 0; i < CL; ++i) {
                    const int n = mine[rng.next() % 4];
                    switch (rng.next() % 12) {
                    case 0: case 1: hs[t].push_back({'i', n, 0}); break;
                    case 2: hs[t].push_back({'h', n, 0}); break;
                    case 3: case 4: case 5: hs[t].push_back({'I', n, 2 + int(rng.next() % 30)}); break;
                    case 6: hs[t].push_back({'k', n, 0}); break;
                    case 7: hs[t].push_back({(rng.next() & 1) ? 'o' : 'O', n + 1, 0}); break;
                    case 8: hs[t].push_back({'a', n, 1 + int(rng.next() % uint64_t(n))}); break;
                    case 9: hs[t].push_back({'b', n, 1 + int(rng.next() % uint64_t(n))}); break;
                    case 10: hs[t].push_back({'H', n, 1 + int(rng.next() % uint64_t(n))}); break;
                    default: hs[t].push_back(n <= 128 ? Op{'s', n, 0} : Op{'i', n, 0}); break;
                    }
                }
            }
            run_concurrent(hs, bch % 2 == 1);
        }
    }
    phase("concurrent_histories");
    }   // !soak_only
    // a slow or hanging soak is reported, not waited for
    vh::set_current("C10:soak-timeout", std::string("{\"what\":\"the soak threads (LRU container / complex plan cache / real plan cache) did not finish in time\",\"operations_each\":") +
                                            std::to_string(soak_full ? BEYOND : SHORT) + "}");
    vh::watch(soak_full ? 2400 : 600);
    for (auto& t : soakers) t.join();
    vh::unwatch();
    vh::clear_current();
    for (auto& S : sk) {
        for (auto& c : S.corr) out.corr(c.first, c.second);
        for (auto& f : S.fails) out.fail(f.first, f.second);
        for (auto& st : S.stats) out.stat(st.first, st.second);
        out.n_oracle += S.n_oracle;
    }
    out.finish();
    return 0;
}
