// C10 — transform results do not depend on call history; plan caching is transparent.
// Every history runs in a fresh thread (fresh thread_local caches).  After every operation the
// DSPLIB_VERIF hooks report the keys of both caches in recency order (lock-step correspondence with
// the Lean LRU/factory model) and the result is compared bit-exactly with the fresh-thread result.
#include "common.hpp"
#include <thread>
#include <map>
using namespace dsplib;

namespace dsplib {
std::vector<int> verif_fft_cache_keys();
std::vector<int> verif_rfft_cache_keys();
int verif_fft_cache_capacity();
}

static vh::Out out;

struct Op { char kind; int n; int m; };   // kind: c fft(cmplx), r fft(real), i irfft(n) full spectrum, h irfft(n) half spectrum, f ifft(n), z czt(n,m)

static std::string op_str(const Op& o) {
    std::string s(1, o.kind);
    s += std::to_string(o.n);
    if (o.kind == 'z') s += ":" + std::to_string(o.m);
    return s;
}

static arr_cmplx in_c(int n) {
    arr_cmplx x(n);
    for (int i = 0; i < n; ++i) x[i] = cmplx_t(std::sin(0.37 * i + 0.1 * n), std::cos(0.11 * i * i + n));
    return x;
}
static arr_real in_r(int n) {
    arr_real x(n);
    for (int i = 0; i < n; ++i) x[i] = std::sin(0.37 * i + 0.1 * n) + 0.25 * std::cos(1.3 * i);
    return x;
}

// result of one operation as a flat vector of doubles
static std::vector<double> run_op(const Op& o) {
    std::vector<double> r;
    auto push = [&](const arr_cmplx& y) { for (int i = 0; i < y.size(); ++i) { r.push_back(y[i].re); r.push_back(y[i].im); } };
    switch (o.kind) {
    case 'c': push(fft(in_c(o.n))); break;
    case 'f': push(ifft(in_c(o.n))); break;
    case 'r': push(fft(in_r(o.n))); break;
    case 'i': { auto y = irfft(fft(in_r(o.n)), o.n); for (int i = 0; i < y.size(); ++i) r.push_back(y[i]); break; }
    case 'h': {   // irfft from the first n/2+1 bins only (same bin count as a full spectrum of length n/2+1)
        const arr_cmplx X = fft(in_r(o.n));
        auto y = irfft(arr_cmplx(X.slice(0, o.n / 2 + 1)), o.n);
        for (int i = 0; i < y.size(); ++i) r.push_back(y[i]);
        break;
    }
    case 'z': push(czt(in_c(o.n), o.m, expj(-2 * pi / (o.m + 1.5)), cmplx_t(1.0, 0.0))); break;
    }
    return r;
}

static std::map<std::string, std::vector<double>> g_ref;

static const std::vector<double>& reference(const Op& o) {
    const std::string k = op_str(o);
    auto it = g_ref.find(k);
    if (it != g_ref.end()) return it->second;
    std::vector<double> r;
    std::thread t([&] { r = run_op(o); });
    t.join();
    return g_ref[k] = r;
}

static bool same_bits(const std::vector<double>& a, const std::vector<double>& b) {
    return a.size() == b.size() && (a.empty() || std::memcmp(a.data(), b.data(), a.size() * sizeof(double)) == 0);
}

static std::string hist_json(const std::vector<Op>& h, int upto, const char* what) {
    std::string s = "{\"op\":\"history\",\"what\":\"";
    s += what;
    s += "\",\"ops\":[";
    for (int i = 0; i <= upto && i < int(h.size()); ++i) { if (i) s += ","; s += "\"" + op_str(h[i]) + "\""; }
    return s + "]}";
}

// executes one history in a fresh thread
static void run_history(const std::vector<Op>& h, bool with_long_lived, bool emit_corr) {
    for (auto& o : h) reference(o);   // make sure references exist (computed in their own threads)
    const Op ll_ops[3] = {{'c', 60, 0}, {'c', 47, 0}, {'r', 90, 0}};
    for (auto& o : ll_ops) reference(o);
    std::string lhs, rhs;
    std::thread t([&] {
        const int cap = verif_fft_cache_capacity();
        lhs = "hist " + std::to_string(cap) + " " + std::to_string(with_long_lived ? 1 : 0) + " " + std::to_string(h.size());
        std::unique_ptr<FftPlan> p60, p47;
        std::unique_ptr<FftPlanR> r90;
        if (with_long_lived) {   // long-lived plan objects created first: they touch the caches too
            p60 = std::make_unique<FftPlan>(60);
            p47 = std::make_unique<FftPlan>(47);
            r90 = std::make_unique<FftPlanR>(90);
        }
        int last_c = -1, last_r = -1;
        for (size_t i = 0; i < h.size(); ++i) {
            const Op& o = h[i];
            lhs += " " + op_str(o);
            vh::set_current("C10:crash", hist_json(h, int(i), "crash"));
            const auto got = run_op(o);
            vh::clear_current();
            out.n_oracle++;
            if (!same_bits(got, reference(o))) out.fail("C10:history-dependence", hist_json(h, int(i), "result differs from the fresh-thread result"));
            const auto kc = verif_fft_cache_keys();
            const auto kr = verif_rfft_cache_keys();
            rhs += " C " + std::to_string(kc.size()) + vh::join_ints(kc) + " R " + std::to_string(kr.size()) + vh::join_ints(kr);
            if (int(kc.size()) > cap || int(kr.size()) > cap) out.fail("C10:cache-exceeds-capacity", hist_json(h, int(i), "more plans cached than DSPLIB_FFT_CACHE_SIZE"));
            // the plan used last (if it is cacheable) must be the most recent entry of its cache
            auto small = [](int n) { return n == 1 || n == 2 || n == 4 || n == 8; };
            if ((o.kind == 'c' || o.kind == 'f') && !small(o.n)) { if (kc.empty() || kc[0] != o.n) out.fail("C10:mru-not-cached", hist_json(h, int(i), "most recently used complex length is not the front entry")); }
            if (o.kind == 'r' && !small(o.n)) { if (kr.empty() || kr[0] != o.n) out.fail("C10:mru-not-cached", hist_json(h, int(i), "most recently used real length is not the front entry")); }
            (void)last_c; (void)last_r;
            out.stat(kc.size() >= size_t(cap) ? "complex_cache_full" : "complex_cache_not_full");
        }
        if (with_long_lived) {   // plans obtained earlier stay valid after arbitrarily many other lengths
            std::vector<double> a, b, c;
            auto flat = [](const arr_cmplx& y) { std::vector<double> r; for (int i = 0; i < y.size(); ++i) { r.push_back(y[i].re); r.push_back(y[i].im); } return r; };
            vh::set_current("C10:crash", hist_json(h, int(h.size()), "crash using a long-lived plan"));
            a = flat((*p60)(in_c(60)));
            b = flat((*p47)(in_c(47)));
            c = flat((*r90)(in_r(90)));
            vh::clear_current();
            out.n_oracle += 3;
            if (!same_bits(a, reference(ll_ops[0])) || !same_bits(b, reference(ll_ops[1])) || !same_bits(c, reference(ll_ops[2])))
                out.fail("C10:long-lived-plan", hist_json(h, int(h.size()), "a plan object obtained before the history no longer gives the fresh-thread result"));
        }
    });
    t.join();
    if (emit_corr) out.corr(lhs, rhs.empty() ? "-" : rhs.substr(1));
    out.stat("histories");
    out.stat("history_len_" + std::to_string(h.size() > 8 ? 9 : h.size()) + (h.size() > 8 ? "plus" : ""));
    if (out.n_cases % 997 == 1) out.sample(hist_json(h, int(h.size()), "sample"));
}

static void enumerate(const std::vector<Op>& alphabet, int maxlen, bool ll) {
    std::vector<int> idx;
    std::function<void()> rec = [&] {
        if (!idx.empty()) {
            std::vector<Op> h;
            for (int i : idx) h.push_back(alphabet[i]);
            run_history(h, ll, true);
        }
        if (int(idx.size()) == maxlen) return;
        for (int i = 0; i < int(alphabet.size()); ++i) { idx.push_back(i); rec(); idx.pop_back(); }
    };
    rec();
}

int main(int argc, char** argv) {
    vh::Args a(argc, argv);
    vh::install_guards();
    vh::Rng rng(a.seed);
    // complex alphabet: pow2, composites sharing prime leaves (60 -> 3,4,5; 45 -> 3,3,5), CZT prime (47 -> 128,128), small prime, the CZT's pow2
    const std::vector<Op> AC = {{'c', 16, 0}, {'c', 60, 0}, {'c', 45, 0}, {'c', 47, 0}, {'c', 7, 0}, {'c', 128, 0}};
    // real alphabet (each also drives the complex cache)
    const std::vector<Op> AR = {{'r', 16, 0}, {'r', 60, 0}, {'r', 45, 0}, {'r', 47, 0}, {'r', 7, 0}, {'r', 100, 0}};
    // mixed
    const std::vector<Op> AM = {{'c', 30, 0}, {'r', 60, 0}, {'i', 60, 0}, {'f', 15, 0}, {'z', 10, 7}, {'r', 43, 0}, {'c', 64, 0}, {'c', 8, 0}};
    // inverse real transforms given all n bins or only n/2+1 bins: 'i10' and 'h18' both pass 10 bins, 'i18'/'h34' both 18
    const std::vector<Op> AI = {{'i', 10, 0}, {'h', 18, 0}, {'i', 18, 0}, {'h', 34, 0}, {'h', 10, 0}, {'i', 6, 0}};
    const int L = a.thorough ? 7 : 5;
    enumerate(AC, L, false);
    enumerate(AR, L, false);
    enumerate(AM, a.thorough ? 5 : 4, false);
    enumerate(AI, a.thorough ? 5 : 4, false);
    enumerate(AC, a.thorough ? 5 : 3, true);
    // random long histories over 40 lengths with long-lived plan objects interleaved
    std::vector<int> lens;
    for (int n : {3, 5, 6, 7, 9, 10, 11, 12, 15, 16, 18, 20, 21, 24, 25, 27, 30, 32, 33, 36, 41, 43, 45, 47, 48, 49, 50, 53, 60, 64, 77, 81, 90, 96, 100, 101, 120, 121, 128, 143}) lens.push_back(n);
    const int NH = a.thorough ? 200 : 20, HL = a.thorough ? 2000 : 400;
    for (int r = 0; r < NH; ++r) {
        std::vector<Op> h;
        for (int i = 0; i < HL; ++i) {
            const int n = lens[rng.next() % lens.size()];
            switch (rng.next() % 8) {
            case 0: case 1: case 2: h.push_back({'c', n, 0}); break;
            case 3: case 4: h.push_back({'r', n, 0}); break;
            case 5: h.push_back({'f', n, 0}); break;
            case 6: h.push_back({(rng.next() & 1) ? 'i' : 'h', 2 * n, 0}); break;
            default: h.push_back({'z', n, 1 + int(rng.next() % 40)}); break;
            }
        }
        run_history(h, r % 2 == 0, true);
    }
    out.finish();
    return 0;
}
