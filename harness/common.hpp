// Shared helpers for the correspondence / oracle harnesses.  Each harness (cXX.cpp) links the
// real library built from /repo's working tree and writes a line protocol to stdout:
//   C <tag> <args...> | <outs...>   correspondence case: the Lean driver re-computes <outs> from
//                                   <tag> <args> with the model and check.py compares
//   F <key> <json>                  the property's own oracle FAILED on the implementation
//                                   (a concrete witness; <json> is the replay input)
//   S <name> <int>                  statistic (input distribution, branch counters) for evidence
//   X <json>                        sample case for evidence
// doubles are written as x%016llx (IEEE bits), ints in decimal, exceptions as ERR.
#pragma once
#include <cstdint>
#include <cstdio>
#include <cstring>
#include <cmath>
#include <string>
#include <vector>
#include <map>
#include <sstream>
#include <functional>
#include <stdexcept>
#include <cstdlib>
#include <dsplib.h>

namespace vh {

struct Rng {   // splitmix64: every random choice of a run derives from VERIF_SEED
    uint64_t s;
    explicit Rng(uint64_t seed) : s(seed) {}
    uint64_t next() {
        uint64_t z = (s += 0x9e3779b97f4a7c15ULL);
        z = (z ^ (z >> 30)) * 0xbf58476d1ce4e5b9ULL;
        z = (z ^ (z >> 27)) * 0x94d049bb133111ebULL;
        return z ^ (z >> 31);
    }
    int range(int lo, int hi) { return hi <= lo ? lo : lo + int(next() % uint64_t((long long)hi - lo + 1)); }   // inclusive
    double unit() { return double(next() >> 11) * (1.0 / 9007199254740992.0); }
    double sym() { return 2 * unit() - 1; }
    double gauss() {
        double u = unit(), v = unit();
        if (u < 1e-300) u = 1e-300;
        return std::sqrt(-2 * std::log(u)) * std::cos(6.283185307179586 * v);
    }
    bool coin() { return next() & 1; }
};

inline std::string hx(double d) {
    uint64_t u;
    std::memcpy(&u, &d, 8);
    char b[24];
    std::snprintf(b, sizeof b, "x%016llx", (unsigned long long)u);
    return b;
}

struct Out {
    std::map<std::string, long long> stats;
    long long n_cases = 0, n_fail = 0, n_oracle = 0;
    int max_samples = 6, samples = 0;
    std::map<std::string, int> fail_per_key;
    void stat(const std::string& k, long long d = 1) { stats[k] += d; }
    void corr(const std::string& lhs, const std::string& rhs) {
        std::printf("C %s | %s\n", lhs.c_str(), rhs.c_str());
        ++n_cases;
    }
    // at most `cap` witnesses per key are printed (the rest only counted)
    void fail(const std::string& key, const std::string& json, int cap = 3) {
        ++n_fail;
        if (fail_per_key[key]++ < cap) std::printf("F %s %s\n", key.c_str(), json.c_str());
    }
    void sample(const std::string& json) {
        if (samples++ < max_samples) std::printf("X %s\n", json.c_str());
    }
    void finish() {
        stats["corr_cases"] = n_cases;
        stats["oracle_failures"] = n_fail;
        stats["oracle_evaluations"] = n_oracle;
        for (auto& kv : stats) std::printf("S %s %lld\n", kv.first.c_str(), kv.second);
        std::fflush(stdout);
    }
};

// ---- crash / sanitizer / hang reporting: the case being executed is remembered so that a
// sanitizer abort, a signal or the watchdog is reported as an oracle failure with a replay.
inline char g_cur_key[256] = "";
inline char g_cur_json[8192] = "";
inline void set_current(const std::string& key, const std::string& json) {
    std::snprintf(g_cur_key, sizeof g_cur_key, "%s", key.c_str());
    std::snprintf(g_cur_json, sizeof g_cur_json, "%s", json.c_str());
}
inline void clear_current() { g_cur_key[0] = 0; }
inline void on_death() {
    if (g_cur_key[0]) {
        std::printf("\nF %s %s\n", g_cur_key, g_cur_json);
        std::fflush(stdout);
    }
}
}   // namespace vh
#if defined(__has_feature)
#if __has_feature(address_sanitizer) || __has_feature(thread_sanitizer)
#define VH_SANITIZER 1
extern "C" void __sanitizer_set_death_callback(void (*)(void));
#endif
#endif
#include <csignal>
#include <unistd.h>
namespace vh {
inline void on_signal(int sig) {
    on_death();
    std::_Exit(sig == SIGALRM ? 97 : 98);
}
inline void install_guards() {
    std::signal(SIGSEGV, on_signal);
    std::signal(SIGFPE, on_signal);
    std::signal(SIGBUS, on_signal);
    std::signal(SIGABRT, on_signal);
    std::signal(SIGILL, on_signal);
    std::signal(SIGALRM, on_signal);
#ifdef VH_SANITIZER
    __sanitizer_set_death_callback(on_death);
#endif
}
// watchdog: `watch(seconds)` before a call that must terminate, `unwatch()` after
inline void watch(unsigned s) { alarm(s); }
inline void unwatch() { alarm(0); }

struct Args {
    bool thorough = false;
    uint64_t seed = 1;
    std::string replay;   // optional replay json / spec
    Args(int argc, char** argv) {
        for (int i = 1; i < argc; ++i) {
            std::string a = argv[i];
            if (a == "--tier" && i + 1 < argc) thorough = std::string(argv[++i]) == "thorough";
            else if (a == "--seed" && i + 1 < argc) seed = std::strtoull(argv[++i], nullptr, 10);
            else if (a == "--replay" && i + 1 < argc) replay = argv[++i];
        }
    }
};

template<class V>
std::string join_ints(const V& v) {
    std::string s;
    for (auto x : v) { s += " "; s += std::to_string((long long)x); }
    return s;
}

inline std::string hxs(const dsplib::arr_real& a) {
    std::string s = std::to_string(a.size());
    for (int i = 0; i < a.size(); ++i) { s += " "; s += hx(a[i]); }
    return s;
}

inline std::string hxs(const dsplib::arr_cmplx& a) {
    std::string s = std::to_string(a.size());
    for (int i = 0; i < a.size(); ++i) { s += " "; s += hx(a[i].re); s += " "; s += hx(a[i].im); }
    return s;
}

inline std::string jnum(double d) {
    char b[40];
    std::snprintf(b, sizeof b, "%.17g", d);
    if (std::isnan(d) || std::isinf(d)) return std::string("\"") + b + "\"";
    return b;
}

inline std::string jarr(const dsplib::arr_real& a) {
    std::string s = "[";
    for (int i = 0; i < a.size(); ++i) { if (i) s += ","; s += jnum(a[i]); }
    return s + "]";
}

inline std::string jarr(const dsplib::arr_cmplx& a) {
    std::string s = "[";
    for (int i = 0; i < a.size(); ++i) { if (i) s += ","; s += "[" + jnum(a[i].re) + "," + jnum(a[i].im) + "]"; }
    return s + "]";
}

template<class V>
std::string jints(const V& v) {
    std::string s = "[";
    bool first = true;
    for (auto x : v) { if (!first) s += ","; first = false; s += std::to_string((long long)x); }
    return s + "]";
}

}   // namespace vh
