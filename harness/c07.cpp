// C07 — FIR filtering and correlation equal their defining sums.
//   FirFilter<T>, FftFilter (real and complex), xcorr, MAFilter<T> on the real library.
//   ORACLE: long-double evaluation of the defining sums
//      y[i]   = sum_k conj(c[k]) * x[i-k]                    (from rest; conj = id for real)
//      r[j]   = sum_n a[n+lag] * conj(b[n]),  lag = j-(len(b)-1)
//      ma[t]  = (sum_{j<n} x[t-j]) / n  = FIR with n taps 1/n
//   with the a-priori rounding bound of the algorithm class:
//      direct paths (FirFilter):  |err_i| <= (nh+8) * eps * sum_k |c[k]||x[i-k]|          (componentwise)
//      FFT paths (FftFilter, xcorr): |err_i| <= (8+log2 N) * eps * ||c||_2 * ||x_block||_2 (normwise: an
//         FFT convolution has no componentwise bound; the block(s) feeding output i are used)
//      MAFilter (running sum, re-summed every n samples): |err_t| <= (1.5n+4) * eps * sum_{j<2n}|x[t-j]| / n
//   every bound carries an additive slack of a few DENORMAL quanta only ((nh+8) * 2^-1074 for the direct paths,
//   64 * N * 2^-1074 * (1 + ||c|| + ||x||) for the FFT paths): the oracle is RELATIVE at every absolute scale of the
//   coefficients and of the inputs (scale classes 1e-300 .. 1e100, tiny tails next to O(1) taps, +-0, denormals,
//   powers of two, exact-zero runs longer than every internal history).
//   Object lifetime: copies of FirFilter / FftFilter / MAFilter (vector<P>(n, proto), copy-construction and
//   copy-assignment mid-stream, a destroyed copy, a moved copy) used interleaved with their source: every object must
//   emit, bit for bit, what a separately constructed object emits on (copied history ++ own stream), and the defining sum.
//   CORR: the same calls are replayed by the Lean model (`Model/Fir.lean`) through `dspdriver_c07`.
#include "common.hpp"
#include "ma-filter.h"
#include <algorithm>
#include <numeric>
#include <set>
using namespace dsplib;
typedef long double ld;
static vh::Out out;
static const ld EPS = 2.220446049250313e-16L;
static const ld DMIN = 4.9406564584124654e-324L;   // 2^-1074: the absolute quantum of the denormal range

// ------------------------------------------------------------------ long-double scalars
struct CL {
    ld re, im;
};
static inline ld toL(real_t v) { return v; }
static inline CL toL(cmplx_t v) { return CL{v.re, v.im}; }
static inline ld cjL(ld v) { return v; }
static inline CL cjL(CL v) { return CL{v.re, -v.im}; }
static inline ld mulL(ld a, ld b) { return a * b; }
static inline CL mulL(CL a, CL b) { return CL{a.re * b.re - a.im * b.im, a.re * b.im + a.im * b.re}; }
static inline void accL(ld& a, ld b) { a += b; }
static inline void accL(CL& a, CL b) { a.re += b.re; a.im += b.im; }
static inline ld magL(ld v) { return fabsl(v); }
static inline ld magL(CL v) { return hypotl(v.re, v.im); }
static inline ld errL(ld ref, real_t got) { return fabsl(ref - (ld)got); }
static inline ld errL(CL ref, cmplx_t got) { return hypotl(ref.re - (ld)got.re, ref.im - (ld)got.im); }
static inline ld divL(ld a, ld n) { return a / n; }
static inline CL divL(CL a, ld n) { return CL{a.re / n, a.im / n}; }
static inline bool finiteT(real_t v) { return std::isfinite(v); }
static inline bool finiteT(cmplx_t v) { return std::isfinite(v.re) && std::isfinite(v.im); }
template<class T> struct Tr;
template<> struct Tr<real_t> { using L = ld; static const char* nm() { return "R"; } };
template<> struct Tr<cmplx_t> { using L = CL; static const char* nm() { return "C"; } };
static inline ld zeroL(ld) { return 0; }
static inline CL zeroL(CL) { return CL{0, 0}; }

static int ceil_log2(int m) { int p = 0; while ((1L << p) < m) ++p; return p; }

// ------------------------------------------------------------------ generators
static void rnd(vh::Rng& r, real_t& v) { v = r.gauss(); }
static void rnd(vh::Rng& r, cmplx_t& v) { v.re = r.gauss(); v.im = r.gauss(); }
static void scale(real_t& v, double s) { v *= s; }
static void scale(cmplx_t& v, double s) { v.re *= s; v.im *= s; }

static const char* HK[] = {"random", "symmetric", "sparse", "single-first", "single-last", "tiny-tail", "special-values"};
static const int NHK = 7;
// +-0, denormals, exact powers of two, +-1
static double special_value(vh::Rng& r) {
    const double sg = r.coin() ? 1.0 : -1.0;
    switch (r.range(0, 6)) {
    case 0: return sg * 0.0;
    case 1: return sg * 4.9406564584124654e-324;
    case 2: return sg * std::ldexp(1.0, -r.range(1023, 1070));
    case 3: return sg * std::ldexp(1.0, r.range(-60, 60));
    case 4: return sg;
    case 5: return sg * std::ldexp(1.0, -1022);
    default: return sg * std::ldexp(1.0, r.range(-8, 8));
    }
}
static void spc(vh::Rng& r, real_t& v) { v = special_value(r); }
static void spc(vh::Rng& r, cmplx_t& v) { v.re = special_value(r); v.im = special_value(r); }
// the absolute scale classes of coefficient vectors and of inputs
static const double SCALES[] = {1e-300, 1e-17, 0x1p-60, 1e-8, 1.0, 1e8, 0x1p60, 1e100};
static const int NSC = 8;
template<class T> base_array<T> gen_h(vh::Rng& r, int nh, int kind) {
    base_array<T> h(nh);
    for (int i = 0; i < nh; ++i) h[i] = T(0);
    switch (kind) {
    case 0: for (int i = 0; i < nh; ++i) rnd(r, h[i]); break;
    case 1: for (int i = 0; i < (nh + 1) / 2; ++i) { rnd(r, h[i]); h[nh - 1 - i] = h[i]; } break;
    case 2: {
        int nz = std::max(1, nh / 10);
        for (int j = 0; j < nz; ++j) rnd(r, h[r.range(0, nh - 1)]);
        break;
    }
    case 3: rnd(r, h[0]); break;
    case 4: rnd(r, h[nh - 1]); break;
    case 5: {   // one or two O(1) taps, every other tap NON-ZERO but 1e-16 .. 1e-25 of them
        for (int i = 0; i < nh; ++i) { rnd(r, h[i]); scale(h[i], std::pow(10.0, -r.range(16, 25))); }
        rnd(r, h[r.range(0, nh - 1)]);
        if (r.coin()) rnd(r, h[r.range(0, nh - 1)]);
        break;
    }
    case 6: for (int i = 0; i < nh; ++i) spc(r, h[i]); break;
    }
    return h;
}
template<class T> void scale_all(base_array<T>& a, double s) {
    if (s != 1.0) for (int i = 0; i < a.size(); ++i) scale(a[i], s);
}

static const char* XK[] = {"gauss", "impulsive", "dynamic-per-sample", "dynamic-per-segment", "dc", "unit-impulse", "zero-runs", "special-values"};
static const int NXK = 8;
// `hist`: the longest internal history of the processor under test (zero runs are made longer than that)
template<class T> base_array<T> gen_x(vh::Rng& r, int nx, int kind, int hist = 16) {
    base_array<T> x(nx);
    for (int i = 0; i < nx; ++i) x[i] = T(0);
    if (nx == 0) return x;
    switch (kind) {
    case 0: for (int i = 0; i < nx; ++i) rnd(r, x[i]); break;
    case 1: {   // a few spikes of widely different size, first / last sample included half of the time
        int ns = r.range(1, 5);
        for (int j = 0; j < ns; ++j) {
            int p = r.range(0, nx - 1);
            if (j == 0 && r.coin()) p = 0;
            if (j == 1 && r.coin()) p = nx - 1;
            rnd(r, x[p]);
            scale(x[p], std::pow(10.0, r.range(-3, 6)));
        }
        break;
    }
    case 2: for (int i = 0; i < nx; ++i) { rnd(r, x[i]); scale(x[i], std::ldexp(1.0, r.range(-40, 40))); } break;
    case 3: {
        int seg = std::max(1, nx / r.range(2, 9));
        double s = 1;
        for (int i = 0; i < nx; ++i) {
            if (i % seg == 0) s = std::ldexp(1.0, r.range(-40, 40));
            rnd(r, x[i]);
            scale(x[i], s);
        }
        break;
    }
    case 4: { T c; rnd(r, c); for (int i = 0; i < nx; ++i) x[i] = c; break; }
    case 5: x[0] = T(1); break;
    case 6: {   // bursts of varying scale separated by runs of exact zeros (+0 or -0) longer than the history
        int i = 0;
        while (i < nx) {
            const int nb = r.range(1, hist + 3);
            const double s = std::ldexp(1.0, r.range(-30, 30));
            for (int k = 0; k < nb && i < nx; ++k, ++i) { rnd(r, x[i]); scale(x[i], s); }
            const int nz = r.range(hist + 1, 3 * hist + 5);
            const bool neg = r.coin();
            for (int k = 0; k < nz && i < nx; ++k, ++i) { x[i] = T(0); if (neg) scale(x[i], -1.0); }
        }
        break;
    }
    case 7: for (int i = 0; i < nx; ++i) spc(r, x[i]); break;
    }
    return x;
}

// random framing of a stream of length nx into nf frames (empty frames allowed)
static std::vector<int> gen_cuts(vh::Rng& r, int nx, int nf) {
    std::vector<int> c;
    for (int i = 0; i + 1 < nf; ++i) c.push_back(r.range(0, nx));
    std::sort(c.begin(), c.end());
    std::vector<int> len;
    int prev = 0;
    for (int v : c) { len.push_back(v - prev); prev = v; }
    len.push_back(nx - prev);
    return len;
}

template<class T> base_array<T> sub(const base_array<T>& x, int a, int n) {
    base_array<T> r(n);
    for (int i = 0; i < n; ++i) r[i] = x[a + i];
    return r;
}

// the indices of [0,total) that the oracle evaluates: all when the work is small, otherwise the
// neighbourhoods of every boundary (start, nh-1, frame and block boundaries, end) plus a random sample
static std::vector<int> pick(vh::Rng& r, int total, long long work_per_index, const std::vector<int>& marks, int nrandom) {
    std::vector<int> v;
    if (total <= 0) return v;
    if ((long long)total * work_per_index <= 3000000LL) {
        for (int i = 0; i < total; ++i) v.push_back(i);
        return v;
    }
    std::set<int> s;
    auto around = [&](int c, int w) { for (int i = c - w; i <= c + w; ++i) if (i >= 0 && i < total) s.insert(i); };
    around(0, 24);
    around(total - 1, 24);
    for (int m : marks) around(m, 3);
    for (int i = 0; i < nrandom; ++i) s.insert(r.range(0, total - 1));
    v.assign(s.begin(), s.end());
    return v;
}

static void maxstat(const std::string& k, long long v) { auto& s = out.stats[k]; if (v > s) s = v; }

template<class T> std::string frames_str(const base_array<T>& x, const std::vector<int>& lens) {
    std::string s = std::to_string(lens.size());
    int p = 0;
    for (int l : lens) { s += " " + vh::hxs(sub(x, p, l)); p += l; }
    return s;
}
// every `stride`-th element
template<class T> std::string dec_str(const base_array<T>& y, int stride) {
    int cnt = (y.size() + stride - 1) / stride;
    base_array<T> d(cnt);
    for (int i = 0; i < cnt; ++i) d[i] = y[i * stride];
    return vh::hxs(d);
}

template<class T> struct Stream {   // long-double images of a coefficient vector / an input
    std::vector<typename Tr<T>::L> v;
    std::vector<ld> a;
    explicit Stream(const base_array<T>& x, bool conj = false) {
        for (int i = 0; i < x.size(); ++i) { auto l = toL(x[i]); v.push_back(conj ? cjL(l) : l); a.push_back(magL(l)); }
    }
    ld norm2(int from, int to) const { ld s = 0; for (int i = std::max(from, 0); i < to && i < (int)a.size(); ++i) s += a[i] * a[i]; return sqrtl(s); }
};

// y[i] = sum_{k<nh, k<=i} conj(c[k]) x[i-k]   and   S = sum |c[k]||x[i-k]|
template<class T> void ref_conv(const Stream<T>& c, const Stream<T>& x, int i, typename Tr<T>::L& v, ld& S) {
    v = zeroL(v);
    S = 0;
    const int nh = c.v.size();
    for (int k = 0; k < nh && k <= i; ++k) {
        accL(v, mulL(c.v[k], x.v[i - k]));
        S += c.a[k] * x.a[i - k];
    }
}

// the case in flight: absolute scales of coefficients / inputs and (optionally) a prescribed framing
static double g_sc = 1.0, g_sx = 1.0;
static const std::vector<int>* g_lens = nullptr;
struct ScaleScope {
    ScaleScope(double sc, double sx) { g_sc = sc; g_sx = sx; }
    ~ScaleScope() { g_sc = 1.0; g_sx = 1.0; }
};
static const char* scale_name(double s) {
    static char b[8][32];
    static int k = 0;
    k = (k + 1) % 8;
    std::snprintf(b[k], sizeof b[k], "%g", s);
    return b[k];
}

static std::string case_json(const char* what, const char* T, int nh, int hk, int nx, int xk, const std::vector<int>& lens, uint64_t cs, int idx, ld err, ld bound) {
    std::ostringstream o;
    o << "{\"op\":\"" << what << "\",\"type\":\"" << T << "\",\"nh\":" << nh << ",\"coeff_kind\":\"" << (hk >= 0 ? HK[hk] : "-") << "\",\"nx\":" << nx
      << ",\"input_kind\":\"" << XK[xk] << "\",\"coeff_scale\":" << vh::jnum(g_sc) << ",\"input_scale\":" << vh::jnum(g_sx)
      << ",\"frames\":" << vh::jints(lens) << ",\"case_seed\":" << cs << ",\"index\":" << idx
      << ",\"error\":" << vh::jnum((double)err) << ",\"bound\":" << vh::jnum((double)bound) << "}";
    return o.str();
}
static void scale_stats(const char* what) {
    if (g_sc != 1.0) out.stat(std::string(what) + "_coeff_scale_" + scale_name(g_sc));
    if (g_sx != 1.0) out.stat(std::string(what) + "_input_scale_" + scale_name(g_sx));
}

// ------------------------------------------------------------------ the defining-sum oracles (shared by the plain, the copy and the large-frame scenarios)
// direct path: componentwise; `mk(i, err, bound)` builds the witness
template<class T, class MK>
bool oracle_fir(vh::Rng& r, const base_array<T>& h, const base_array<T>& x, const base_array<T>& y, const std::vector<int>& lens, const std::string& key, MK mk) {
    const int nh = h.size(), nx = x.size();
    const Stream<T> c(h, true), xs(x);
    std::vector<int> marks = {nh - 1, nh};
    { int q = 0; for (int l : lens) { q += l; marks.push_back(q); } }
    const auto idx = pick(r, nx, nh, marks, 400);
    for (int i : idx) {
        typename Tr<T>::L v; ld S;
        ref_conv<T>(c, xs, i, v, S);
        const ld e = errL(v, y[i]);
        const ld bound = (nh + 8) * EPS * S + (nh + 8) * DMIN;
        out.n_oracle++;
        if (S > 0) maxstat("fir_worst_err_over_eps_sumabs_x1000", (long long)(1000 * e / (EPS * S + DMIN)));
        if (!(e <= bound) || !finiteT(y[i])) { out.fail(key, mk(i, e, bound)); return false; }
    }
    return true;
}
// FFT path: normwise over the blocks that feed output i; optionally the direct filter's output `yd` on the same stream
template<class T, class MK>
bool oracle_fft(vh::Rng& r, const base_array<T>& h, const base_array<T>& x, const std::vector<T>& y, int bs, const base_array<T>* yd,
                const std::string& key, const std::string& key_vs, MK mk) {
    const int nh = h.size();
    const int L = 1 << ceil_log2(bs + nh - 1);   // transform length of one block
    const Stream<T> c(h, true), xs(x);
    const ld hn = c.norm2(0, nh);
    const int ny = y.size();
    std::vector<ld> bn;   // ||x_block||_2
    for (int b = 0; b * bs < ny; ++b) bn.push_back(xs.norm2(b * bs, (b + 1) * bs));
    std::vector<int> marks = {nh - 1, nh};
    for (int b = 1; b * bs <= ny; ++b) marks.push_back(b * bs), marks.push_back(b * bs + nh - 2);
    const auto idx = pick(r, ny, nh, marks, 400);
    const ld cf = 8 + ceil_log2(L);
    for (int i : idx) {
        typename Tr<T>::L v; ld S;
        ref_conv<T>(c, xs, i, v, S);
        const int b = i / bs;
        const ld xn = bn[b] + (b > 0 ? bn[b - 1] : 0);
        const ld N = hn * xn;
        const ld e = errL(v, y[i]);
        const ld bound = cf * EPS * N + 64 * L * DMIN * (1 + hn + xn);
        out.n_oracle++;
        if (N > 0) maxstat("fft_worst_err_over_eps_norms_x1000", (long long)(1000 * e / (EPS * N + DMIN)));
        if (!(e <= bound) || !finiteT(y[i])) { out.fail(key, mk("FftFilter", i, e, bound)); return false; }
        if (yd) {
            const ld e2 = errL(toL((*yd)[i]), y[i]);
            const ld bound2 = bound + (nh + 8) * EPS * S + (nh + 8) * DMIN;
            out.n_oracle++;
            if (!(e2 <= bound2)) { out.fail(key_vs, mk("FftFilter~FirFilter", i, e2, bound2)); return false; }
        }
    }
    return true;
}

// ------------------------------------------------------------------ FirFilter / FftFilter
template<class T>
void test_fir(uint64_t cs, int nh, int hk, int nx, int xk, int nf, bool emit, int stride) {
    vh::Rng r(cs);
    const char* tn = Tr<T>::nm();
    base_array<T> h = gen_h<T>(r, nh, hk);
    base_array<T> x = gen_x<T>(r, nx, xk, 2 * nh);
    scale_all(h, g_sc);
    scale_all(x, g_sx);
    const std::vector<int> lens = g_lens ? *g_lens : gen_cuts(r, nx, nf);
    const std::string cj0 = case_json("FirFilter", tn, nh, hk, nx, xk, lens, cs, -1, 0, 0);
    vh::set_current("C07:fir-crash", cj0);
    FirFilter<T> f(h);
    base_array<T> y(nx);
    std::string outs;
    int p = 0;
    bool lenok = true;
    for (int l : lens) {
        const base_array<T> yi = f.process(sub(x, p, l));
        if (yi.size() != l) { lenok = false; break; }
        for (int i = 0; i < l; ++i) y[p + i] = yi[i];
        if (emit) outs += (outs.empty() ? "" : " ") + dec_str(yi, stride);
        p += l;
    }
    vh::clear_current();
    out.stat(std::string("fir") + tn + "_cases");
    out.stat(std::string("coeff_") + HK[hk]);
    out.stat(std::string("input_") + XK[xk]);
    scale_stats("fir");
    out.stat(lens.size() > 1 ? "fir_multi_call" : "fir_single_call");
    out.stat(nx == 0 ? "nx_0" : nx < nh ? "nx_lt_nh" : nx <= 1000 ? "nx_le_1000" : nx <= 20000 ? "nx_le_20000" : "nx_gt_20000");
    out.stat(nh <= 8 ? "nh_2_8" : nh <= 64 ? "nh_9_64" : nh <= 256 ? "nh_65_256" : "nh_257_1024");
    if (!lenok) { out.fail("C07:fir-length", cj0); return; }
    if (emit) out.corr(std::string("fir") + tn + " " + std::to_string(stride) + " " + vh::hxs(h) + " " + frames_str(x, lens), outs.empty() ? "-" : outs);
    oracle_fir<T>(r, h, x, y, lens, std::string("C07:fir-sum-") + tn,
                  [&](int i, ld e, ld b) { return case_json("FirFilter", tn, nh, hk, nx, xk, lens, cs, i, e, b); });
    if (out.n_cases % 37 == 1) out.sample(cj0);
}

static arr_real run_fft(FftFilter& f, const arr_real& x) { return f.process(x); }
static arr_cmplx run_fft(FftFilter& f, const arr_cmplx& x) { return f.process(x); }

template<class T>
void test_fft(uint64_t cs, int nh, int hk, int nx, int xk, int nf, bool emit, int stride) {
    vh::Rng r(cs);
    const char* tn = Tr<T>::nm();
    base_array<T> h = gen_h<T>(r, nh, hk);
    const int bs0 = (1 << ceil_log2(2 * nh)) - nh + 1;
    base_array<T> x = gen_x<T>(r, nx, xk, bs0 + nh);
    scale_all(h, g_sc);
    scale_all(x, g_sx);
    const std::vector<int> lens = g_lens ? *g_lens : gen_cuts(r, nx, nf);
    const std::string cj0 = case_json("FftFilter", tn, nh, hk, nx, xk, lens, cs, -1, 0, 0);
    vh::set_current("C07:fftfilter-crash", cj0);
    FftFilter f(h);
    FirFilter<T> fd(h);
    const int bs = f.block_size();
    std::vector<T> y;
    std::string outs;
    int p = 0;
    bool lenok = bs >= 1;   // the block size itself is the implementation's choice (CORR compares it with the model's)
    for (int l : lens) {
        const base_array<T> yi = run_fft(f, sub(x, p, l));
        p += l;
        if (int(y.size()) + yi.size() != (p / bs) * bs) { lenok = false; break; }   // emits in multiples of the block size
        for (int i = 0; i < yi.size(); ++i) y.push_back(yi[i]);
        if (emit) outs += " " + dec_str(yi, stride);
    }
    const base_array<T> yd = fd.process(x);   // the direct filter on the same stream
    vh::clear_current();
    out.stat(std::string("fft") + tn + "_cases");
    out.stat(std::string("coeff_") + HK[hk]);
    out.stat(std::string("input_") + XK[xk]);
    scale_stats("fft");
    out.stat(lens.size() > 1 ? "fft_multi_call" : "fft_single_call");
    out.stat(y.empty() ? "fft_blocks_0" : int(y.size()) == bs ? "fft_blocks_1" : int(y.size()) <= 4 * bs ? "fft_blocks_2_4" : "fft_blocks_5plus");
    out.stat(nx % bs == 0 ? "fft_nx_multiple_of_block" : "fft_nx_partial_block");
    if (!lenok) { out.fail("C07:fftfilter-length", cj0); return; }
    // CORR line: block size, then the frames' outputs (the model runs the C01 model of the library's own plans, in the library's
    // operation order: the outputs are compared bit for bit, no scale token)
    if (emit) out.corr(std::string("fft") + tn + " " + std::to_string(stride) + " " + vh::hxs(h) + " " + frames_str(x, lens),
                       std::to_string(bs) + outs);
    // oracle: defining sum (normwise bound over the blocks that feed output i) + equality with the direct filter
    oracle_fft<T>(r, h, x, y, bs, &yd, std::string("C07:fftfilter-sum-") + tn, std::string("C07:fftfilter-vs-fir-") + tn,
                  [&](const char* op, int i, ld e, ld b) { return case_json(op, tn, nh, hk, nx, xk, lens, cs, i, e, b); });
    if (out.n_cases % 37 == 2) out.sample(cj0);
}

// ------------------------------------------------------------------ xcorr
template<class T>
void test_xcorr(uint64_t cs, int n1, int n2, int ak, int bk, bool emit, bool autoc) {
    vh::Rng r(cs);
    const char* tn = Tr<T>::nm();
    base_array<T> a = gen_x<T>(r, n1, ak, std::max(1, n1 / 8));
    scale_all(a, g_sc);
    base_array<T> b = a;
    if (!autoc) { b = gen_x<T>(r, n2, bk, std::max(1, n2 / 8)); scale_all(b, g_sx); }
    if (autoc) n2 = n1;
    std::ostringstream o;
    o << "{\"op\":\"" << (autoc ? "xcorr(x)" : "xcorr(a,b)") << "\",\"type\":\"" << tn << "\",\"n1\":" << n1 << ",\"n2\":" << n2 << ",\"a_kind\":\"" << XK[ak]
      << "\",\"b_kind\":\"" << XK[bk] << "\",\"a_scale\":" << vh::jnum(g_sc) << ",\"b_scale\":" << vh::jnum(autoc ? g_sc : g_sx) << ",\"case_seed\":" << cs;
    const std::string cj0 = o.str();
    vh::set_current("C07:xcorr-crash", cj0 + "}");
    const base_array<T> z = autoc ? xcorr(a) : xcorr(a, b);
    vh::clear_current();
    out.stat(std::string("xcorr") + tn + "_cases");
    out.stat(n1 == n2 ? "xcorr_n1_eq_n2" : n1 < n2 ? "xcorr_n1_lt_n2" : "xcorr_n1_gt_n2");
    scale_stats("xcorr");
    if (z.size() != n1 + n2 - 1) { out.fail("C07:xcorr-length", cj0 + "}"); return; }
    if (emit) out.corr(std::string("xc") + tn + " " + vh::hxs(a) + " " + vh::hxs(b), vh::hxs(z));
    const Stream<T> as(a), bs(b, true);
    const int M = 1 << ceil_log2(n1 + n2 - 1);
    const ld na = as.norm2(0, n1), nb = bs.norm2(0, n2);
    const ld N = na * nb;
    const ld cf = 8 + ceil_log2(M);
    vh::Rng r2(cs ^ 0x5555);
    const auto idx = pick(r2, n1 + n2 - 1, std::min(n1, n2), {n2 - 1, n1 - 1}, 600);
    for (int j : idx) {
        const int lag = j - (n2 - 1);
        typename Tr<T>::L v = zeroL(typename Tr<T>::L());
        for (int n = std::max(0, -lag); n < n2 && n + lag < n1; ++n) accL(v, mulL(as.v[n + lag], bs.v[n]));
        const ld e = errL(v, z[j]);
        const ld bound = cf * EPS * N + 64 * M * DMIN * (1 + na + nb);
        out.n_oracle++;
        if (N > 0) maxstat("xcorr_worst_err_over_eps_norms_x1000", (long long)(1000 * e / (EPS * N + DMIN)));
        if (!(e <= bound) || !finiteT(z[j])) {
            std::ostringstream q;
            q << cj0 << ",\"index\":" << j << ",\"lag\":" << lag << ",\"error\":" << vh::jnum((double)e) << ",\"bound\":" << vh::jnum((double)bound) << "}";
            out.fail(std::string("C07:xcorr-sum-") + tn, q.str());
            break;
        }
    }
    if (out.n_cases % 211 == 3) out.sample(cj0 + "}");
}

// ------------------------------------------------------------------ MAFilter
template<class T>
void test_ma(uint64_t cs, int n, int nx, int xk, int nf, bool emit, bool scalar_api) {
    vh::Rng r(cs);
    const char* tn = Tr<T>::nm();
    base_array<T> x = gen_x<T>(r, nx, xk, 2 * n);
    scale_all(x, g_sx);
    const std::vector<int> lens = g_lens ? *g_lens : gen_cuts(r, nx, nf);
    const std::string cj0 = case_json("MAFilter", tn, n, -1, nx, xk, lens, cs, -1, 0, 0);
    vh::set_current("C07:ma-crash", cj0);
    MAFilter<T> m(n);
    base_array<T> taps(n);
    for (int i = 0; i < n; ++i) taps[i] = T(1.0 / n);
    base_array<T> y(nx);
    std::string outs;
    int p = 0;
    bool lenok = true;
    for (int l : lens) {
        base_array<T> yi(l);
        if (scalar_api) { for (int i = 0; i < l; ++i) yi[i] = m.process(x[p + i]); }
        else yi = m.process(sub(x, p, l));
        if (yi.size() != l) { lenok = false; break; }
        for (int i = 0; i < l; ++i) y[p + i] = yi[i];
        if (emit) outs += (outs.empty() ? "" : " ") + vh::hxs(yi);
        p += l;
    }
    base_array<T> yf(nx);
    { FirFilter<T> f(taps); yf = f.process(x); }   // incl. n = 1: a one-tap FirFilter (no history)
    vh::clear_current();
    out.stat(std::string("ma") + tn + "_cases");
    out.stat(std::string("input_") + XK[xk]);
    scale_stats("ma");
    if (!lenok) { out.fail("C07:ma-length", cj0); return; }
    if (emit) out.corr(std::string("ma") + tn + " " + std::to_string(n) + " " + frames_str(x, lens), outs.empty() ? "-" : outs);
    const Stream<T> xs(x);
    std::vector<int> marks;
    for (int q = 1; q * n <= nx && q < 40; ++q) marks.push_back(q * n);
    const auto idx = pick(r, nx, 2 * n, marks, 400);
    for (int t : idx) {
        typename Tr<T>::L v = zeroL(typename Tr<T>::L());
        ld S2 = 0, S1 = 0;
        for (int j = 0; j < 2 * n && j <= t; ++j) {
            if (j < n) { accL(v, xs.v[t - j]); S1 += xs.a[t - j]; }
            S2 += xs.a[t - j];
        }
        v = divL(v, (ld)n);
        const ld e = errL(v, y[t]);
        const ld bound = (1.5L * n + 4) * EPS * S2 / n + (2 * n + 8) * DMIN;
        out.n_oracle++;
        if (S2 > 0) maxstat("ma_worst_err_over_eps_sumabs2n_x1000", (long long)(1000 * e * n / (EPS * S2 + DMIN)));
        if (!(e <= bound) || !finiteT(y[t])) { out.fail(std::string("C07:ma-sum-") + tn, case_json("MAFilter", tn, n, -1, nx, xk, lens, cs, t, e, bound)); break; }
        {   // the library's own FIR filter with n taps 1/n
            const ld e2 = errL(toL(yf[t]), y[t]);
            const ld bound2 = bound + (n + 8) * EPS * S1 / n + (n + 8) * DMIN;
            out.n_oracle++;
            if (!(e2 <= bound2)) { out.fail(std::string("C07:ma-vs-fir-") + tn, case_json("MAFilter~FirFilter", tn, n, -1, nx, xk, lens, cs, t, e2, bound2)); break; }
        }
    }
    if (out.n_cases % 37 == 4) out.sample(cj0);
}

// ------------------------------------------------------------------ object lifetime: copies of stateful filters
// A processor object copied from another one (from a fresh prototype, or mid-stream) is "started from" the copied state:
// from then on it must emit exactly what a separately constructed object emits on (history of the source up to the copy) ++
// (its own stream), whatever its siblings are fed meanwhile; the source must be unaffected by what the copies process.
template<class T> struct PFir {
    using Obj = FirFilter<T>;
    static const char* nm() { return "fir"; }
    static const char* cls() { return "FirFilter"; }
    static Obj make(const base_array<T>& h) { return Obj(h); }
    static base_array<T> run(Obj& o, const base_array<T>& x) { return o.process(x); }
    static std::string head(const base_array<T>& h) { return std::string("fir") + Tr<T>::nm() + " 1 " + vh::hxs(h); }
};
template<class T> struct PFft {
    using Obj = FftFilter;
    static const char* nm() { return "fftfilter"; }
    static const char* cls() { return "FftFilter"; }
    static Obj make(const base_array<T>& h) { return Obj(h); }
    static base_array<T> run(Obj& o, const base_array<T>& x) { return run_fft(o, x); }
    static std::string head(const base_array<T>& h) { return std::string("fft") + Tr<T>::nm() + " 1 " + vh::hxs(h); }
};
template<class T> struct PMa {   // `h` only carries the length n
    using Obj = MAFilter<T>;
    static const char* nm() { return "ma"; }
    static const char* cls() { return "MAFilter"; }
    static Obj make(const base_array<T>& h) { return Obj(h.size()); }
    static base_array<T> run(Obj& o, const base_array<T>& x) { return o.process(x); }
    static std::string head(const base_array<T>& h) { return std::string("ma") + Tr<T>::nm() + " " + std::to_string(h.size()); }
};
template<class T> static bool same_bits(const std::vector<T>& a, const std::vector<T>& b) {
    return a.size() == b.size() && (a.empty() || std::memcmp(a.data(), b.data(), a.size() * sizeof(T)) == 0);
}
template<class T> static void append(std::vector<T>& v, const base_array<T>& a) { for (int i = 0; i < a.size(); ++i) v.push_back(a[i]); }
template<class T> static base_array<T> to_arr(const std::vector<T>& v) { base_array<T> a(int(v.size())); for (size_t i = 0; i < v.size(); ++i) a[int(i)] = v[i]; return a; }

// one channel of a copy scenario: the object, the stream it sees (history of its source included) and what it emitted
template<class P, class T> struct Chan {
    typename P::Obj obj;
    std::vector<T> in, outv;       // whole logical stream / concatenated output
    std::vector<int> lens;         // framing of the logical stream (history frames first)
    std::vector<std::string> fouts;   // per-frame output tokens (CORR)
    const char* how;
    Chan(const typename P::Obj& o, const char* how_) : obj(o), how(how_) {}
    void feed(const base_array<T>& fr) {
        const base_array<T> y = P::run(obj, fr);
        append(in, fr); append(outv, y);
        lens.push_back(fr.size());
        fouts.push_back(vh::hxs(y));
    }
    // adopt the history of the channel this one was copied from
    void inherit(const Chan& src) { in = src.in; outv = src.outv; lens = src.lens; fouts = src.fouts; }
};

template<class P, class T>
void test_copy(uint64_t cs, int nh, int hk, int xk, bool midstream, bool emit) {
    vh::Rng r(cs);
    const char* tn = Tr<T>::nm();
    const bool isfft = std::string(P::nm()) == "fftfilter", isma = std::string(P::nm()) == "ma";
    base_array<T> h = gen_h<T>(r, nh, isma ? 0 : hk);
    scale_all(h, g_sc);
    const int bs = isfft ? (1 << ceil_log2(2 * nh)) - nh + 1 : isma ? nh : std::max(1, nh - 1);   // the memory of the processor
    auto frame = [&]() {   // frames that are NOT aligned with the internal block / history
        const int c = r.range(0, 5);
        const int n = c == 0 ? r.range(0, 3) : c == 1 ? bs : c == 2 ? bs + r.range(1, 3) : r.range(1, 2 * bs + 1);
        base_array<T> x = gen_x<T>(r, n, r.coin() ? 0 : xk, bs);
        scale_all(x, g_sx);
        return x;
    };
    std::ostringstream o;
    o << "{\"op\":\"" << P::cls() << " copies\",\"type\":\"" << tn << "\",\"nh\":" << nh << ",\"coeff_kind\":\"" << HK[isma ? 0 : hk] << "\",\"input_kind\":\"" << XK[xk]
      << "\",\"coeff_scale\":" << vh::jnum(g_sc) << ",\"input_scale\":" << vh::jnum(g_sx) << ",\"scenario\":\"" << (midstream ? "copy mid-stream" : "bank from a fresh prototype")
      << "\",\"case_seed\":" << cs;
    const std::string cj0 = o.str();
    const std::string keyb = std::string("C07:") + P::nm() + "-copy-" + tn;
    vh::set_current(keyb, cj0 + "}");
    std::vector<Chan<P, T>> ch;
    ch.reserve(8);
    typename P::Obj proto = P::make(h);
    if (!midstream) {
        // std::vector<P>(n, proto): a filter bank; the prototype itself stays in use as one more channel
        std::vector<typename P::Obj> bank(3, proto);
        ch.emplace_back(proto, "prototype");
        for (int i = 0; i < 3; ++i) ch.emplace_back(bank[i], "vector(n, proto) element");
    } else {
        ch.emplace_back(proto, "original");
        const int npre = r.range(1, 4);
        for (int i = 0; i < npre; ++i) ch[0].feed(frame());
        // copy-construction mid-stream
        ch.emplace_back(ch[0].obj, "copy-constructed mid-stream");
        ch[1].inherit(ch[0]);
        // copy-assignment over an object with other coefficients and its own history
        base_array<T> h2 = gen_h<T>(r, std::max(2, nh / 2 + 1), 0);
        ch.emplace_back(P::make(h2), "copy-assigned mid-stream");
        ch[2].feed(frame());
        ch[2].obj = ch[0].obj;
        ch[2].inherit(ch[0]);
        // a copy that processes other data and is destroyed
        { typename P::Obj tmp = ch[0].obj; P::run(tmp, frame()); P::run(tmp, frame()); }
        // a copy taken through pass-by-value and moved
        auto byval = [](typename P::Obj q) { return q; };
        ch.emplace_back(byval(ch[0].obj), "passed by value and moved");
        ch[3].inherit(ch[0]);
    }
    // interleaved use
    const int ncalls = r.range(6, 14);
    for (int c = 0; c < ncalls; ++c) {
        const int i = c < int(ch.size()) ? c : r.range(0, int(ch.size()) - 1);
        ch[i].feed(frame());
        if (midstream && c == 3) { auto& alias = ch[1].obj; ch[1].obj = alias; }   // self-assignment
    }
    vh::clear_current();
    out.stat(std::string("copy_") + P::nm() + tn + (midstream ? "_midstream" : "_bank"));
    scale_stats("copy");
    // every channel against a separately constructed object on its logical stream, bit for bit, and against the defining sum
    for (size_t i = 0; i < ch.size(); ++i) {
        auto& c = ch[i];
        typename P::Obj solo = P::make(h);
        std::vector<T> ys;
        int p = 0;
        const base_array<T> xin = to_arr(c.in);
        for (int l : c.lens) { append(ys, P::run(solo, sub(xin, p, l))); p += l; }
        out.n_oracle++;
        auto wit = [&](const char* what, int idx, ld e, ld b) {
            std::ostringstream q;
            q << cj0 << ",\"channel\":" << i << ",\"channel_is\":\"" << c.how << "\",\"frames\":" << vh::jints(c.lens) << ",\"what\":\"" << what << "\",\"len_got\":" << c.outv.size()
              << ",\"len_expected\":" << ys.size() << ",\"index\":" << idx << ",\"error\":" << vh::jnum((double)e) << ",\"bound\":" << vh::jnum((double)b) << "}";
            return q.str();
        };
        if (!same_bits(c.outv, ys)) {
            int d = 0;
            while (d < int(std::min(c.outv.size(), ys.size())) && std::memcmp(&c.outv[d], &ys[d], sizeof(T)) == 0) ++d;
            out.fail(keyb, wit("differs from a separately constructed filter on the same stream", d, 0, 0));
            continue;
        }
        vh::Rng r2(cs + i);
        if (isfft) {
            if (int(c.outv.size()) != int(c.in.size()) / bs * bs) { out.fail(keyb, wit("output length", -1, 0, 0)); continue; }
            oracle_fft<T>(r2, h, xin, c.outv, bs, nullptr, keyb, keyb, [&](const char*, int idx, ld e, ld b) { return wit("defining sum", idx, e, b); });
        } else if (!isma) {
            oracle_fir<T>(r2, h, xin, to_arr(c.outv), c.lens, keyb, [&](int idx, ld e, ld b) { return wit("defining sum", idx, e, b); });
        }
        // the model continues the copied state with the copy's own frames
        if (emit && (i == 1 || (i == 0 && midstream))) {
            std::string lhs = P::head(h) + " " + std::to_string(c.lens.size()), rhs = isfft ? std::to_string(bs) : "";
            p = 0;
            for (size_t k = 0; k < c.lens.size(); ++k) {
                lhs += " " + vh::hxs(sub(xin, p, c.lens[k]));
                rhs += (rhs.empty() ? "" : " ") + c.fouts[k];
                p += c.lens[k];
            }
            out.corr(lhs, rhs.empty() ? "-" : rhs);
        }
    }
    // temporaries: a filter built from a temporary coefficient vector, called on a temporary frame, result bound to const&
    {
        const base_array<T> x = frame();
        typename P::Obj named = P::make(h);
        const base_array<T> yn = P::run(named, x);
        typename P::Obj tobj = P::make(base_array<T>(h));
        const base_array<T>& yt = P::run(tobj, base_array<T>(x));
        std::vector<T> a1, a2;
        append(a1, yn); append(a2, yt);
        out.n_oracle++;
        if (!same_bits(a1, a2)) out.fail(std::string("C07:") + P::nm() + "-temporaries-" + tn, cj0 + "}");
    }
    if (out.n_cases % 37 == 5) out.sample(cj0 + "}");
}

// ------------------------------------------------------------------ main
int main(int argc, char** argv) {
    vh::Args a(argc, argv);
    vh::install_guards();
    vh::Rng rng(a.seed * 0x9e3779b97f4a7c15ULL + 7);
    const bool TH = a.thorough;
    vh::watch(TH ? 3000 : 600);

    // special input lengths relative to the tap count nh and the FFT block size bs
    auto special_nx = [&](int nh, int bs, int j) -> int {
        const int sp[] = {0, 1, 2, nh - 1, nh, nh + 1, bs - 1, bs, bs + 1, 2 * bs, 3 * bs + 1, 2 * bs - 1};
        return sp[j % 12];
    };

    // ---- FirFilter / FftFilter: tap counts
    std::vector<int> nhs;
    if (TH) for (int nh = 1; nh <= 1024; ++nh) nhs.push_back(nh);   // 1 tap: a pure gain (no history; once threw on every call, repaired in /repo)
    else {
        const int q[] = {1, 2, 3, 4, 5, 7, 8, 9, 16, 17, 31, 32, 33, 64, 100, 129, 255, 256, 257, 511, 512, 513, 1000, 1023, 1024};
        for (int v : q) nhs.push_back(v);
        for (int j = 0; j < 24; ++j) nhs.push_back(rng.range(2, 1024));
    }
    int cnt = 0;
    for (int nh : nhs) {
        const int bs = (1 << ceil_log2(2 * nh)) - nh + 1;
        const int reps = TH ? 2 : 4;
        for (int rep = 0; rep < reps; ++rep, ++cnt) {
            for (int cplx = 0; cplx < 2; ++cplx) {
                const int hk = (cnt + cplx + int(a.seed)) % NHK;
                const int xk = (cnt / NHK + 2 * cplx + rep) % NXK;
                int nx = (rep == 0) ? special_nx(nh, bs, cnt + int(a.seed)) : rng.range(0, std::min(4 * bs + 7, TH ? 6000 : 5000));
                if (xk == 5 && nx == 0) nx = nh + 3;
                const int nf = (cnt % 3 == 0) ? 1 : rng.range(2, 5);
                // correspondence with the Lean model: a subset with bounded model work
                const bool small = (long long)nh * nx <= (TH ? 1500000 : 400000);
                const bool emit = small && (TH ? (cnt % 12 == int(a.seed % 12)) || nh <= 12 : (nh <= 64 || cnt % 3 == 0));
                const uint64_t cs = rng.next();
                if (cplx) { test_fir<cmplx_t>(cs, nh, hk, nx, xk, nf, emit, 1); test_fft<cmplx_t>(cs + 1, nh, hk, nx, xk, nf, emit, 1); }
                else { test_fir<real_t>(cs, nh, hk, nx, xk, nf, emit, 1); test_fft<real_t>(cs + 1, nh, hk, nx, xk, nf, emit, 1); }
            }
        }
    }
    // ---- long inputs (to 1e5), every input kind, sampled oracle indices; a few go through CORR with strided outputs
    {
        const int big_nh[] = {2, 5, 33, 128, 400, 1024};
        const int nbig = TH ? 36 : 6;
        for (int j = 0; j < nbig; ++j) {
            const int nh = big_nh[j % 6];
            const int nx = (j % 4 == 0) ? 100000 : rng.range(20000, 100000);
            const int hk = (j + int(a.seed)) % NHK, xk = (j / 2) % NXK;
            const int nf = (j % 2) ? rng.range(2, 6) : 1;
            const bool emit = nh <= 33 && (TH ? j < 4 : j < 2);
            const uint64_t cs = rng.next();
            if (j % 2) { test_fir<cmplx_t>(cs, nh, hk, nx, xk, nf, emit, 97); test_fft<cmplx_t>(cs + 1, nh, hk, nx, xk, nf, emit, 97); }
            else { test_fir<real_t>(cs, nh, hk, nx, xk, nf, emit, 97); test_fft<real_t>(cs + 1, nh, hk, nx, xk, nf, emit, 97); }
        }
    }
    // ---- xcorr: all (n1,n2) in the box, both types; sampled pairs to 5000
    {
        const int B = TH ? 48 : 16;
        int c = int(a.seed);
        for (int n1 = 1; n1 <= B; ++n1)
            for (int n2 = 1; n2 <= B; ++n2, ++c) {
                const bool emit = TH ? (n1 <= 12 && n2 <= 12) || (c % 11 == 0) : (n1 <= 8 && n2 <= 8) || (c % 7 == 0);
                test_xcorr<real_t>(rng.next(), n1, n2, c % NXK, (c / NXK) % NXK, emit, false);
                test_xcorr<cmplx_t>(rng.next(), n1, n2, (c + 1) % NXK, (c / NXK + 2) % NXK, emit, false);
            }
        for (int n1 = 1; n1 <= B; ++n1, ++c) {
            test_xcorr<real_t>(rng.next(), n1, n1, c % NXK, 0, n1 <= 8, true);
            test_xcorr<cmplx_t>(rng.next(), n1, n1, (c + 3) % NXK, 0, n1 <= 8, true);
        }
        const int ns = TH ? 60 : 10;
        for (int j = 0; j < ns; ++j, ++c) {
            int n1 = rng.range(1, 5000), n2 = rng.range(1, 5000);
            if (j % 5 == 0) n2 = rng.range(1, 48);
            if (j % 5 == 1) n1 = rng.range(1, 48);
            if (j == 2) { n1 = 5000; n2 = 5000; }
            if (j == 3) { n1 = 4096; n2 = 1; }
            if (j == 4) { n1 = 2049; n2 = 2048; }
            const bool emit = (long long)n1 + n2 <= 2500 || j == 2;
            if (j % 2) test_xcorr<cmplx_t>(rng.next(), n1, n2, c % NXK, (c / 2) % NXK, emit, false);
            else test_xcorr<real_t>(rng.next(), n1, n2, c % NXK, (c / 2) % NXK, emit, false);
        }
    }
    // ---- MAFilter
    {
        std::vector<int> ns = {1, 2, 3, 4, 5, 7, 8, 16, 33, 100, 128, 1000};
        if (TH) for (int j = 0; j < 40; ++j) ns.push_back(rng.range(1, 1024));
        int c = int(a.seed);
        for (int n : ns)
            for (int rep = 0; rep < (TH ? 6 : 3); ++rep, ++c) {
                int nx = rep == 0 ? 3 * n + 1 : rep == 1 ? rng.range(0, 2 * n) : rng.range(0, TH ? 20000 : 4000);
                if (TH && rep == 5 && n <= 128) nx = 100000;
                const int xk = (c % 9 == 8) ? 5 : c % NXK;
                const int nf = (c % 2) ? rng.range(2, 5) : 1;
                const bool emit = (long long)nx <= 3000;
                if (c % 2) test_ma<cmplx_t>(rng.next(), n, nx, xk, nf, emit, rep == 2);
                else test_ma<real_t>(rng.next(), n, nx, xk, nf, emit, rep == 2);
                if (rep == 0) {   // the other type too at the boundary length
                    if (c % 2) test_ma<real_t>(rng.next(), n, nx, xk, nf, emit, false);
                    else test_ma<cmplx_t>(rng.next(), n, nx, xk, nf, emit, false);
                }
            }
    }
    // ---- absolute scale classes of the coefficients and of the inputs (the oracle is relative): every pair of classes whose
    //      product stays inside the double range, every coefficient / input kind in rotation, both types, direct and FFT filter
    {
        const int nhq[] = {2, 3, 8, 17, 64, 100, 300};
        int c = int(a.seed);
        for (int rep = 0; rep < (TH ? 6 : 1); ++rep)
            for (int i = 0; i < NSC; ++i)
                for (int j = 0; j < NSC; ++j, ++c) {
                    const double sc = SCALES[i], sx = SCALES[j];
                    const double lg = std::log10(sc) + std::log10(sx);
                    if (lg < -300.5 || lg > 250 || (i == 4 && j == 4)) continue;
                    ScaleScope sg(sc, sx);
                    const int nh = TH ? (rep < 5 ? nhq[(c + rep) % 7] : rng.range(2, 1024)) : nhq[c % 5];
                    const int bs = (1 << ceil_log2(2 * nh)) - nh + 1;
                    const int hk = c % NHK, xk = (c / NHK + rep) % NXK;
                    const int nx = std::max(nh + 3, rng.range(1, 3 * bs + 5));
                    const int nf = (c % 3 == 0) ? 1 : rng.range(2, 4);
                    const bool emit = (long long)nh * nx <= 200000 && (TH ? rep == 0 : true);
                    const uint64_t cs = rng.next();
                    if ((c + rep) % 2) { test_fir<cmplx_t>(cs, nh, hk, nx, xk, nf, emit, 1); test_fft<cmplx_t>(cs + 1, nh, hk, nx, xk, nf, emit, 1); }
                    else { test_fir<real_t>(cs, nh, hk, nx, xk, nf, emit, 1); test_fft<real_t>(cs + 1, nh, hk, nx, xk, nf, emit, 1); }
                    if (TH || c % 2) {   // the other type, dense coefficients, plain inputs: the whole vector lives at the class scale
                        const uint64_t cs2 = rng.next();
                        if ((c + rep) % 2) { test_fir<real_t>(cs2, nh, c % 2, nx, 0, 1, false, 1); test_fft<real_t>(cs2 + 1, nh, c % 2, nx, 0, 1, false, 1); }
                        else { test_fir<cmplx_t>(cs2, nh, c % 2, nx, 0, 1, false, 1); test_fft<cmplx_t>(cs2 + 1, nh, c % 2, nx, 0, 1, false, 1); }
                    }
                    // xcorr operands and the moving average's input at the same classes
                    const int n1 = rng.range(1, TH ? 300 : 60), n2 = rng.range(1, TH ? 300 : 60);
                    if (c % 2) test_xcorr<cmplx_t>(rng.next(), n1, n2, c % NXK, (c / 3) % NXK, n1 + n2 <= 64, false);
                    else test_xcorr<real_t>(rng.next(), n1, n2, c % NXK, (c / 3) % NXK, n1 + n2 <= 64, false);
                    if (i == 4 || TH) {
                        const int n = (c % 4 == 0) ? 1 : rng.range(2, TH ? 200 : 40);
                        if (c % 2) test_ma<real_t>(rng.next(), n, rng.range(0, 6 * n + 3), c % NXK, 1 + c % 3, true, c % 5 == 0);
                        else test_ma<cmplx_t>(rng.next(), n, rng.range(0, 6 * n + 3), c % NXK, 1 + c % 3, true, c % 5 == 0);
                        if (c % 8 < 2) { if (c % 2) test_xcorr<real_t>(rng.next(), n1, n1, c % NXK, 0, n1 <= 32, true); else test_xcorr<cmplx_t>(rng.next(), n1, n1, c % NXK, 0, n1 <= 32, true); }
                    }
                }
        // tiny NON-ZERO taps next to O(1) taps / special values, seen through impulsive inputs (componentwise oracle of the direct path)
        const int nt = TH ? 240 : 24;
        for (int j = 0; j < nt; ++j, ++c) {
            const int nh = (j % 3 == 0) ? nhq[j % 7] : rng.range(2, TH ? 400 : 80);
            const int hk = 5 + j % 2, xk = (j % 4 == 0) ? 5 : (j % 4 == 1) ? 1 : (j % 4 == 2) ? 6 : 7;
            const int nx = nh + rng.range(1, 3 * nh + 40);
            const uint64_t cs = rng.next();
            const bool emit = (long long)nh * nx <= 100000 && (!TH || j % 4 == 0);
            if (j % 2) { test_fir<cmplx_t>(cs, nh, hk, nx, xk, 1 + j % 3, emit, 1); test_fft<cmplx_t>(cs + 1, nh, hk, nx, xk, 1 + j % 3, emit, 1); }
            else { test_fir<real_t>(cs, nh, hk, nx, xk, 1 + j % 3, emit, 1); test_fft<real_t>(cs + 1, nh, hk, nx, xk, 1 + j % 3, emit, 1); }
        }
    }
    // ---- object lifetime: banks copied from a fresh prototype, copies made mid-stream (construction, assignment, by value, destroyed)
    {
        const int nhq[] = {2, 3, 5, 16, 33, 100, 257};
        const int ncp = TH ? 60 : 6;
        int c = int(a.seed);
        for (int j = 0; j < ncp; ++j)
            for (int mid = 0; mid < 2; ++mid, ++c) {
                const int nh = j < 7 ? nhq[(j + int(a.seed)) % 7] : rng.range(2, 400);
                const int hk = c % NHK, xk = c % NXK;
                const bool emit = nh <= 40 || (c % 4 == 0 && nh <= 128);
                // one in four at a non-unit scale class
                const double sc = (c % 4 == 3) ? SCALES[(c / 4) % NSC] : 1.0, sx = (c % 4 == 3 && sc < 1e50) ? SCALES[4 + (c / 4) % 3] : 1.0;
                ScaleScope sg(sc, sx);
                test_copy<PFir<real_t>, real_t>(rng.next(), nh, hk, xk, mid, emit);
                test_copy<PFir<cmplx_t>, cmplx_t>(rng.next(), nh, hk, xk, mid, emit);
                test_copy<PFft<real_t>, real_t>(rng.next(), nh, hk, xk, mid, emit);
                test_copy<PFft<cmplx_t>, cmplx_t>(rng.next(), nh, hk, xk, mid, emit);
                test_copy<PMa<real_t>, real_t>(rng.next(), (j % 3 == 0) ? 1 + j % 2 : nh, hk, xk, mid, emit);
                test_copy<PMa<cmplx_t>, cmplx_t>(rng.next(), (j % 3 == 1) ? 1 : nh, hk, xk, mid, emit);
            }
    }
    // ---- large single calls after smaller ones: frames of 20000, 70000 and 140000 samples (above 2^14, 2^16, 2^17), frames that are
    //      exact multiples of 2^16 and of 49152, each arriving after shorter frames on the same object
    {
        std::vector<std::vector<int>> pats = {{137, 20000, 1, 70000, 513, 140000, 7}};
        if (TH) {
            pats.push_back({5000, 30000, 25000});
            pats.push_back({100, 20000, 39900});
            pats.push_back({1, 16385, 32769, 65537, 131073});
            pats.push_back({64, 65536, 3, 131072, 65536});
            pats.push_back({1000, 49152, 98304, 5, 147456});
            pats.push_back({140000, 70000, 20000, 33});
            pats.push_back({3, 16384, 16385, 2, 140000});
        }
        const int big_nh[] = {33, 5, 128, 2, 400, 1024};
        int c = int(a.seed);
        for (size_t pi = 0; pi < pats.size(); ++pi) {
            g_lens = &pats[pi];
            const int nx = std::accumulate(pats[pi].begin(), pats[pi].end(), 0);
            const int nrep = TH ? 3 : 2;
            for (int rep = 0; rep < nrep; ++rep, ++c) {
                const int nh = big_nh[(c + int(pi)) % (TH ? 6 : 4)];
                const int hk = c % 5, xk = (c % 3 == 0) ? 6 : c % NXK == 5 ? 0 : c % NXK;
                const bool emit = pi == 0 && rep == 0 && nh <= 33;
                const uint64_t cs = rng.next();
                if (c % 2) { test_fir<cmplx_t>(cs, nh, hk, nx, xk, 0, emit, 97); test_fft<cmplx_t>(cs + 1, nh, hk, nx, xk, 0, false, 97); }
                else { test_fir<real_t>(cs, nh, hk, nx, xk, 0, false, 97); test_fft<real_t>(cs + 1, nh, hk, nx, xk, 0, emit, 97); }
                const int n = (c % 3 == 0) ? 1000 : rng.range(1, 300);
                if (c % 2) test_ma<real_t>(rng.next(), n, nx, xk, 0, false, false);
                else test_ma<cmplx_t>(rng.next(), n, nx, xk, 0, false, false);
                out.stat("large_frame_cases");
            }
            g_lens = nullptr;
        }
    }
    vh::unwatch();
    out.finish();
    return 0;
}
