// C07 — FIR filtering and correlation equal their defining sums.
//   FirFilter<T>, FftFilter (real and complex), xcorr, MAFilter<T> on the real library.
//   ORACLE: long-double evaluation of the defining sums
//      y[i]   = sum_k conj(c[k]) * x[i-k]                    (from rest; conj = id for real)
//      r[j]   = sum_n a[n+lag] * conj(b[n]),  lag = j-(len(b)-1)
//      ma[t]  = (sum_{j<n} x[t-j]) / n  = FIR with n taps 1/n
//   with the a-priori rounding bound of the algorithm class:
//      direct paths (FirFilter):  |err_i| <= (nh+8) * eps * sum_k |c[k]||x[i-k]|          (componentwise)
//      FFT paths (FftFilter, xcorr): |err_i| <= (8+log2 N) * eps * ||c||_2 * ||x_block||_2 (normwise: an
//         FFT convolution has no componentwise bound; the block(s) feeding output i are used)
//      MAFilter (running sum, re-summed every n samples): |err_t| <= (1.5n+4) * eps * sum_{j<2n}|x[t-j]| / n
//   CORR: the same calls are replayed by the Lean model (`Model/Fir.lean`) through `dspdriver_c07`.
#include "common.hpp"
#include "ma-filter.h"
#include <algorithm>
#include <set>
using namespace dsplib;
typedef long double ld;
static vh::Out out;
static const ld EPS = 2.220446049250313e-16L;

// ------------------------------------------------------------------ long-double scalars
struct CL {
    ld re, im;
};
static inline ld toL(real_t v) { return v; }
static inline CL toL(cmplx_t v) { return CL{v.re, v.im}; }
static inline ld cjL(ld v) { return v; }
static inline CL cjL(CL v) { return CL{v.re, -v.im}; }
static inline ld mulL(ld a, ld b) { return a * b; }
static inline CL mulL(CL a, CL b) { return CL{a.re * b.re - a.im * b.im, a.re * b.im + a.im * b.re}; }
static inline void accL(ld& a, ld b) { a += b; }
static inline void accL(CL& a, CL b) { a.re += b.re; a.im += b.im; }
static inline ld magL(ld v) { return fabsl(v); }
static inline ld magL(CL v) { return hypotl(v.re, v.im); }
static inline ld errL(ld ref, real_t got) { return fabsl(ref - (ld)got); }
static inline ld errL(CL ref, cmplx_t got) { return hypotl(ref.re - (ld)got.re, ref.im - (ld)got.im); }
static inline ld divL(ld a, ld n) { return a / n; }
static inline CL divL(CL a, ld n) { return CL{a.re / n, a.im / n}; }
static inline bool finiteT(real_t v) { return std::isfinite(v); }
static inline bool finiteT(cmplx_t v) { return std::isfinite(v.re) && std::isfinite(v.im); }
template<class T> struct Tr;
template<> struct Tr<real_t> { using L = ld; static const char* nm() { return "R"; } };
template<> struct Tr<cmplx_t> { using L = CL; static const char* nm() { return "C"; } };
static inline ld zeroL(ld) { return 0; }
static inline CL zeroL(CL) { return CL{0, 0}; }

static int ceil_log2(int m) { int p = 0; while ((1L << p) < m) ++p; return p; }

// ------------------------------------------------------------------ generators
static void rnd(vh::Rng& r, real_t& v) { v = r.gauss(); }
static void rnd(vh::Rng& r, cmplx_t& v) { v.re = r.gauss(); v.im = r.gauss(); }
static void scale(real_t& v, double s) { v *= s; }
static void scale(cmplx_t& v, double s) { v.re *= s; v.im *= s; }

static const char* HK[] = {"random", "symmetric", "sparse", "single-first", "single-last"};
static const int NHK = 5;
template<class T> base_array<T> gen_h(vh::Rng& r, int nh, int kind) {
    base_array<T> h(nh);
    for (int i = 0; i < nh; ++i) h[i] = T(0);
    switch (kind) {
    case 0: for (int i = 0; i < nh; ++i) rnd(r, h[i]); break;
    case 1: for (int i = 0; i < (nh + 1) / 2; ++i) { rnd(r, h[i]); h[nh - 1 - i] = h[i]; } break;
    case 2: {
        int nz = std::max(1, nh / 10);
        for (int j = 0; j < nz; ++j) rnd(r, h[r.range(0, nh - 1)]);
        break;
    }
    case 3: rnd(r, h[0]); break;
    case 4: rnd(r, h[nh - 1]); break;
    }
    return h;
}

static const char* XK[] = {"gauss", "impulsive", "dynamic-per-sample", "dynamic-per-segment", "dc", "unit-impulse"};
static const int NXK = 6;
template<class T> base_array<T> gen_x(vh::Rng& r, int nx, int kind) {
    base_array<T> x(nx);
    for (int i = 0; i < nx; ++i) x[i] = T(0);
    if (nx == 0) return x;
    switch (kind) {
    case 0: for (int i = 0; i < nx; ++i) rnd(r, x[i]); break;
    case 1: {   // a few spikes of widely different size, first / last sample included half of the time
        int ns = r.range(1, 5);
        for (int j = 0; j < ns; ++j) {
            int p = r.range(0, nx - 1);
            if (j == 0 && r.coin()) p = 0;
            if (j == 1 && r.coin()) p = nx - 1;
            rnd(r, x[p]);
            scale(x[p], std::pow(10.0, r.range(-3, 6)));
        }
        break;
    }
    case 2: for (int i = 0; i < nx; ++i) { rnd(r, x[i]); scale(x[i], std::ldexp(1.0, r.range(-40, 40))); } break;
    case 3: {
        int seg = std::max(1, nx / r.range(2, 9));
        double s = 1;
        for (int i = 0; i < nx; ++i) {
            if (i % seg == 0) s = std::ldexp(1.0, r.range(-40, 40));
            rnd(r, x[i]);
            scale(x[i], s);
        }
        break;
    }
    case 4: { T c; rnd(r, c); for (int i = 0; i < nx; ++i) x[i] = c; break; }
    case 5: x[0] = T(1); break;
    }
    return x;
}

// random framing of a stream of length nx into nf frames (empty frames allowed)
static std::vector<int> gen_cuts(vh::Rng& r, int nx, int nf) {
    std::vector<int> c;
    for (int i = 0; i + 1 < nf; ++i) c.push_back(r.range(0, nx));
    std::sort(c.begin(), c.end());
    std::vector<int> len;
    int prev = 0;
    for (int v : c) { len.push_back(v - prev); prev = v; }
    len.push_back(nx - prev);
    return len;
}

template<class T> base_array<T> sub(const base_array<T>& x, int a, int n) {
    base_array<T> r(n);
    for (int i = 0; i < n; ++i) r[i] = x[a + i];
    return r;
}

// the indices of [0,total) that the oracle evaluates: all when the work is small, otherwise the
// neighbourhoods of every boundary (start, nh-1, frame and block boundaries, end) plus a random sample
static std::vector<int> pick(vh::Rng& r, int total, long long work_per_index, const std::vector<int>& marks, int nrandom) {
    std::vector<int> v;
    if (total <= 0) return v;
    if ((long long)total * work_per_index <= 3000000LL) {
        for (int i = 0; i < total; ++i) v.push_back(i);
        return v;
    }
    std::set<int> s;
    auto around = [&](int c, int w) { for (int i = c - w; i <= c + w; ++i) if (i >= 0 && i < total) s.insert(i); };
    around(0, 24);
    around(total - 1, 24);
    for (int m : marks) around(m, 3);
    for (int i = 0; i < nrandom; ++i) s.insert(r.range(0, total - 1));
    v.assign(s.begin(), s.end());
    return v;
}

static void maxstat(const std::string& k, long long v) { auto& s = out.stats[k]; if (v > s) s = v; }

template<class T> std::string frames_str(const base_array<T>& x, const std::vector<int>& lens) {
    std::string s = std::to_string(lens.size());
    int p = 0;
    for (int l : lens) { s += " " + vh::hxs(sub(x, p, l)); p += l; }
    return s;
}
// every `stride`-th element
template<class T> std::string dec_str(const base_array<T>& y, int stride) {
    int cnt = (y.size() + stride - 1) / stride;
    base_array<T> d(cnt);
    for (int i = 0; i < cnt; ++i) d[i] = y[i * stride];
    return vh::hxs(d);
}

template<class T> struct Stream {   // long-double images of a coefficient vector / an input
    std::vector<typename Tr<T>::L> v;
    std::vector<ld> a;
    explicit Stream(const base_array<T>& x, bool conj = false) {
        for (int i = 0; i < x.size(); ++i) { auto l = toL(x[i]); v.push_back(conj ? cjL(l) : l); a.push_back(magL(l)); }
    }
    ld norm2(int from, int to) const { ld s = 0; for (int i = std::max(from, 0); i < to && i < (int)a.size(); ++i) s += a[i] * a[i]; return sqrtl(s); }
};

// y[i] = sum_{k<nh, k<=i} conj(c[k]) x[i-k]   and   S = sum |c[k]||x[i-k]|
template<class T> void ref_conv(const Stream<T>& c, const Stream<T>& x, int i, typename Tr<T>::L& v, ld& S) {
    v = zeroL(v);
    S = 0;
    const int nh = c.v.size();
    for (int k = 0; k < nh && k <= i; ++k) {
        accL(v, mulL(c.v[k], x.v[i - k]));
        S += c.a[k] * x.a[i - k];
    }
}

static std::string case_json(const char* what, const char* T, int nh, int hk, int nx, int xk, const std::vector<int>& lens, uint64_t cs, int idx, ld err, ld bound) {
    std::ostringstream o;
    o << "{\"op\":\"" << what << "\",\"type\":\"" << T << "\",\"nh\":" << nh << ",\"coeff_kind\":\"" << (hk >= 0 ? HK[hk] : "-") << "\",\"nx\":" << nx
      << ",\"input_kind\":\"" << XK[xk] << "\",\"frames\":" << vh::jints(lens) << ",\"case_seed\":" << cs << ",\"index\":" << idx
      << ",\"error\":" << vh::jnum((double)err) << ",\"bound\":" << vh::jnum((double)bound) << "}";
    return o.str();
}

// ------------------------------------------------------------------ FirFilter / FftFilter
template<class T> struct FftOut { using type = base_array<T>; };

template<class T>
void test_fir(uint64_t cs, int nh, int hk, int nx, int xk, int nf, bool emit, int stride) {
    vh::Rng r(cs);
    const char* tn = Tr<T>::nm();
    const base_array<T> h = gen_h<T>(r, nh, hk);
    const base_array<T> x = gen_x<T>(r, nx, xk);
    const std::vector<int> lens = gen_cuts(r, nx, nf);
    const std::string cj0 = case_json("FirFilter", tn, nh, hk, nx, xk, lens, cs, -1, 0, 0);
    vh::set_current("C07:fir-crash", cj0);
    FirFilter<T> f(h);
    base_array<T> y(nx);
    std::string outs;
    int p = 0;
    bool lenok = true;
    for (int l : lens) {
        const base_array<T> yi = f.process(sub(x, p, l));
        if (yi.size() != l) { lenok = false; break; }
        for (int i = 0; i < l; ++i) y[p + i] = yi[i];
        if (emit) outs += (outs.empty() ? "" : " ") + dec_str(yi, stride);
        p += l;
    }
    vh::clear_current();
    out.stat(std::string("fir") + tn + "_cases");
    out.stat(std::string("coeff_") + HK[hk]);
    out.stat(std::string("input_") + XK[xk]);
    out.stat(nf > 1 ? "fir_multi_call" : "fir_single_call");
    out.stat(nx == 0 ? "nx_0" : nx < nh ? "nx_lt_nh" : nx <= 1000 ? "nx_le_1000" : nx <= 20000 ? "nx_le_20000" : "nx_gt_20000");
    out.stat(nh <= 8 ? "nh_2_8" : nh <= 64 ? "nh_9_64" : nh <= 256 ? "nh_65_256" : "nh_257_1024");
    if (!lenok) { out.fail("C07:fir-length", cj0); return; }
    if (emit) out.corr(std::string("fir") + tn + " " + std::to_string(stride) + " " + vh::hxs(h) + " " + frames_str(x, lens), outs.empty() ? "-" : outs);
    // oracle
    const Stream<T> c(h, true), xs(x);
    std::vector<int> marks = {nh - 1, nh};
    { int q = 0; for (int l : lens) { q += l; marks.push_back(q); } }
    const auto idx = pick(r, nx, nh, marks, 400);
    for (int i : idx) {
        typename Tr<T>::L v; ld S;
        ref_conv<T>(c, xs, i, v, S);
        const ld e = errL(v, y[i]);
        const ld bound = (nh + 8) * EPS * S + 1e-300L;
        out.n_oracle++;
        if (S > 0) maxstat("fir_worst_err_over_eps_sumabs_x1000", (long long)(1000 * e / (EPS * S)));
        if (!(e <= bound) || !finiteT(y[i])) { out.fail(std::string("C07:fir-sum-") + tn, case_json("FirFilter", tn, nh, hk, nx, xk, lens, cs, i, e, bound)); break; }
    }
    if (out.n_cases % 37 == 1) out.sample(cj0);
}

static arr_real run_fft(FftFilter& f, const arr_real& x) { return f.process(x); }
static arr_cmplx run_fft(FftFilter& f, const arr_cmplx& x) { return f.process(x); }

template<class T>
void test_fft(uint64_t cs, int nh, int hk, int nx, int xk, int nf, bool emit, int stride) {
    vh::Rng r(cs);
    const char* tn = Tr<T>::nm();
    const base_array<T> h = gen_h<T>(r, nh, hk);
    const base_array<T> x = gen_x<T>(r, nx, xk);
    const std::vector<int> lens = gen_cuts(r, nx, nf);
    const std::string cj0 = case_json("FftFilter", tn, nh, hk, nx, xk, lens, cs, -1, 0, 0);
    vh::set_current("C07:fftfilter-crash", cj0);
    FftFilter f(h);
    FirFilter<T> fd(h);
    const int bs = f.block_size();
    const int L = 1 << ceil_log2(bs + nh - 1);   // transform length of one block
    std::vector<T> y;
    std::string outs;
    int p = 0;
    bool lenok = bs >= 1;   // the block size itself is the implementation's choice (CORR compares it with the model's)
    for (int l : lens) {
        const base_array<T> yi = run_fft(f, sub(x, p, l));
        p += l;
        if (int(y.size()) + yi.size() != (p / bs) * bs) { lenok = false; break; }   // emits in multiples of the block size
        for (int i = 0; i < yi.size(); ++i) y.push_back(yi[i]);
        if (emit) outs += " " + dec_str(yi, stride);
    }
    const base_array<T> yd = fd.process(x);   // the direct filter on the same stream
    vh::clear_current();
    out.stat(std::string("fft") + tn + "_cases");
    out.stat(std::string("coeff_") + HK[hk]);
    out.stat(std::string("input_") + XK[xk]);
    out.stat(nf > 1 ? "fft_multi_call" : "fft_single_call");
    out.stat(y.empty() ? "fft_blocks_0" : int(y.size()) == bs ? "fft_blocks_1" : int(y.size()) <= 4 * bs ? "fft_blocks_2_4" : "fft_blocks_5plus");
    out.stat(nx % bs == 0 ? "fft_nx_multiple_of_block" : "fft_nx_partial_block");
    if (!lenok) { out.fail("C07:fftfilter-length", cj0); return; }
    // oracle: defining sum (normwise bound over the blocks that feed output i) + equality with the direct filter
    const Stream<T> c(h, true), xs(x);
    const ld hn = c.norm2(0, nh);
    // CORR line: block size, then the frames' outputs (the model runs the C01 model of the library's own plans, in the library's
    // operation order: the outputs are compared bit for bit, no scale token)
    if (emit) out.corr(std::string("fft") + tn + " " + std::to_string(stride) + " " + vh::hxs(h) + " " + frames_str(x, lens),
                       std::to_string(bs) + outs);
    const int ny = y.size();
    std::vector<ld> bn;   // ||x_block||_2
    for (int b = 0; b * bs < ny; ++b) bn.push_back(xs.norm2(b * bs, (b + 1) * bs));
    std::vector<int> marks = {nh - 1, nh};
    for (int b = 1; b * bs <= ny; ++b) marks.push_back(b * bs), marks.push_back(b * bs + nh - 2);
    const auto idx = pick(r, ny, nh, marks, 400);
    const ld cf = 8 + ceil_log2(L);
    for (int i : idx) {
        typename Tr<T>::L v; ld S;
        ref_conv<T>(c, xs, i, v, S);
        const int b = i / bs;
        const ld N = hn * (bn[b] + (b > 0 ? bn[b - 1] : 0));
        const ld e = errL(v, y[i]);
        const ld bound = cf * EPS * N + 1e-300L;
        out.n_oracle++;
        if (N > 0) maxstat("fft_worst_err_over_eps_norms_x1000", (long long)(1000 * e / (EPS * N)));
        if (!(e <= bound) || !finiteT(y[i])) { out.fail(std::string("C07:fftfilter-sum-") + tn, case_json("FftFilter", tn, nh, hk, nx, xk, lens, cs, i, e, bound)); break; }
        const ld e2 = errL(toL(yd[i]), y[i]);
        const ld bound2 = bound + (nh + 8) * EPS * S;
        out.n_oracle++;
        if (!(e2 <= bound2)) { out.fail(std::string("C07:fftfilter-vs-fir-") + tn, case_json("FftFilter~FirFilter", tn, nh, hk, nx, xk, lens, cs, i, e2, bound2)); break; }
    }
    if (out.n_cases % 37 == 2) out.sample(cj0);
}

// ------------------------------------------------------------------ xcorr
template<class T>
void test_xcorr(uint64_t cs, int n1, int n2, int ak, int bk, bool emit, bool autoc) {
    vh::Rng r(cs);
    const char* tn = Tr<T>::nm();
    const base_array<T> a = gen_x<T>(r, n1, ak);
    const base_array<T> b = autoc ? a : gen_x<T>(r, n2, bk);
    if (autoc) n2 = n1;
    std::ostringstream o;
    o << "{\"op\":\"" << (autoc ? "xcorr(x)" : "xcorr(a,b)") << "\",\"type\":\"" << tn << "\",\"n1\":" << n1 << ",\"n2\":" << n2 << ",\"a_kind\":\"" << XK[ak]
      << "\",\"b_kind\":\"" << XK[bk] << "\",\"case_seed\":" << cs;
    const std::string cj0 = o.str();
    vh::set_current("C07:xcorr-crash", cj0 + "}");
    const base_array<T> z = autoc ? xcorr(a) : xcorr(a, b);
    vh::clear_current();
    out.stat(std::string("xcorr") + tn + "_cases");
    out.stat(n1 == n2 ? "xcorr_n1_eq_n2" : n1 < n2 ? "xcorr_n1_lt_n2" : "xcorr_n1_gt_n2");
    if (z.size() != n1 + n2 - 1) { out.fail("C07:xcorr-length", cj0 + "}"); return; }
    if (emit) out.corr(std::string("xc") + tn + " " + vh::hxs(a) + " " + vh::hxs(b), vh::hxs(z));
    const Stream<T> as(a), bs(b, true);
    const int M = 1 << ceil_log2(n1 + n2 - 1);
    const ld N = as.norm2(0, n1) * bs.norm2(0, n2);
    const ld cf = 8 + ceil_log2(M);
    vh::Rng r2(cs ^ 0x5555);
    const auto idx = pick(r2, n1 + n2 - 1, std::min(n1, n2), {n2 - 1, n1 - 1}, 600);
    for (int j : idx) {
        const int lag = j - (n2 - 1);
        typename Tr<T>::L v = zeroL(typename Tr<T>::L());
        for (int n = std::max(0, -lag); n < n2 && n + lag < n1; ++n) accL(v, mulL(as.v[n + lag], bs.v[n]));
        const ld e = errL(v, z[j]);
        const ld bound = cf * EPS * N + 1e-300L;
        out.n_oracle++;
        if (N > 0) maxstat("xcorr_worst_err_over_eps_norms_x1000", (long long)(1000 * e / (EPS * N)));
        if (!(e <= bound) || !finiteT(z[j])) {
            std::ostringstream q;
            q << cj0 << ",\"index\":" << j << ",\"lag\":" << lag << ",\"error\":" << vh::jnum((double)e) << ",\"bound\":" << vh::jnum((double)bound) << "}";
            out.fail(std::string("C07:xcorr-sum-") + tn, q.str());
            break;
        }
    }
    if (out.n_cases % 211 == 3) out.sample(cj0 + "}");
}

// ------------------------------------------------------------------ MAFilter
template<class T>
void test_ma(uint64_t cs, int n, int nx, int xk, int nf, bool emit, bool scalar_api) {
    vh::Rng r(cs);
    const char* tn = Tr<T>::nm();
    const base_array<T> x = gen_x<T>(r, nx, xk);
    const std::vector<int> lens = gen_cuts(r, nx, nf);
    const std::string cj0 = case_json("MAFilter", tn, n, -1, nx, xk, lens, cs, -1, 0, 0);
    vh::set_current("C07:ma-crash", cj0);
    MAFilter<T> m(n);
    base_array<T> taps(n);
    for (int i = 0; i < n; ++i) taps[i] = T(1.0 / n);
    base_array<T> y(nx);
    std::string outs;
    int p = 0;
    bool lenok = true;
    for (int l : lens) {
        base_array<T> yi(l);
        if (scalar_api) { for (int i = 0; i < l; ++i) yi[i] = m.process(x[p + i]); }
        else yi = m.process(sub(x, p, l));
        if (yi.size() != l) { lenok = false; break; }
        for (int i = 0; i < l; ++i) y[p + i] = yi[i];
        if (emit) outs += (outs.empty() ? "" : " ") + vh::hxs(yi);
        p += l;
    }
    base_array<T> yf(nx);
    if (n >= 2) { FirFilter<T> f(taps); yf = f.process(x); }   // FirFilter needs >= 2 taps (h.size()-1 history)
    vh::clear_current();
    out.stat(std::string("ma") + tn + "_cases");
    out.stat(std::string("input_") + XK[xk]);
    if (!lenok) { out.fail("C07:ma-length", cj0); return; }
    if (emit) out.corr(std::string("ma") + tn + " " + std::to_string(n) + " " + frames_str(x, lens), outs.empty() ? "-" : outs);
    const Stream<T> xs(x);
    std::vector<int> marks;
    for (int q = 1; q * n <= nx && q < 40; ++q) marks.push_back(q * n);
    const auto idx = pick(r, nx, 2 * n, marks, 400);
    for (int t : idx) {
        typename Tr<T>::L v = zeroL(typename Tr<T>::L());
        ld S2 = 0, S1 = 0;
        for (int j = 0; j < 2 * n && j <= t; ++j) {
            if (j < n) { accL(v, xs.v[t - j]); S1 += xs.a[t - j]; }
            S2 += xs.a[t - j];
        }
        v = divL(v, (ld)n);
        const ld e = errL(v, y[t]);
        const ld bound = (1.5L * n + 4) * EPS * S2 / n + 1e-300L;
        out.n_oracle++;
        if (S2 > 0) maxstat("ma_worst_err_over_eps_sumabs2n_x1000", (long long)(1000 * e * n / (EPS * S2)));
        if (!(e <= bound) || !finiteT(y[t])) { out.fail(std::string("C07:ma-sum-") + tn, case_json("MAFilter", tn, n, -1, nx, xk, lens, cs, t, e, bound)); break; }
        if (n >= 2) {   // the library's own FIR filter with n taps 1/n
            const ld e2 = errL(toL(yf[t]), y[t]);
            const ld bound2 = bound + (n + 8) * EPS * S1 / n;
            out.n_oracle++;
            if (!(e2 <= bound2)) { out.fail(std::string("C07:ma-vs-fir-") + tn, case_json("MAFilter~FirFilter", tn, n, -1, nx, xk, lens, cs, t, e2, bound2)); break; }
        }
    }
    if (out.n_cases % 37 == 4) out.sample(cj0);
}

// ------------------------------------------------------------------ main
int main(int argc, char** argv) {
    vh::Args a(argc, argv);
    vh::install_guards();
    vh::Rng rng(a.seed * 0x9e3779b97f4a7c15ULL + 7);
    const bool TH = a.thorough;
    vh::watch(TH ? 3000 : 600);

    // special input lengths relative to the tap count nh and the FFT block size bs
    auto special_nx = [&](int nh, int bs, int j) -> int {
        const int sp[] = {0, 1, 2, nh - 1, nh, nh + 1, bs - 1, bs, bs + 1, 2 * bs, 3 * bs + 1, 2 * bs - 1};
        return sp[j % 12];
    };

    // ---- FirFilter / FftFilter: tap counts
    std::vector<int> nhs;
    if (TH) for (int nh = 2; nh <= 1024; ++nh) nhs.push_back(nh);
    else {
        const int q[] = {2, 3, 4, 5, 7, 8, 9, 16, 17, 31, 32, 33, 64, 100, 129, 255, 256, 257, 511, 512, 513, 1000, 1023, 1024};
        for (int v : q) nhs.push_back(v);
        for (int j = 0; j < 24; ++j) nhs.push_back(rng.range(2, 1024));
    }
    int cnt = 0;
    for (int nh : nhs) {
        const int bs = (1 << ceil_log2(2 * nh)) - nh + 1;
        const int reps = TH ? 2 : 4;
        for (int rep = 0; rep < reps; ++rep, ++cnt) {
            for (int cplx = 0; cplx < 2; ++cplx) {
                const int hk = (cnt + cplx + int(a.seed)) % NHK;
                const int xk = (cnt / NHK + 2 * cplx + rep) % NXK;
                int nx = (rep == 0) ? special_nx(nh, bs, cnt + int(a.seed)) : rng.range(0, std::min(4 * bs + 7, TH ? 6000 : 5000));
                if (xk == 5 && nx == 0) nx = nh + 3;
                const int nf = (cnt % 3 == 0) ? 1 : rng.range(2, 5);
                // correspondence with the Lean model: a subset with bounded model work
                const bool small = (long long)nh * nx <= (TH ? 1500000 : 400000);
                const bool emit = small && (TH ? (cnt % 12 == int(a.seed % 12)) || nh <= 12 : (nh <= 64 || cnt % 3 == 0));
                const uint64_t cs = rng.next();
                if (cplx) { test_fir<cmplx_t>(cs, nh, hk, nx, xk, nf, emit, 1); test_fft<cmplx_t>(cs + 1, nh, hk, nx, xk, nf, emit, 1); }
                else { test_fir<real_t>(cs, nh, hk, nx, xk, nf, emit, 1); test_fft<real_t>(cs + 1, nh, hk, nx, xk, nf, emit, 1); }
            }
        }
    }
    // ---- long inputs (to 1e5), every input kind, sampled oracle indices; a few go through CORR with strided outputs
    {
        const int big_nh[] = {2, 5, 33, 128, 400, 1024};
        const int nbig = TH ? 36 : 6;
        for (int j = 0; j < nbig; ++j) {
            const int nh = big_nh[j % 6];
            const int nx = (j % 4 == 0) ? 100000 : rng.range(20000, 100000);
            const int hk = (j + int(a.seed)) % NHK, xk = (j / 2) % NXK;
            const int nf = (j % 2) ? rng.range(2, 6) : 1;
            const bool emit = nh <= 33 && (TH ? j < 4 : j < 2);
            const uint64_t cs = rng.next();
            if (j % 2) { test_fir<cmplx_t>(cs, nh, hk, nx, xk, nf, emit, 97); test_fft<cmplx_t>(cs + 1, nh, hk, nx, xk, nf, emit, 97); }
            else { test_fir<real_t>(cs, nh, hk, nx, xk, nf, emit, 97); test_fft<real_t>(cs + 1, nh, hk, nx, xk, nf, emit, 97); }
        }
    }
    // ---- xcorr: all (n1,n2) in the box, both types; sampled pairs to 5000
    {
        const int B = TH ? 48 : 16;
        int c = int(a.seed);
        for (int n1 = 1; n1 <= B; ++n1)
            for (int n2 = 1; n2 <= B; ++n2, ++c) {
                const bool emit = TH ? (n1 <= 12 && n2 <= 12) || (c % 11 == 0) : (n1 <= 8 && n2 <= 8) || (c % 7 == 0);
                test_xcorr<real_t>(rng.next(), n1, n2, c % NXK, (c / NXK) % NXK, emit, false);
                test_xcorr<cmplx_t>(rng.next(), n1, n2, (c + 1) % NXK, (c / NXK + 2) % NXK, emit, false);
            }
        for (int n1 = 1; n1 <= B; ++n1, ++c) {
            test_xcorr<real_t>(rng.next(), n1, n1, c % NXK, 0, n1 <= 8, true);
            test_xcorr<cmplx_t>(rng.next(), n1, n1, (c + 3) % NXK, 0, n1 <= 8, true);
        }
        const int ns = TH ? 60 : 10;
        for (int j = 0; j < ns; ++j, ++c) {
            int n1 = rng.range(1, 5000), n2 = rng.range(1, 5000);
            if (j % 5 == 0) n2 = rng.range(1, 48);
            if (j % 5 == 1) n1 = rng.range(1, 48);
            if (j == 2) { n1 = 5000; n2 = 5000; }
            if (j == 3) { n1 = 4096; n2 = 1; }
            if (j == 4) { n1 = 2049; n2 = 2048; }
            const bool emit = (long long)n1 + n2 <= 2500 || j == 2;
            if (j % 2) test_xcorr<cmplx_t>(rng.next(), n1, n2, c % NXK, (c / 2) % NXK, emit, false);
            else test_xcorr<real_t>(rng.next(), n1, n2, c % NXK, (c / 2) % NXK, emit, false);
        }
    }
    // ---- MAFilter
    {
        std::vector<int> ns = {1, 2, 3, 4, 5, 7, 8, 16, 33, 100, 128, 1000};
        if (TH) for (int j = 0; j < 40; ++j) ns.push_back(rng.range(1, 1024));
        int c = int(a.seed);
        for (int n : ns)
            for (int rep = 0; rep < (TH ? 6 : 3); ++rep, ++c) {
                int nx = rep == 0 ? 3 * n + 1 : rep == 1 ? rng.range(0, 2 * n) : rng.range(0, TH ? 20000 : 4000);
                if (TH && rep == 5 && n <= 128) nx = 100000;
                const int xk = c % (NXK - 1);
                const int nf = (c % 2) ? rng.range(2, 5) : 1;
                const bool emit = (long long)nx <= 3000;
                if (c % 2) test_ma<cmplx_t>(rng.next(), n, nx, xk, nf, emit, rep == 2);
                else test_ma<real_t>(rng.next(), n, nx, xk, nf, emit, rep == 2);
                if (rep == 0) {   // the other type too at the boundary length
                    if (c % 2) test_ma<real_t>(rng.next(), n, nx, xk, nf, emit, false);
                    else test_ma<cmplx_t>(rng.next(), n, nx, xk, nf, emit, false);
                }
            }
    }
    vh::unwatch();
    out.finish();
    return 0;
}
