// C11 — FIR and window designs meet their closed-form specifications.
//
// ORACLE (long double): every window against its textbook closed form, range, symmetry, periodic = prefix of
// symmetric n+1; fir1: length, symmetry, |H(0)| / |H(pi)|, Hamming-design masks on a 4096-point response grid,
// wrong-length custom windows rejected.
// CORR: window vectors (tag `win`, digests `wind` for long ones), fir1 impulse responses (tag `fir`),
// firtype (tag `firtype`), besseli0 through kaiser(3, beta) (inside `win`).
//
// Second round (boundary-directed inputs; same oracle, same CORR tags):
//  * every window parameter at tiny / huge / boundary values: tukey r at -0.5, 0 (+-0, denormals, DBL_MIN,
//    1e-300 .. eps/2, eps, 2 eps .. 1e-4), 1 and 1.5 (each +- a few ulps), at the internal branch boundaries
//    r = 2k/(n-1) +- ulp, log-uniform over (1e-323, 1); gauss alpha 0, denormal .. 1e308 (exp underflow / square
//    overflow thresholds, range ends +- ulp, negative); kaiser beta 0, denormal .. 40 +- ulp, powers of two;
//  * lengths beyond the sweep limit (2^16, 2^17 +- 1, 10^6 + 3);
//  * fir1: order 1 and orders beyond 2000 (to 8191 with masks, 2^16 / 2^17 / 10^5 without), cut-offs within an
//    ulp of 0, 0.02, 0.5, 0.98, 1 and at 1e-300 .. 1e-4, band-edge pairs one ulp apart / spanning (0, 1);
//    custom windows that are periodic, zero-padded, carry -0 end points, or are scaled by 1e-300 .. 1e100
//    (fir1 is invariant under scaling the window); temporaries as window argument; a valid design repeated
//    after a rejected call must be bit-identical.
// A non-finite output is reported under its own key (C11:window-nonfinite:<family>, C11:fir1-nonfinite); the
// finite points of such an output are still compared with the closed form.
#include "common.hpp"
#include <algorithm>
#include <cfloat>
#include <cstring>
#include <chrono>
using namespace dsplib;
typedef long double LD;
static vh::Out out;
static const LD PI_L = 3.14159265358979323846264338327950288L;
static const double EPS = 2.220446049250313e-16;

// ------------------------------------------------------------------------------------------------ windows
enum Fam { HANN = 0, HAMMING, BLACKMAN, BHARRIS, GAUSS, COSINE, TUKEY, KAISER, NFAM };
static const char* fam_name[NFAM] = {"hann", "hamming", "blackman", "blackmanharris", "gauss", "cosine", "tukey", "kaiser"};
static bool fam_has_periodic(int f) { return f != TUKEY && f != KAISER; }
static bool fam_has_param(int f) { return f == GAUSS || f == TUKEY || f == KAISER; }

static arr_real call_win(int fam, int n, bool sym, double p) {
    switch (fam) {
    case HANN: return window::hann(n, sym);
    case HAMMING: return window::hamming(n, sym);
    case BLACKMAN: return window::blackman(n, sym);
    case BHARRIS: return window::blackmanharris(n, sym);
    case GAUSS: return window::gauss(n, p, sym);
    case COSINE: return window::cosine(n, sym);
    case TUKEY: return window::tukey(n, p);
    default: return window::kaiser(n, p);
    }
}

// I0 summed to convergence in long double
static LD bessel_i0_ld(LD x) {
    const LD q = (x / 2) * (x / 2);
    LD term = 1, r = 1;
    for (int k = 1; k < 100000; ++k) {
        term *= q / (LD(k) * LD(k));
        r += term;
        if (term < r * 1e-24L) break;
    }
    return r;
}

// textbook closed form of point k of the length-N symmetric window (N >= 2)
static LD win_ref(int fam, int N, int k, LD p, LD i0beta) {
    const LD x = LD(k) / LD(N - 1);   // position in [0, 1]
    switch (fam) {
    case HANN: return 0.5L - 0.5L * cosl(2 * PI_L * x);
    case HAMMING: return 0.54L - 0.46L * cosl(2 * PI_L * x);
    case BLACKMAN: return 0.42L - 0.5L * cosl(2 * PI_L * x) + 0.08L * cosl(4 * PI_L * x);
    case BHARRIS: return 0.35875L - 0.48829L * cosl(2 * PI_L * x) + 0.14128L * cosl(4 * PI_L * x) - 0.01168L * cosl(6 * PI_L * x);
    case GAUSS: {
        const LD half = LD(N - 1) / 2;
        const LD t = (LD(k) - half) / half;
        return expl(-0.5L * (p * t) * (p * t));
    }
    case COSINE: return sinl(PI_L * (LD(k) + 0.5L) / LD(N));
    case TUKEY: {
        if (p <= 0) return 1;
        if (p >= 1) return 0.5L - 0.5L * cosl(2 * PI_L * x);
        // evaluated on the mirrored index (x > 1 - p/2  <=>  1 - x < p/2; 1 - p/2 is not representable for p < 1e-19)
        // and in units of samples: point kk lies in the taper iff kk < (p/2)(N-1), where w = (1 + cos(pi (kk/edge - 1)))/2
        const int kk = std::min(k, N - 1 - k);
        const LD edge = (p / 2) * LD(N - 1);
        if (LD(kk) < edge) return 0.5L * (1 + cosl(PI_L * (LD(kk) / edge - 1)));
        return 1;
    }
    default: {
        const LD u = 2 * x - 1;
        LD a = 1 - u * u;
        if (a < 0) a = 0;
        return bessel_i0_ld(p * sqrtl(a)) / i0beta;
    }
    }
}

static std::string win_json(int fam, int n, bool sym, double p) {
    return std::string("{\"op\":\"window\",\"family\":\"") + fam_name[fam] + "\",\"n\":" + std::to_string(n) + ",\"sym\":" + (sym ? "true" : "false") +
           ",\"param\":" + vh::jnum(p) + "}";
}

static long long g_worst_win_err_e18[NFAM] = {0};   // worst |impl - closed form| (relative for kaiser), in 1e-18 units

enum CorrMode { NOCORR = 0, FULL, DIGEST };

static void chk_window(int fam, int n, bool sym, double p, CorrMode cm) {
    const std::string js = win_json(fam, n, sym, p);
    const std::string f = fam_name[fam];
    vh::set_current("C11:hang-or-crash:window-" + f, js);
    arr_real w;
    try {
        w = call_win(fam, n, sym, p);
    } catch (const std::exception&) {
        vh::clear_current();
        out.fail("C11:window-threw:" + f, js);
        if (cm != NOCORR) out.corr(std::string(cm == FULL ? "win " : "wind ") + f + " " + std::to_string(n) + " " + (sym ? "1" : "0") + " " + vh::hx(p), "ERR");
        return;
    }
    vh::clear_current();
    out.n_oracle++;
    out.stat(std::string("win_") + f + (sym ? "_sym" : "_per"));
    if (cm == FULL) out.corr("win " + f + " " + std::to_string(n) + " " + (sym ? "1" : "0") + " " + vh::hx(p), vh::hxs(w));
    if (cm == DIGEST && w.size() == n) {
        const int m = n / 2;
        double mean = 0, wm = 0;
        for (int i = 0; i < n; ++i) { mean += w[i]; wm += w[i] * (double(i + 1) / n); }
        mean /= n; wm /= n;
        out.corr("wind " + f + " " + std::to_string(n) + " " + (sym ? "1" : "0") + " " + vh::hx(p),
                 std::to_string(w.size()) + " " + vh::hx(w[0]) + " " + vh::hx(w[1]) + " " + vh::hx(w[m - 1]) + " " + vh::hx(w[m]) + " " + vh::hx(w[n - 2]) + " " +
                     vh::hx(w[n - 1]) + " " + vh::hx(w[n / 3]) + " " + vh::hx(w[(2 * n) / 3 + 1]) + " " + vh::hx(mean) + " " + vh::hx(wm));
    }
    if (w.size() != n) { out.fail("C11:window-length:" + f, js); return; }

    // (a) textbook closed form, (b) range
    const int N = sym ? n : n + 1;
    const LD i0b = fam == KAISER ? bessel_i0_ld(p) : 1;
    const LD tol = 1e-12L;
    bool bad_cf = false, bad_rg = false;
    int bad_k = -1, nf_k = -1;
    LD worst = 0;
    for (int k = 0; k < n; ++k) {
        if (!std::isfinite(w[k])) { if (nf_k < 0) nf_k = k; continue; }   // reported below under its own key
        const LD ref = win_ref(fam, N, k, p, i0b);
        LD err = fabsl(LD(w[k]) - ref);
        if (fam == KAISER) err /= ref;   // relative: kaiser end points are as small as 1/I0(40) ~ 7e-17
        if (!(err <= tol)) { if (!bad_cf) bad_k = k; bad_cf = true; }
        if (err > worst) worst = err;
        if (!(w[k] >= -1e-15 && w[k] <= 1 + 1e-15)) { if (!bad_rg) bad_k = k; bad_rg = true; }
    }
    const long long we = (long long)std::min<LD>(worst * 1e18L, 9e18L);
    if (we > g_worst_win_err_e18[fam]) g_worst_win_err_e18[fam] = we;
    if (nf_k >= 0) {
        // tukey: pi / (r/2) overflows for 0 < r < 2 pi / DBL_MAX (flagged so that the cause is visible in the witness); this probe found
        // NaN end points for every such r, repaired in /repo by 1c79c46 (w[0] = 0 written directly)
        const bool ovf = fam == TUKEY && p > 0 && p < 1 && std::isinf(3.141592653589793 / (p / 2));
        out.stat("win_nonfinite_outputs");
        out.fail("C11:window-nonfinite:" + f, js.substr(0, js.size() - 1) + ",\"k\":" + std::to_string(nf_k) + ",\"got\":" + vh::jnum(w[nf_k]) +
                                                 (fam == TUKEY ? std::string(",\"pi_over_half_r_overflows\":") + (ovf ? "true" : "false") : std::string()) + "}");
    }
    if (bad_cf) out.fail("C11:window-closed-form:" + f, js.substr(0, js.size() - 1) + ",\"k\":" + std::to_string(bad_k) + ",\"got\":" + vh::jnum(w[bad_k]) + "}");
    if (bad_rg) out.fail("C11:window-range:" + f, js.substr(0, js.size() - 1) + ",\"k\":" + std::to_string(bad_k) + ",\"got\":" + vh::jnum(w[bad_k]) + "}");

    // (c) symmetric variant symmetric about its centre
    if (sym) {
        for (int k = 0; k < n / 2; ++k)
            if (std::isfinite(w[k]) && std::isfinite(w[n - 1 - k]) && !(std::fabs(w[k] - w[n - 1 - k]) <= 4 * EPS)) {
                out.fail("C11:window-symmetry:" + f, js.substr(0, js.size() - 1) + ",\"k\":" + std::to_string(k) + "}");
                break;
            }
    } else {
        // (d) periodic n = first n points of symmetric n+1
        vh::set_current("C11:hang-or-crash:window-" + f, win_json(fam, n + 1, true, p));
        arr_real ws;
        try { ws = call_win(fam, n + 1, true, p); } catch (const std::exception&) {}
        vh::clear_current();
        bool ok = ws.size() == n + 1;
        int kk = -1;
        for (int k = 0; ok && k < n; ++k)
            if (std::isfinite(w[k]) && std::isfinite(ws[k]) && !(std::fabs(w[k] - ws[k]) <= 4 * EPS)) { ok = false; kk = k; }
        if (!ok) out.fail("C11:window-periodic-prefix:" + f, js.substr(0, js.size() - 1) + ",\"k\":" + std::to_string(kk) + "}");
    }
}

// ------------------------------------------------------------------------------------------------ fir1
enum FT { LOW = 0, HIGH, BPASS, BSTOP };
static const char* ft_name[4] = {"low", "high", "bandpass", "bandstop"};

// custom-window kinds (0 = default window overload)
enum WK { W_DEFAULT = 0, W_HAMMING, W_HANN, W_BLACKMAN, W_KAISER, W_GAUSS, W_TUKEY, W_COSINE, W_BHARRIS, W_PERTURBED,
          W_PERIODIC, W_NEGZERO, W_ZEROPAD, W_SC_M300, W_SC_M17, W_SC_M8, W_SC_P8, W_SC_P100, NWK };
static const char* wk_name[NWK] = {"default", "hamming", "hann", "blackman", "kaiser5", "gauss2.5", "tukey0.5", "cosine", "blackmanharris", "perturbed-hamming",
                                   "periodic-hann", "hann-negzero-ends", "zero-padded-hamming", "hamming*1e-300", "hamming*1e-17", "hamming*1e-8", "hamming*1e8", "hamming*1e100"};
static bool wk_scaled(int k) { return k >= W_SC_M300 && k <= W_SC_P100; }
static double wk_scale(int k) { return k == W_SC_M300 ? 1e-300 : k == W_SC_M17 ? 1e-17 : k == W_SC_M8 ? 1e-8 : k == W_SC_P8 ? 1e8 : 1e100; }

static arr_real make_win(int kind, int len, vh::Rng& rng) {
    if (len < 3 && (kind == W_HANN || kind == W_PERIODIC || kind == W_NEGZERO)) kind = W_HAMMING;   // hann(2) = {0, 0}: no taps left to normalise
    switch (kind) {
    case W_HAMMING: return window::hamming(len);
    case W_HANN: return window::hann(len);
    case W_BLACKMAN: return window::blackman(len);
    case W_KAISER: return window::kaiser(len, 5.0);
    case W_GAUSS: return window::gauss(len, 2.5);
    case W_TUKEY: return window::tukey(len, 0.5);
    case W_COSINE: return window::cosine(len);
    case W_BHARRIS: return window::blackmanharris(len);
    case W_PERIODIC: return window::hann(len, false);   // NOT symmetric: fir1 must still return a linear-phase filter
    case W_NEGZERO: {   // the exact zeros at the ends of hann carry a minus sign
        arr_real w = window::hann(len);
        for (int i = 0; i < len; ++i) if (w[i] == 0) w[i] = -0.0;
        return w;
    }
    case W_ZEROPAD: {   // exact zeros in runs at both ends
        arr_real w = window::hamming(len);
        for (int i = 0; i < len / 4; ++i) w[i] = w[len - 1 - i] = 0.0;
        return w;
    }
    case W_SC_M300: case W_SC_M17: case W_SC_M8: case W_SC_P8: case W_SC_P100: {
        arr_real w = window::hamming(len);
        const double sc = wk_scale(kind);
        for (int i = 0; i < len; ++i) w[i] *= sc;
        return w;
    }
    default: {
        arr_real w = window::hamming(len);
        for (int i = 0; i < len; ++i) w[i] *= 0.8 + 0.4 * rng.unit();   // deliberately NOT symmetric
        return w;
    }
    }
}

static int required_len(int type, int n) { return ((n % 2 == 1) && (type == HIGH || type == BSTOP)) ? n + 2 : n + 1; }

// returns false if the library threw
static bool call_fir(int type, int n, double w1, double w2, const arr_real* win, arr_real& h) {
    try {
        if (type == LOW || type == HIGH) {
            const FilterType t = type == LOW ? FilterType::Low : FilterType::High;
            h = win ? fir1(n, w1, t, *win) : fir1(n, w1, t);
        } else {
            const FilterType t = type == BPASS ? FilterType::Bandpass : FilterType::Bandstop;
            h = win ? fir1(n, w1, w2, t, *win) : fir1(n, w1, w2, t);
        }
        return true;
    } catch (const std::exception&) {
        return false;
    }
}

static std::string fir_json(int type, int n, double w1, double w2, int wk, int wlen) {
    return std::string("{\"op\":\"fir1\",\"type\":\"") + ft_name[type] + "\",\"n\":" + std::to_string(n) + ",\"wn1\":" + vh::jnum(w1) +
           ((type >= BPASS) ? (",\"wn2\":" + vh::jnum(w2)) : std::string()) + ",\"window\":\"" + wk_name[wk] + "\",\"window_len\":" + std::to_string(wlen) + "}";
}

static std::string fir_lhs(int type, int n, double w1, double w2, const arr_real* win) {
    return std::string("fir ") + std::to_string(type) + " " + std::to_string(n) + " " + vh::hx(w1) + " " + vh::hx(w2) + " " + (win ? ("1 " + vh::hxs(*win)) : std::string("0"));
}

// ---- long double FFT of size 8192: H(f_j), f_j = j/4096 (Nyquist = 1), j = 0..4096
static const int NFFT = 8192, NGRID = 4096;
static std::vector<LD> tw_re, tw_im;
static std::vector<int> bitrev;
static void fft_init() {
    tw_re.resize(NFFT / 2); tw_im.resize(NFFT / 2);
    for (int i = 0; i < NFFT / 2; ++i) { tw_re[i] = cosl(2 * PI_L * i / NFFT); tw_im[i] = -sinl(2 * PI_L * i / NFFT); }
    bitrev.resize(NFFT);
    int bits = 0; while ((1 << bits) < NFFT) ++bits;
    for (int i = 0; i < NFFT; ++i) { int r = 0; for (int b = 0; b < bits; ++b) if (i & (1 << b)) r |= 1 << (bits - 1 - b); bitrev[i] = r; }
}
static void response(const arr_real& h, std::vector<LD>& mag) {
    static std::vector<LD> re(NFFT), im(NFFT);
    const int M = h.size();
    std::fill(re.begin(), re.end(), 0.0L); std::fill(im.begin(), im.end(), 0.0L);
    if (M <= NFFT) {
        for (int k = 0; k < M; ++k) re[bitrev[k]] = h[k];
        for (int len = 2; len <= NFFT; len <<= 1) {
            const int half = len / 2, step = NFFT / len;
            for (int s = 0; s < NFFT; s += len)
                for (int j = 0; j < half; ++j) {
                    const LD wr = tw_re[j * step], wi = tw_im[j * step];
                    const LD xr = re[s + j + half] * wr - im[s + j + half] * wi, xi = re[s + j + half] * wi + im[s + j + half] * wr;
                    re[s + j + half] = re[s + j] - xr; im[s + j + half] = im[s + j] - xi;
                    re[s + j] += xr; im[s + j] += xi;
                }
        }
        mag.resize(NGRID + 1);
        for (int j = 0; j <= NGRID; ++j) mag[j] = sqrtl(re[j] * re[j] + im[j] * im[j]);
    } else {   // direct (never needed for n <= 2000)
        mag.resize(NGRID + 1);
        for (int j = 0; j <= NGRID; ++j) {
            LD a = 0, b = 0;
            for (int k = 0; k < M; ++k) { a += h[k] * cosl(PI_L * j * k / NGRID); b -= h[k] * sinl(PI_L * j * k / NGRID); }
            mag[j] = sqrtl(a * a + b * b);
        }
    }
}

static long long g_worst_pass_e6 = 0, g_worst_stop_e6 = 0, g_worst_gain_e18 = 0, g_worst_sym_e18 = 0, g_worst_scale_e18 = 0;
static bool g_no_mask = false;   // orders whose response does not fit the 8192-point FFT: everything but the masks

struct Band { LD lo, hi; bool pass; };

// Hamming-design masks; returns false when some band is not wider than 16/(n+1) (mask not applicable)
static bool chk_mask(int type, int n, double w1, double w2, const arr_real& h, const std::string& js) {
    std::vector<Band> bands;
    if (type == LOW) bands = {{0, w1, true}, {w1, 1, false}};
    if (type == HIGH) bands = {{0, w1, false}, {w1, 1, true}};
    if (type == BPASS) bands = {{0, w1, false}, {w1, w2, true}, {w2, 1, false}};
    if (type == BSTOP) bands = {{0, w1, true}, {w1, w2, false}, {w2, 1, true}};
    const LD bw = 16.0L / (n + 1), tw = 4.0L / (n + 1);
    for (auto& b : bands) if (!(b.hi - b.lo > bw)) return false;
    std::vector<LD> mag;
    response(h, mag);
    LD wp = 0, ws = 0; int jp = -1, jst = -1;
    long long pts = 0;
    for (int j = 0; j <= NGRID; ++j) {
        const LD f = LD(j) / NGRID;
        for (auto& b : bands) {
            const LD lo = b.lo > 0 ? b.lo + tw : 0, hi = b.hi < 1 ? b.hi - tw : 1;
            if (f >= lo && f <= hi) {
                ++pts;
                if (b.pass) { const LD d = fabsl(mag[j] - 1); if (!(d <= wp)) { wp = d; jp = j; } }
                else { if (!(mag[j] <= ws)) { ws = mag[j]; jst = j; } }
            }
        }
    }
    out.stat("fir_mask_grid_points", pts);
    if (!(wp <= 0.02L)) out.fail("C11:fir1-mask-passband", js.substr(0, js.size() - 1) + ",\"f\":" + vh::jnum(double(jp) / NGRID) + ",\"abs_H\":" + vh::jnum(double(mag[jp])) + "}");
    if (!(ws <= 0.02L)) out.fail("C11:fir1-mask-stopband", js.substr(0, js.size() - 1) + ",\"f\":" + vh::jnum(double(jst) / NGRID) + ",\"abs_H\":" + vh::jnum(double(ws)) + "}");
    g_worst_pass_e6 = std::max(g_worst_pass_e6, (long long)(wp * 1e6L));
    g_worst_stop_e6 = std::max(g_worst_stop_e6, (long long)(ws * 1e6L));
    return true;
}

// one valid design: oracle (+ CORR if corr)
static void chk_fir(int type, int n, double w1, double w2, int wk, vh::Rng& rng, bool corr) {
    const int nn = required_len(type, n);
    arr_real win;
    if (wk != W_DEFAULT) win = make_win(wk, nn, rng);
    const std::string js = fir_json(type, n, w1, w2, wk, wk == W_DEFAULT ? nn : win.size());
    arr_real h;
    vh::set_current("C11:hang-or-crash:fir1", js);
    const bool ok = call_fir(type, n, w1, w2, wk == W_DEFAULT ? nullptr : &win, h);
    vh::clear_current();
    out.n_oracle++;
    out.stat(std::string("fir_") + ft_name[type] + (n % 2 ? "_odd" : "_even") + (wk == W_DEFAULT ? "_default" : "_custom"));
    if (corr) out.corr(fir_lhs(type, n, w1, w2, wk == W_DEFAULT ? nullptr : &win), ok ? vh::hxs(h) : std::string("ERR"));
    if (!ok) { out.fail("C11:fir1-threw", js); return; }
    out.sample(js.substr(0, js.size() - 1) + ",\"len\":" + std::to_string(h.size()) + "}");

    // length n+1 (n+2 for odd-order high-pass and band-stop)
    if (h.size() != nn) { out.fail("C11:fir1-length", js.substr(0, js.size() - 1) + ",\"got\":" + std::to_string(h.size()) + "}"); return; }
    const int M = h.size();
    // symmetric (linear phase)
    double hmax = 0, sd = 0;
    for (int k = 0; k < M; ++k) hmax = std::max(hmax, std::fabs(h[k]));
    for (int k = 0; k < M / 2; ++k) sd = std::max(sd, std::fabs(h[k] - h[M - 1 - k]));
    int nf_k = -1;
    for (int k = 0; k < M; ++k) if (!std::isfinite(h[k])) { nf_k = k; break; }
    if (nf_k >= 0) {
        // the prototype low-pass is normalised by the sum of its taps, which all underflow to 0 for a cut-off (or band width) of one or two denormal steps
        const double wproto = type == LOW ? w1 : type == HIGH ? 1 - w1 : 2 * ((w2 / 2 - w1 / 2) / 2);
        out.stat("fir_nonfinite_outputs");
        out.fail("C11:fir1-nonfinite", js.substr(0, js.size() - 1) + ",\"k\":" + std::to_string(nf_k) + ",\"got\":" + vh::jnum(h[nf_k]) +
                                           ",\"prototype_cutoff_denormal\":" + (wproto < DBL_MIN ? "true" : "false") + "}");
        return;
    }
    if (!(sd <= 2 * EPS * std::max(1.0, hmax))) out.fail("C11:fir1-symmetry", js.substr(0, js.size() - 1) + ",\"max_asym\":" + vh::jnum(sd) + "}");
    g_worst_sym_e18 = std::max(g_worst_sym_e18, (long long)(sd * 1e18));
    // fir1 is invariant under scaling the window (the taps are normalised by their sum) — when the prototype order is odd.
    // For an even prototype order the code sets the centre tap to 2 pi fc WITHOUT the window's centre value (equal to the
    // textbook design only if win[centre] = 1, as for every library window), so no invariance is demanded there.
    if (wk_scaled(wk) && ((nn - 1) % 2 == 0)) out.stat("fir_scaled_window_even_prototype_cases");
    const double wproto_sc = wk_scaled(wk) ? wk_scale(wk) * (type == LOW ? w1 : type == HIGH ? 1 - w1 : (w2 - w1) / 2) : 1;
    const double wproto_un = (type == LOW ? w1 : type == HIGH ? 1 - w1 : (w2 - w1) / 2);
    // (raw taps of EITHER design — the scaled-window one or the unscaled reference — in the denormal range: no precision left to compare)
    if (wk_scaled(wk) && ((nn - 1) % 2 == 1) && wproto_sc > 1e-290 && wproto_un > 1e-290) {
        arr_real ref = window::hamming(nn), h0;
        const bool ok0 = call_fir(type, n, w1, w2, &ref, h0);
        double d = 0;
        if (ok0 && h0.size() == M) for (int k = 0; k < M; ++k) d = std::max(d, std::fabs(h[k] - h0[k]));
        if (!ok0 || h0.size() != M || !(d <= 1e-12 * std::max(1.0, hmax)))
            out.fail("C11:fir1-window-scale-invariance", js.substr(0, js.size() - 1) + ",\"max_diff\":" + vh::jnum(d) + "}");
        g_worst_scale_e18 = std::max(g_worst_scale_e18, (long long)std::min(d * 1e18, 9e18));
        out.stat("fir_scaled_window_cases");
    }
    {   // the library's own classification must agree: symmetric type of the right parity
        const FirType t = firtype(h);
        const FirType want = (M % 2 == 1) ? FirType::EvenSymm : FirType::OddSym;
        if (t != want) out.fail("C11:fir1-firtype", js.substr(0, js.size() - 1) + ",\"firtype\":" + std::to_string(int(t)) + "}");
        if (corr) out.corr("firtype " + vh::hxs(h), std::to_string(int(t)));
    }
    // |H(0)| = 1 (low-pass), |H(pi)| = 1 (high-pass)
    if (type == LOW || type == HIGH) {
        LD s = 0;
        for (int k = 0; k < M; ++k) s += (type == HIGH && (k % 2)) ? -LD(h[k]) : LD(h[k]);
        const LD d = fabsl(fabsl(s) - 1);
        if (!(d <= 1e-12L)) out.fail(type == LOW ? "C11:fir1-dc-gain" : "C11:fir1-nyquist-gain", js.substr(0, js.size() - 1) + ",\"abs_H\":" + vh::jnum(double(fabsl(s))) + "}");
        g_worst_gain_e18 = std::max(g_worst_gain_e18, (long long)std::min<LD>(d * 1e18L, 9e18L));
    }
    // Hamming-design masks (default window, and the explicitly passed Hamming window)
    if (g_no_mask) out.stat("fir_beyond_fft_no_mask");
    else if (wk == W_DEFAULT || wk == W_HAMMING) {
        if (chk_mask(type, n, w1, w2, h, js)) out.stat(std::string("fir_mask_checked_") + ft_name[type]);
        else out.stat(std::string("fir_mask_not_applicable_") + ft_name[type]);
    }
}

static bool same_bits(const arr_real& a, const arr_real& b) {
    return a.size() == b.size() && (a.size() == 0 || std::memcmp(a.data(), b.data(), sizeof(real_t) * a.size()) == 0);
}

// a custom window of the wrong length must be rejected; a valid design computed before and after the rejected
// call must be bit-identical (the failed call leaves nothing behind)
static void chk_reject(int type, int n, double w1, double w2, int len, bool corr) {
    arr_real win = len > 0 ? window::hamming(std::max(len, 3)) : arr_real();
    if (len > 0 && len < 3) win = arr_real(win.slice(0, len));
    const std::string js = fir_json(type, n, w1, w2, W_HAMMING, len);
    arr_real h, before, after;
    const arr_real good = window::hann(required_len(type, n));
    vh::set_current("C11:hang-or-crash:fir1-wrong-window", js);
    const bool okb = call_fir(type, n, w1, w2, &good, before);
    const bool ok = call_fir(type, n, w1, w2, &win, h);
    const bool oka = call_fir(type, n, w1, w2, &good, after);
    arr_real dflt;
    const bool okd = call_fir(type, n, w1, w2, nullptr, dflt);
    vh::clear_current();
    out.n_oracle++;
    out.stat("fir_wrong_window_cases");
    if (corr) out.corr(fir_lhs(type, n, w1, w2, &win), ok ? vh::hxs(h) : std::string("ERR"));
    if (ok) out.fail("C11:fir1-wrong-window-accepted", js);
    if (!okb || !oka || !okd || !same_bits(before, after) || dflt.size() != required_len(type, n))
        out.fail("C11:fir1-after-rejected-call", js);
}

static void fir_sweep_order(int n, bool thorough, bool dense, vh::Rng& rng, bool corr) {
    // cut-off grid of (0.02, 0.98) + random
    std::vector<double> cuts;
    const int G = dense ? (thorough ? 48 : 12) : 6;
    for (int g = 0; g <= G; ++g) cuts.push_back(0.02 + 0.96 * g / G);
    cuts.front() = 0.0201; cuts.back() = 0.9799;   // open interval
    const int R = dense ? (thorough ? 6 : 2) : 2;
    for (int r = 0; r < R; ++r) cuts.push_back(0.02 + 0.96 * (0.0001 + 0.9998 * rng.unit()));
    int ci = 0;
    for (double w : cuts) {
        for (int type : {LOW, HIGH}) {
            const bool c = corr && (ci % (thorough ? 7 : 3) == 0);
            chk_fir(type, n, w, 0, W_DEFAULT, rng, c);
        }
        ++ci;
    }
    // band edges: pairs from the grid + random
    std::vector<std::pair<double, double>> pairs;
    const int GP = dense ? (thorough ? 9 : 4) : 3;
    for (int a = 0; a < GP; ++a)
        for (int b = a + 1; b <= GP; ++b) pairs.push_back({0.021 + 0.958 * a / GP, 0.021 + 0.958 * b / GP});
    for (int r = 0; r < R; ++r) {
        double a = 0.02 + 0.96 * (0.0001 + 0.9998 * rng.unit()), b = 0.02 + 0.96 * (0.0001 + 0.9998 * rng.unit());
        if (a > b) std::swap(a, b);
        if (b - a < 1e-3) b = std::min(0.9799, a + 0.05), a = std::min(a, b - 1e-3);
        pairs.push_back({a, b});
    }
    ci = 0;
    for (auto& pr : pairs) {
        for (int type : {BPASS, BSTOP}) {
            const bool c = corr && (ci % (thorough ? 9 : 4) == 0);
            chk_fir(type, n, pr.first, pr.second, W_DEFAULT, rng, c);
        }
        ++ci;
    }
    // custom windows: every kind, all four types, random cut-offs
    for (int wk = W_HAMMING; wk < NWK; ++wk) {
        if (!dense && wk != W_HAMMING && wk != W_PERTURBED && wk != W_PERIODIC && (wk + n) % 3) continue;
        const double w = 0.02 + 0.96 * (0.0001 + 0.9998 * rng.unit());
        double a = 0.02 + 0.96 * (0.0001 + 0.9998 * rng.unit()), b = 0.02 + 0.96 * (0.0001 + 0.9998 * rng.unit());
        if (a > b) std::swap(a, b);
        if (b - a < 1e-3) { a = 0.3; b = 0.6; }
        const bool c = corr && ((wk + n) % (thorough ? 2 : 3) == 0) && (wk <= W_PERIODIC || n <= 24 || (wk + n) % 4 == 0);   // (output volume)
        chk_fir(LOW, n, w, 0, wk, rng, c);
        chk_fir(HIGH, n, w, 0, wk, rng, c);
        chk_fir(BPASS, n, a, b, wk, rng, c);
        chk_fir(BSTOP, n, a, b, wk, rng, c);
    }
    // the explicitly passed Hamming window on a mask-relevant cut-off
    chk_fir(LOW, n, 0.5, 0, W_HAMMING, rng, false);
    chk_fir(HIGH, n, 0.5, 0, W_HAMMING, rng, false);
    chk_fir(BPASS, n, 0.3, 0.7, W_HAMMING, rng, false);
    chk_fir(BSTOP, n, 0.3, 0.7, W_HAMMING, rng, false);
    // wrong-length windows
    for (int type = 0; type < 4; ++type) {
        const int nn = required_len(type, n);
        const bool c = corr && (n % 4 == type || n % 4 == (type + 1) % 4);
        chk_reject(type, n, 0.4, 0.7, nn - 1, c);
        chk_reject(type, n, 0.4, 0.7, nn + 1, c);
        if (dense) {
            chk_reject(type, n, 0.4, 0.7, 0, false);
            chk_reject(type, n, 0.4, 0.7, 1, false);
            chk_reject(type, n, 0.4, 0.7, 2 * nn, c);
            if (nn == n + 2) chk_reject(type, n, 0.4, 0.7, n + 1, c);   // the natural but wrong choice for odd-order high-pass / band-stop
            else if (n % 2 == 1) chk_reject(type, n, 0.4, 0.7, n + 2, c);
        }
    }
}

// ------------------------------------------------------------------------------------------------ boundary-directed inputs
static const double DENORM = 4.9406564584124654e-324;
static double up(double x, int k = 1) { for (; k > 0; --k) x = std::nextafter(x, INFINITY); return x; }
static double dn(double x, int k = 1) { for (; k > 0; --k) x = std::nextafter(x, -INFINITY); return x; }
static void around(std::vector<double>& v, double c, int k = 2) {
    for (int j = k; j >= 1; --j) v.push_back(dn(c, j));
    v.push_back(c);
    for (int j = 1; j <= k; ++j) v.push_back(up(c, j));
}
// positive magnitudes from the smallest denormal to 1e-4 (the classes lesson 1 / lesson 6 ask for)
static std::vector<double> tiny_scales() {
    return {DENORM, 2 * DENORM, 1e-320, 1e-310, dn(DBL_MIN), DBL_MIN, up(DBL_MIN), 3e-308, 3.4e-308, 3.6e-308, 4e-308, 1e-307, 1e-300, 1e-200, 1e-100,
            1e-30, 1e-20, 1e-17, EPS / 2, dn(EPS), EPS, up(EPS), 2 * EPS, 1e-15, 1e-12, 1e-9, 1e-8, 1e-4, 0.0009765625 /* 2^-10 */};
}

static std::vector<double> tukey_boundary_params(int n, vh::Rng& rng) {
    std::vector<double> v;
    around(v, -0.5, 1);
    for (double t : {1e-8, 1e-300, DBL_MIN, DENORM}) v.push_back(-t);
    v.push_back(-0.0); v.push_back(0.0);
    for (double t : tiny_scales()) v.push_back(t);
    v.push_back(0.25); around(v, 0.5, 1); v.push_back(1 - 1e-8);
    around(v, 1.0, 2); v.push_back(1 + 1e-8);
    around(v, 1.5, 1);
    // the taper covers floor(r/2 (n-1)) + 1 points: r = 2k/(n-1) is the internal branch boundary
    std::vector<int> ks = {1, (n - 1) / 4, (n - 1) / 2 - 1, rng.range(1, std::max(1, (n - 1) / 2))};
    for (int k : ks) {
        const double r0 = 2.0 * k / (n - 1);
        if (k >= 1 && r0 > 0 && r0 < 1) around(v, r0, 1);
    }
    // random: log-uniform over (1e-323, 1); a random denormal; a random neighbour (<= 4 ulps) of 0+, eps, 1
    v.push_back(std::pow(10.0, -323.0 * rng.unit()));
    v.push_back(std::pow(10.0, -20.0 * rng.unit()));
    v.push_back(DENORM * rng.range(1, 1 << 30));
    v.push_back(up(EPS, rng.range(0, 4))); v.push_back(dn(EPS, rng.range(1, 4)));
    v.push_back(dn(1.0, rng.range(1, 4))); v.push_back(up(0.0, rng.range(1, 4)));
    return v;
}
static std::vector<double> gauss_boundary_params(vh::Rng& rng) {
    std::vector<double> v = {0.0, -0.0, DENORM, DBL_MIN, 1e-300, 1e-100, 1e-17, EPS, 1e-8, 1e-4, 1.0, 2.0, 4.0, -0.5, -2.5, -6.0,
                             10.0, 26.0, 37.0, 38.0, 38.5, 38.6, 38.7, 39.0, 100.0, 1e8, 1e100, 1e153, 1.3e154, 1.4e154, 1e200, 1e308, DBL_MAX};
    around(v, 0.5, 1); around(v, 6.0, 1);
    v.push_back(std::pow(10.0, 600.0 * rng.unit() - 300.0));
    v.push_back(std::pow(10.0, 3.0 * rng.unit() - 1.0));
    return v;
}
static std::vector<double> kaiser_boundary_params(vh::Rng& rng) {
    std::vector<double> v = {0.0, -0.0, DENORM, DBL_MIN, 1e-300, 1e-200, 1e-160, 1e-100, 1e-17, EPS, 1e-8, 1e-4, 0.0009765625, 0.5, 1.0, 2.0, 4.0, 8.0, 16.0, 32.0, 39.999};
    around(v, 40.0, 1);
    v.push_back(std::pow(10.0, -323.0 * rng.unit()));
    v.push_back(dn(40.0, rng.range(1, 1000)));
    v.push_back(40.0 * std::pow(10.0, -3.0 * rng.unit()));
    return v;
}

static void window_boundary_probes(bool thorough, vh::Rng& rng) {
    std::vector<int> ns = {3, 4, 5, 16, 17, 64, 255};
    if (thorough) {
        ns.clear();
        for (int n = 3; n <= 40; ++n) ns.push_back(n);
        for (int n : {63, 64, 65, 100, 127, 128, 255, 256, 257, 512, 1000, 4097, 100000}) ns.push_back(n);
    }
    long long cnt = 0;
    for (int n : ns) {
        const CorrMode cm = n <= 64 ? FULL : (n <= 5000 ? DIGEST : NOCORR);
        for (double r : tukey_boundary_params(n, rng)) { chk_window(TUKEY, n, true, r, cm); ++cnt; }
        for (double al : gauss_boundary_params(rng))
            for (int sym = 1; sym >= 0; --sym) { chk_window(GAUSS, n, sym, al, cm); ++cnt; }
        for (double b : kaiser_boundary_params(rng)) { chk_window(KAISER, n, true, b, cm); ++cnt; }
    }
    out.stats["win_boundary_parameter_cases"] = cnt;
    // lengths beyond the sweep limit (first such call arrives after all the smaller ones)
    std::vector<int> big = {131073};
    if (thorough) big = {65535, 65536, 65537, 100001, 131071, 131072, 131073, 262144, 1000003};
    for (int n : big)
        for (int fam = 0; fam < NFAM; ++fam) {
            std::vector<double> ps = {0};
            if (fam == GAUSS) ps = {2.5, 6.0};
            if (fam == TUKEY) ps = {1e-300, 0.5, dn(1.0)};
            if (fam == KAISER) ps = {1e-8, 40.0};
            for (double p : ps)
                for (int sym = 1; sym >= 0; --sym) {
                    if (!sym && !fam_has_periodic(fam)) continue;
                    chk_window(fam, n, sym, p, NOCORR);
                    out.stat("win_beyond_sweep_limit_cases");
                }
        }
}

static void fir_boundary_probes(bool thorough, vh::Rng& rng) {
    std::vector<int> orders = {1, 2, 3, 8, 9, 64};
    if (thorough) orders = {1, 2, 3, 4, 5, 6, 7, 8, 9, 16, 17, 63, 64, 255, 256, 1999, 2000, 2001, 2047, 2048, 4095, 4096, 8189, 8190};   // (8190 + 2 taps is the largest response the 8192-point FFT holds)
    std::vector<double> cuts = {DENORM, 2 * DENORM, 1e-310, DBL_MIN, 1e-300, 1e-100, 1e-17, EPS, 1e-8, 1e-4, 0.25, 0.75, 1 - 1e-4, 1 - 1e-8, 1 - EPS, dn(1.0)};
    around(cuts, 0.02, 1); around(cuts, 0.5, 1); around(cuts, 0.98, 1);
    cuts.push_back(std::pow(10.0, -323.0 * rng.unit()));
    cuts.push_back(1 - std::pow(10.0, -16.0 * rng.unit()));
    std::vector<std::pair<double, double>> pairs = {
        {DENORM, dn(1.0)}, {DENORM, 2 * DENORM}, {DBL_MIN, 2 * DBL_MIN}, {1e-300, 0.5}, {0.5, dn(1.0)}, {1e-8, 1 - 1e-8}, {EPS, 2 * EPS},
        {0.02, up(0.02)}, {0.5, up(0.5)}, {dn(0.5), 0.5}, {dn(0.98), 0.98}, {dn(1.0, 2), dn(1.0)}, {up(0.02), dn(0.98)}, {0.25, 0.75}, {0.3, 0.3 + 1e-9}};
    long long cnt = 0;
    for (int n : orders) {
        const bool corr = n <= 64;
        for (double w : cuts) {
            chk_fir(LOW, n, w, 0, W_DEFAULT, rng, corr);
            chk_fir(HIGH, n, w, 0, W_DEFAULT, rng, corr);
            cnt += 2;
        }
        for (auto& pr : pairs) {
            chk_fir(BPASS, n, pr.first, pr.second, W_DEFAULT, rng, corr);
            chk_fir(BSTOP, n, pr.first, pr.second, W_DEFAULT, rng, corr);
            cnt += 2;
        }
        // boundary cut-offs with custom windows (incl. scaled / periodic / zero-padded ones)
        for (int wk : {W_HANN, W_KAISER, W_PERIODIC, W_NEGZERO, W_ZEROPAD, W_SC_M300, W_SC_P100, W_PERTURBED}) {
            const double w = cuts[rng.range(0, int(cuts.size()) - 1)];
            const auto& pr = pairs[rng.range(0, int(pairs.size()) - 1)];
            chk_fir(LOW, n, w, 0, wk, rng, corr && n <= 16);
            chk_fir(HIGH, n, w, 0, wk, rng, corr && n <= 16);
            chk_fir(BPASS, n, pr.first, pr.second, wk, rng, corr && n <= 16);
            chk_fir(BSTOP, n, pr.first, pr.second, wk, rng, corr && n <= 16);
            cnt += 4;
        }
    }
    out.stats["fir_boundary_cases"] = cnt;
    // orders whose response does not fit the long-double FFT: everything but the masks (first large call after many small ones)
    g_no_mask = true;
    std::vector<int> big = {65536, 131073};
    if (thorough) big = {8192, 10000, 49152, 65535, 65536, 65537, 100000, 131071, 131072, 131073, 196608};
    for (int n : big) {
        const double w = 0.02 + 0.96 * rng.unit();
        for (int wk : {W_DEFAULT, W_KAISER, W_PERIODIC}) {
            chk_fir(LOW, n, w, 0, wk, rng, false);
            chk_fir(HIGH, n, w, 0, wk, rng, false);
            chk_fir(BPASS, n, 0.3, 0.6, wk, rng, false);
            chk_fir(BSTOP, n, 0.3, 0.6, wk, rng, false);
        }
        chk_reject(LOW, n, 0.4, 0.7, n, false);
        chk_reject(HIGH, n, 0.4, 0.7, n + 1 + (n % 2 == 0), false);
    }
    g_no_mask = false;
}

// results built from temporaries / bound to references / copied must equal those from named operands bit for bit
static void value_category_probes(bool thorough, vh::Rng& rng) {
    std::vector<int> ns = {3, 8, 33};
    if (thorough) for (int n = 4; n <= 70; n += 3) ns.push_back(n);
    for (int n : ns) {
        const double w1 = 0.02 + 0.5 * rng.unit(), w2 = w1 + 0.01 + 0.4 * rng.unit(), r = rng.unit(), be = 40 * rng.unit();
        const std::string js = "{\"op\":\"value-category\",\"n\":" + std::to_string(n) + ",\"wn1\":" + vh::jnum(w1) + ",\"wn2\":" + vh::jnum(w2) + ",\"r\":" + vh::jnum(r) + ",\"beta\":" + vh::jnum(be) + "}";
        vh::set_current("C11:hang-or-crash:value-category", js);
        bool ok = true;
        try {
            for (int type = 0; type < 4; ++type) {
                const int nn = required_len(type, n);
                const arr_real named = window::kaiser(nn, be);
                arr_real a, b, c;
                call_fir(type, n, w1, w2, &named, a);
                const arr_real copy = named;   // a copy of the window is an independent, equal window
                call_fir(type, n, w1, w2, &copy, c);
                if (type == LOW) b = fir1(n, w1, FilterType::Low, window::kaiser(nn, be));
                if (type == HIGH) b = fir1(n, w1, FilterType::High, window::kaiser(nn, be));
                if (type == BPASS) b = fir1(n, w1, w2, FilterType::Bandpass, window::kaiser(nn, be));
                if (type == BSTOP) b = fir1(n, w1, w2, FilterType::Bandstop, window::kaiser(nn, be));
                const arr_real& bound = fir1(n, w1, FilterType::Low, window::hamming(n + 1));   // temporary bound to const&
                const arr_real dflt = fir1(n, w1, FilterType::Low);
                if (!same_bits(a, b) || !same_bits(a, c) || !same_bits(bound, dflt) || a.size() != nn) ok = false;
                if (!same_bits(named, window::kaiser(nn, be))) ok = false;   // the window argument is not modified
            }
            const arr_real& tw = window::tukey(n, r);
            const arr_real tn = window::tukey(n, r);
            int k = 0;
            for (double x : window::tukey(n, r)) { if (std::memcmp(&x, &tn[k], sizeof x)) ok = false; ++k; }
            if (k != n || !same_bits(tw, tn)) ok = false;
            // repeated calls with interleaved other parameters return the same bits (no hidden state)
            const arr_real g1 = window::gauss(n, 2.5), k1 = window::kaiser(n, be);
            (void)window::gauss(n, 0.5); (void)window::kaiser(n + 1, 1.0); (void)window::tukey(n, 1e-300);
            if (!same_bits(g1, window::gauss(n, 2.5)) || !same_bits(k1, window::kaiser(n, be)) || !same_bits(tn, window::tukey(n, r))) ok = false;
        } catch (const std::exception&) { ok = false; }
        vh::clear_current();
        out.n_oracle++;
        out.stat("value_category_cases");
        if (!ok) out.fail("C11:value-category", js);
    }
}

int main(int argc, char** argv) {
    vh::Args a(argc, argv);
    vh::install_guards();
    vh::Rng rng(a.seed);
    fft_init();
    vh::watch(a.thorough ? 3000 : 600);

    // -------------------------------------------------------------------------------- windows
    const std::vector<double> gauss_grid = {0.5, 1.0, 2.5, 4.0, 6.0};
    const std::vector<double> tukey_grid = {-0.5, 0.0, 1e-9, 0.1, 0.25, 1.0 / 3, 0.5, 0.75, 0.9, 0.999999, 1.0, 1.5};
    const std::vector<double> kaiser_grid = {0.0, 0.5, 1.0, 2.0, 5.0, 8.6, 12.0, 20.0, 30.0, 38.0, 40.0};
    auto params_for = [&](int fam, int n, bool all) {
        std::vector<double> ps;
        if (!fam_has_param(fam)) { ps.push_back(0); return ps; }
        const std::vector<double>& g = fam == GAUSS ? gauss_grid : fam == TUKEY ? tukey_grid : kaiser_grid;
        if (all) ps = g;
        else { ps.push_back(g[n % g.size()]); ps.push_back(g[(n * 7 + 3) % g.size()]); }
        // random parameter of the property's range
        const double u = rng.unit();
        ps.push_back(fam == GAUSS ? 0.5 + 5.5 * u : fam == TUKEY ? -0.5 + 2.0 * u : 40.0 * u);
        // boundary-directed random parameter: log-uniform magnitude (tukey (1e-323, 1), gauss (1e-300, 1e300), kaiser (1e-323, 40))
        const double v = rng.unit();
        ps.push_back(fam == GAUSS ? std::pow(10.0, 600.0 * v - 300.0) : fam == TUKEY ? std::pow(10.0, -323.0 * v) : 40.0 * std::pow(10.0, -324.6 * v));
        return ps;
    };
    const int NW = a.thorough ? 512 : 96;
    for (int n = 3; n <= NW; ++n) {
        for (int fam = 0; fam < NFAM; ++fam) {
            const bool all = a.thorough ? (n <= 128 || n % 8 == 0) : (n <= 24);
            const std::vector<double> ps = params_for(fam, n, all);
            int pi_ = 0;
            for (double p : ps) {
                for (int sym = 1; sym >= 0; --sym) {
                    if (!sym && !fam_has_periodic(fam)) continue;
                    CorrMode cm = NOCORR;
                    if (n <= 40) cm = (pi_ < 3 || pi_ + 1 == (int)ps.size() || n <= 12) ? FULL : NOCORR;
                    else if ((n + fam) % (a.thorough ? 4 : 8) == 0 && (pi_ == 0 || pi_ + 1 == (int)ps.size())) cm = FULL;
                    chk_window(fam, n, sym, p, cm);
                }
                ++pi_;
            }
        }
    }
    // sampled lengths up to 1e5 (log-uniform) + the boundary itself
    {
        std::vector<int> big = {513, 1000, 1023, 1024, 4097, 99999, 100000};
        const int NS = a.thorough ? 40 : 6;
        for (int i = 0; i < NS; ++i) big.push_back(int(std::floor(513 * std::pow(100000.0 / 513, rng.unit()))));
        if (!a.thorough) big = {513, 1024, 4097, 100000, big[7], big[8], big[9], big[10], big[11], big[12]};
        int bi = 0;
        for (int n : big) {
            for (int fam = 0; fam < NFAM; ++fam) {
                std::vector<double> ps = params_for(fam, n, false);
                if (fam == KAISER) ps.push_back(40.0);
                int pi_ = 0;
                for (double p : ps) {
                    for (int sym = 1; sym >= 0; --sym) {
                        if (!sym && !fam_has_periodic(fam)) continue;
                        chk_window(fam, n, sym, p, (pi_ == 0 || pi_ + 1 == (int)ps.size()) && (bi % 2 == 0 || n <= 5000) ? DIGEST : NOCORR);
                    }
                    ++pi_;
                }
            }
            ++bi;
        }
    }
    const auto t0 = std::chrono::steady_clock::now();
    auto ms_since = [&](std::chrono::steady_clock::time_point t) { return (long long)std::chrono::duration_cast<std::chrono::milliseconds>(std::chrono::steady_clock::now() - t).count(); };
    window_boundary_probes(a.thorough, rng);
    out.stats["time_ms_window_boundary_probes"] = ms_since(t0);
    for (int fam = 0; fam < NFAM; ++fam) out.stats[std::string("win_worst_err_1e-18_") + fam_name[fam]] = g_worst_win_err_e18[fam];

    // -------------------------------------------------------------------------------- fir1
    const int NO = a.thorough ? 256 : 48;
    for (int n = 2; n <= NO; ++n) fir_sweep_order(n, a.thorough, true, rng, n <= (a.thorough ? 256 : 48) && (n <= 40 || n % (a.thorough ? 3 : 4) == 0));
    {
        std::vector<int> big = {63, 64, 100, 127, 128, 255, 256, 257, 500, 999, 1000, 1999, 2000};
        const int NS = a.thorough ? 60 : 6;
        for (int i = 0; i < NS; ++i) big.push_back(int(std::floor(49 * std::pow(2000.0 / 49, rng.unit()))));
        int bi = 0;
        for (int n : big) { fir_sweep_order(n, a.thorough, false, rng, bi % 5 == 0 && n <= 600); ++bi; }
    }
    const auto t1 = std::chrono::steady_clock::now();
    fir_boundary_probes(a.thorough, rng);
    out.stats["time_ms_fir_boundary_probes"] = ms_since(t1);
    value_category_probes(a.thorough, rng);
    out.stats["fir_worst_scale_invariance_diff_1e-18"] = g_worst_scale_e18;
    out.stats["fir_worst_passband_dev_1e-6"] = g_worst_pass_e6;
    out.stats["fir_worst_stopband_1e-6"] = g_worst_stop_e6;
    out.stats["fir_worst_gain_err_1e-18"] = g_worst_gain_e18;
    out.stats["fir_worst_asym_1e-18"] = g_worst_sym_e18;
    vh::unwatch();
    out.finish();
    return 0;
}
