// C11 — FIR and window designs meet their closed-form specifications.
//
// ORACLE (long double): every window against its textbook closed form, range, symmetry, periodic = prefix of
// symmetric n+1; fir1: length, symmetry, |H(0)| / |H(pi)|, Hamming-design masks on a 4096-point response grid,
// wrong-length custom windows rejected.
// CORR: window vectors (tag `win`, digests `wind` for long ones), fir1 impulse responses (tag `fir`),
// firtype (tag `firtype`), besseli0 through kaiser(3, beta) (inside `win`).
#include "common.hpp"
#include <algorithm>
using namespace dsplib;
typedef long double LD;
static vh::Out out;
static const LD PI_L = 3.14159265358979323846264338327950288L;
static const double EPS = 2.220446049250313e-16;

// ------------------------------------------------------------------------------------------------ windows
enum Fam { HANN = 0, HAMMING, BLACKMAN, BHARRIS, GAUSS, COSINE, TUKEY, KAISER, NFAM };
static const char* fam_name[NFAM] = {"hann", "hamming", "blackman", "blackmanharris", "gauss", "cosine", "tukey", "kaiser"};
static bool fam_has_periodic(int f) { return f != TUKEY && f != KAISER; }
static bool fam_has_param(int f) { return f == GAUSS || f == TUKEY || f == KAISER; }

static arr_real call_win(int fam, int n, bool sym, double p) {
    switch (fam) {
    case HANN: return window::hann(n, sym);
    case HAMMING: return window::hamming(n, sym);
    case BLACKMAN: return window::blackman(n, sym);
    case BHARRIS: return window::blackmanharris(n, sym);
    case GAUSS: return window::gauss(n, p, sym);
    case COSINE: return window::cosine(n, sym);
    case TUKEY: return window::tukey(n, p);
    default: return window::kaiser(n, p);
    }
}

// I0 summed to convergence in long double
static LD bessel_i0_ld(LD x) {
    const LD q = (x / 2) * (x / 2);
    LD term = 1, r = 1;
    for (int k = 1; k < 100000; ++k) {
        term *= q / (LD(k) * LD(k));
        r += term;
        if (term < r * 1e-24L) break;
    }
    return r;
}

// textbook closed form of point k of the length-N symmetric window (N >= 2)
static LD win_ref(int fam, int N, int k, LD p, LD i0beta) {
    const LD x = LD(k) / LD(N - 1);   // position in [0, 1]
    switch (fam) {
    case HANN: return 0.5L - 0.5L * cosl(2 * PI_L * x);
    case HAMMING: return 0.54L - 0.46L * cosl(2 * PI_L * x);
    case BLACKMAN: return 0.42L - 0.5L * cosl(2 * PI_L * x) + 0.08L * cosl(4 * PI_L * x);
    case BHARRIS: return 0.35875L - 0.48829L * cosl(2 * PI_L * x) + 0.14128L * cosl(4 * PI_L * x) - 0.01168L * cosl(6 * PI_L * x);
    case GAUSS: {
        const LD half = LD(N - 1) / 2;
        const LD t = (LD(k) - half) / half;
        return expl(-0.5L * (p * t) * (p * t));
    }
    case COSINE: return sinl(PI_L * (LD(k) + 0.5L) / LD(N));
    case TUKEY: {
        if (p <= 0) return 1;
        if (p >= 1) return 0.5L - 0.5L * cosl(2 * PI_L * x);
        if (x < p / 2) return 0.5L * (1 + cosl(2 * PI_L / p * (x - p / 2)));
        if (x > 1 - p / 2) return 0.5L * (1 + cosl(2 * PI_L / p * (x - 1 + p / 2)));
        return 1;
    }
    default: {
        const LD u = 2 * x - 1;
        LD a = 1 - u * u;
        if (a < 0) a = 0;
        return bessel_i0_ld(p * sqrtl(a)) / i0beta;
    }
    }
}

static std::string win_json(int fam, int n, bool sym, double p) {
    return std::string("{\"op\":\"window\",\"family\":\"") + fam_name[fam] + "\",\"n\":" + std::to_string(n) + ",\"sym\":" + (sym ? "true" : "false") +
           ",\"param\":" + vh::jnum(p) + "}";
}

static long long g_worst_win_err_e18[NFAM] = {0};   // worst |impl - closed form| (relative for kaiser), in 1e-18 units

enum CorrMode { NOCORR = 0, FULL, DIGEST };

static void chk_window(int fam, int n, bool sym, double p, CorrMode cm) {
    const std::string js = win_json(fam, n, sym, p);
    const std::string f = fam_name[fam];
    vh::set_current("C11:hang-or-crash:window-" + f, js);
    arr_real w;
    try {
        w = call_win(fam, n, sym, p);
    } catch (const std::exception&) {
        vh::clear_current();
        out.fail("C11:window-threw:" + f, js);
        if (cm != NOCORR) out.corr(std::string(cm == FULL ? "win " : "wind ") + f + " " + std::to_string(n) + " " + (sym ? "1" : "0") + " " + vh::hx(p), "ERR");
        return;
    }
    vh::clear_current();
    out.n_oracle++;
    out.stat(std::string("win_") + f + (sym ? "_sym" : "_per"));
    if (cm == FULL) out.corr("win " + f + " " + std::to_string(n) + " " + (sym ? "1" : "0") + " " + vh::hx(p), vh::hxs(w));
    if (cm == DIGEST && w.size() == n) {
        const int m = n / 2;
        double mean = 0, wm = 0;
        for (int i = 0; i < n; ++i) { mean += w[i]; wm += w[i] * (double(i + 1) / n); }
        mean /= n; wm /= n;
        out.corr("wind " + f + " " + std::to_string(n) + " " + (sym ? "1" : "0") + " " + vh::hx(p),
                 std::to_string(w.size()) + " " + vh::hx(w[0]) + " " + vh::hx(w[1]) + " " + vh::hx(w[m - 1]) + " " + vh::hx(w[m]) + " " + vh::hx(w[n - 2]) + " " +
                     vh::hx(w[n - 1]) + " " + vh::hx(w[n / 3]) + " " + vh::hx(w[(2 * n) / 3 + 1]) + " " + vh::hx(mean) + " " + vh::hx(wm));
    }
    if (w.size() != n) { out.fail("C11:window-length:" + f, js); return; }

    // (a) textbook closed form, (b) range
    const int N = sym ? n : n + 1;
    const LD i0b = fam == KAISER ? bessel_i0_ld(p) : 1;
    const LD tol = 1e-12L;
    bool bad_cf = false, bad_rg = false;
    int bad_k = -1;
    LD worst = 0;
    for (int k = 0; k < n; ++k) {
        const LD ref = win_ref(fam, N, k, p, i0b);
        LD err = fabsl(LD(w[k]) - ref);
        if (fam == KAISER) err /= ref;   // relative: kaiser end points are as small as 1/I0(40) ~ 7e-17
        if (!(err <= tol)) { if (!bad_cf) bad_k = k; bad_cf = true; }
        if (err > worst) worst = err;
        if (!(w[k] >= -1e-15 && w[k] <= 1 + 1e-15)) { if (!bad_rg) bad_k = k; bad_rg = true; }
    }
    const long long we = (long long)std::min<LD>(worst * 1e18L, 9e18L);
    if (we > g_worst_win_err_e18[fam]) g_worst_win_err_e18[fam] = we;
    if (bad_cf) out.fail("C11:window-closed-form:" + f, js.substr(0, js.size() - 1) + ",\"k\":" + std::to_string(bad_k) + ",\"got\":" + vh::jnum(w[bad_k]) + "}");
    if (bad_rg) out.fail("C11:window-range:" + f, js.substr(0, js.size() - 1) + ",\"k\":" + std::to_string(bad_k) + ",\"got\":" + vh::jnum(w[bad_k]) + "}");

    // (c) symmetric variant symmetric about its centre
    if (sym) {
        for (int k = 0; k < n / 2; ++k)
            if (!(std::fabs(w[k] - w[n - 1 - k]) <= 4 * EPS)) {
                out.fail("C11:window-symmetry:" + f, js.substr(0, js.size() - 1) + ",\"k\":" + std::to_string(k) + "}");
                break;
            }
    } else {
        // (d) periodic n = first n points of symmetric n+1
        vh::set_current("C11:hang-or-crash:window-" + f, win_json(fam, n + 1, true, p));
        arr_real ws;
        try { ws = call_win(fam, n + 1, true, p); } catch (const std::exception&) {}
        vh::clear_current();
        bool ok = ws.size() == n + 1;
        int kk = -1;
        for (int k = 0; ok && k < n; ++k)
            if (!(std::fabs(w[k] - ws[k]) <= 4 * EPS)) { ok = false; kk = k; }
        if (!ok) out.fail("C11:window-periodic-prefix:" + f, js.substr(0, js.size() - 1) + ",\"k\":" + std::to_string(kk) + "}");
    }
}

// ------------------------------------------------------------------------------------------------ fir1
enum FT { LOW = 0, HIGH, BPASS, BSTOP };
static const char* ft_name[4] = {"low", "high", "bandpass", "bandstop"};

// custom-window kinds (0 = default window overload)
enum WK { W_DEFAULT = 0, W_HAMMING, W_HANN, W_BLACKMAN, W_KAISER, W_GAUSS, W_TUKEY, W_COSINE, W_BHARRIS, W_PERTURBED, NWK };
static const char* wk_name[NWK] = {"default", "hamming", "hann", "blackman", "kaiser5", "gauss2.5", "tukey0.5", "cosine", "blackmanharris", "perturbed-hamming"};

static arr_real make_win(int kind, int len, vh::Rng& rng) {
    switch (kind) {
    case W_HAMMING: return window::hamming(len);
    case W_HANN: return window::hann(len);
    case W_BLACKMAN: return window::blackman(len);
    case W_KAISER: return window::kaiser(len, 5.0);
    case W_GAUSS: return window::gauss(len, 2.5);
    case W_TUKEY: return window::tukey(len, 0.5);
    case W_COSINE: return window::cosine(len);
    case W_BHARRIS: return window::blackmanharris(len);
    default: {
        arr_real w = window::hamming(len);
        for (int i = 0; i < len; ++i) w[i] *= 0.8 + 0.4 * rng.unit();   // deliberately NOT symmetric
        return w;
    }
    }
}

static int required_len(int type, int n) { return ((n % 2 == 1) && (type == HIGH || type == BSTOP)) ? n + 2 : n + 1; }

// returns false if the library threw
static bool call_fir(int type, int n, double w1, double w2, const arr_real* win, arr_real& h) {
    try {
        if (type == LOW || type == HIGH) {
            const FilterType t = type == LOW ? FilterType::Low : FilterType::High;
            h = win ? fir1(n, w1, t, *win) : fir1(n, w1, t);
        } else {
            const FilterType t = type == BPASS ? FilterType::Bandpass : FilterType::Bandstop;
            h = win ? fir1(n, w1, w2, t, *win) : fir1(n, w1, w2, t);
        }
        return true;
    } catch (const std::exception&) {
        return false;
    }
}

static std::string fir_json(int type, int n, double w1, double w2, int wk, int wlen) {
    return std::string("{\"op\":\"fir1\",\"type\":\"") + ft_name[type] + "\",\"n\":" + std::to_string(n) + ",\"wn1\":" + vh::jnum(w1) +
           ((type >= BPASS) ? (",\"wn2\":" + vh::jnum(w2)) : std::string()) + ",\"window\":\"" + wk_name[wk] + "\",\"window_len\":" + std::to_string(wlen) + "}";
}

static std::string fir_lhs(int type, int n, double w1, double w2, const arr_real* win) {
    return std::string("fir ") + std::to_string(type) + " " + std::to_string(n) + " " + vh::hx(w1) + " " + vh::hx(w2) + " " + (win ? ("1 " + vh::hxs(*win)) : std::string("0"));
}

// ---- long double FFT of size 8192: H(f_j), f_j = j/4096 (Nyquist = 1), j = 0..4096
static const int NFFT = 8192, NGRID = 4096;
static std::vector<LD> tw_re, tw_im;
static std::vector<int> bitrev;
static void fft_init() {
    tw_re.resize(NFFT / 2); tw_im.resize(NFFT / 2);
    for (int i = 0; i < NFFT / 2; ++i) { tw_re[i] = cosl(2 * PI_L * i / NFFT); tw_im[i] = -sinl(2 * PI_L * i / NFFT); }
    bitrev.resize(NFFT);
    int bits = 0; while ((1 << bits) < NFFT) ++bits;
    for (int i = 0; i < NFFT; ++i) { int r = 0; for (int b = 0; b < bits; ++b) if (i & (1 << b)) r |= 1 << (bits - 1 - b); bitrev[i] = r; }
}
static void response(const arr_real& h, std::vector<LD>& mag) {
    static std::vector<LD> re(NFFT), im(NFFT);
    const int M = h.size();
    std::fill(re.begin(), re.end(), 0.0L); std::fill(im.begin(), im.end(), 0.0L);
    if (M <= NFFT) {
        for (int k = 0; k < M; ++k) re[bitrev[k]] = h[k];
        for (int len = 2; len <= NFFT; len <<= 1) {
            const int half = len / 2, step = NFFT / len;
            for (int s = 0; s < NFFT; s += len)
                for (int j = 0; j < half; ++j) {
                    const LD wr = tw_re[j * step], wi = tw_im[j * step];
                    const LD xr = re[s + j + half] * wr - im[s + j + half] * wi, xi = re[s + j + half] * wi + im[s + j + half] * wr;
                    re[s + j + half] = re[s + j] - xr; im[s + j + half] = im[s + j] - xi;
                    re[s + j] += xr; im[s + j] += xi;
                }
        }
        mag.resize(NGRID + 1);
        for (int j = 0; j <= NGRID; ++j) mag[j] = sqrtl(re[j] * re[j] + im[j] * im[j]);
    } else {   // direct (never needed for n <= 2000)
        mag.resize(NGRID + 1);
        for (int j = 0; j <= NGRID; ++j) {
            LD a = 0, b = 0;
            for (int k = 0; k < M; ++k) { a += h[k] * cosl(PI_L * j * k / NGRID); b -= h[k] * sinl(PI_L * j * k / NGRID); }
            mag[j] = sqrtl(a * a + b * b);
        }
    }
}

static long long g_worst_pass_e6 = 0, g_worst_stop_e6 = 0, g_worst_gain_e18 = 0, g_worst_sym_e18 = 0;

struct Band { LD lo, hi; bool pass; };

// Hamming-design masks; returns false when some band is not wider than 16/(n+1) (mask not applicable)
static bool chk_mask(int type, int n, double w1, double w2, const arr_real& h, const std::string& js) {
    std::vector<Band> bands;
    if (type == LOW) bands = {{0, w1, true}, {w1, 1, false}};
    if (type == HIGH) bands = {{0, w1, false}, {w1, 1, true}};
    if (type == BPASS) bands = {{0, w1, false}, {w1, w2, true}, {w2, 1, false}};
    if (type == BSTOP) bands = {{0, w1, true}, {w1, w2, false}, {w2, 1, true}};
    const LD bw = 16.0L / (n + 1), tw = 4.0L / (n + 1);
    for (auto& b : bands) if (!(b.hi - b.lo > bw)) return false;
    std::vector<LD> mag;
    response(h, mag);
    LD wp = 0, ws = 0; int jp = -1, jst = -1;
    long long pts = 0;
    for (int j = 0; j <= NGRID; ++j) {
        const LD f = LD(j) / NGRID;
        for (auto& b : bands) {
            const LD lo = b.lo > 0 ? b.lo + tw : 0, hi = b.hi < 1 ? b.hi - tw : 1;
            if (f >= lo && f <= hi) {
                ++pts;
                if (b.pass) { const LD d = fabsl(mag[j] - 1); if (!(d <= wp)) { wp = d; jp = j; } }
                else { if (!(mag[j] <= ws)) { ws = mag[j]; jst = j; } }
            }
        }
    }
    out.stat("fir_mask_grid_points", pts);
    if (!(wp <= 0.02L)) out.fail("C11:fir1-mask-passband", js.substr(0, js.size() - 1) + ",\"f\":" + vh::jnum(double(jp) / NGRID) + ",\"abs_H\":" + vh::jnum(double(mag[jp])) + "}");
    if (!(ws <= 0.02L)) out.fail("C11:fir1-mask-stopband", js.substr(0, js.size() - 1) + ",\"f\":" + vh::jnum(double(jst) / NGRID) + ",\"abs_H\":" + vh::jnum(double(ws)) + "}");
    g_worst_pass_e6 = std::max(g_worst_pass_e6, (long long)(wp * 1e6L));
    g_worst_stop_e6 = std::max(g_worst_stop_e6, (long long)(ws * 1e6L));
    return true;
}

// one valid design: oracle (+ CORR if corr)
static void chk_fir(int type, int n, double w1, double w2, int wk, vh::Rng& rng, bool corr) {
    const int nn = required_len(type, n);
    arr_real win;
    if (wk != W_DEFAULT) win = make_win(wk, nn, rng);
    const std::string js = fir_json(type, n, w1, w2, wk, wk == W_DEFAULT ? nn : win.size());
    arr_real h;
    vh::set_current("C11:hang-or-crash:fir1", js);
    const bool ok = call_fir(type, n, w1, w2, wk == W_DEFAULT ? nullptr : &win, h);
    vh::clear_current();
    out.n_oracle++;
    out.stat(std::string("fir_") + ft_name[type] + (n % 2 ? "_odd" : "_even") + (wk == W_DEFAULT ? "_default" : "_custom"));
    if (corr) out.corr(fir_lhs(type, n, w1, w2, wk == W_DEFAULT ? nullptr : &win), ok ? vh::hxs(h) : std::string("ERR"));
    if (!ok) { out.fail("C11:fir1-threw", js); return; }
    out.sample(js.substr(0, js.size() - 1) + ",\"len\":" + std::to_string(h.size()) + "}");

    // length n+1 (n+2 for odd-order high-pass and band-stop)
    if (h.size() != nn) { out.fail("C11:fir1-length", js.substr(0, js.size() - 1) + ",\"got\":" + std::to_string(h.size()) + "}"); return; }
    const int M = h.size();
    // symmetric (linear phase)
    double hmax = 0, sd = 0;
    for (int k = 0; k < M; ++k) hmax = std::max(hmax, std::fabs(h[k]));
    for (int k = 0; k < M / 2; ++k) sd = std::max(sd, std::fabs(h[k] - h[M - 1 - k]));
    bool finite = true;
    for (int k = 0; k < M; ++k) if (!std::isfinite(h[k])) finite = false;
    if (!finite || !(sd <= 2 * EPS * std::max(1.0, hmax))) out.fail("C11:fir1-symmetry", js.substr(0, js.size() - 1) + ",\"max_asym\":" + vh::jnum(sd) + "}");
    g_worst_sym_e18 = std::max(g_worst_sym_e18, (long long)(sd * 1e18));
    {   // the library's own classification must agree: symmetric type of the right parity
        const FirType t = firtype(h);
        const FirType want = (M % 2 == 1) ? FirType::EvenSymm : FirType::OddSym;
        if (t != want) out.fail("C11:fir1-firtype", js.substr(0, js.size() - 1) + ",\"firtype\":" + std::to_string(int(t)) + "}");
        if (corr) out.corr("firtype " + vh::hxs(h), std::to_string(int(t)));
    }
    // |H(0)| = 1 (low-pass), |H(pi)| = 1 (high-pass)
    if (type == LOW || type == HIGH) {
        LD s = 0;
        for (int k = 0; k < M; ++k) s += (type == HIGH && (k % 2)) ? -LD(h[k]) : LD(h[k]);
        const LD d = fabsl(fabsl(s) - 1);
        if (!(d <= 1e-12L)) out.fail(type == LOW ? "C11:fir1-dc-gain" : "C11:fir1-nyquist-gain", js.substr(0, js.size() - 1) + ",\"abs_H\":" + vh::jnum(double(fabsl(s))) + "}");
        g_worst_gain_e18 = std::max(g_worst_gain_e18, (long long)std::min<LD>(d * 1e18L, 9e18L));
    }
    // Hamming-design masks (default window, and the explicitly passed Hamming window)
    if (wk == W_DEFAULT || wk == W_HAMMING) {
        if (chk_mask(type, n, w1, w2, h, js)) out.stat(std::string("fir_mask_checked_") + ft_name[type]);
        else out.stat(std::string("fir_mask_not_applicable_") + ft_name[type]);
    }
}

// a custom window of the wrong length must be rejected
static void chk_reject(int type, int n, double w1, double w2, int len, bool corr) {
    arr_real win = len > 0 ? window::hamming(std::max(len, 3)) : arr_real();
    if (len > 0 && len < 3) win = arr_real(win.slice(0, len));
    const std::string js = fir_json(type, n, w1, w2, W_HAMMING, len);
    arr_real h;
    vh::set_current("C11:hang-or-crash:fir1-wrong-window", js);
    const bool ok = call_fir(type, n, w1, w2, &win, h);
    vh::clear_current();
    out.n_oracle++;
    out.stat("fir_wrong_window_cases");
    if (corr) out.corr(fir_lhs(type, n, w1, w2, &win), ok ? vh::hxs(h) : std::string("ERR"));
    if (ok) out.fail("C11:fir1-wrong-window-accepted", js);
}

static void fir_sweep_order(int n, bool thorough, bool dense, vh::Rng& rng, bool corr) {
    // cut-off grid of (0.02, 0.98) + random
    std::vector<double> cuts;
    const int G = dense ? (thorough ? 48 : 12) : 6;
    for (int g = 0; g <= G; ++g) cuts.push_back(0.02 + 0.96 * g / G);
    cuts.front() = 0.0201; cuts.back() = 0.9799;   // open interval
    const int R = dense ? (thorough ? 6 : 2) : 2;
    for (int r = 0; r < R; ++r) cuts.push_back(0.02 + 0.96 * (0.0001 + 0.9998 * rng.unit()));
    int ci = 0;
    for (double w : cuts) {
        for (int type : {LOW, HIGH}) {
            const bool c = corr && (ci % (thorough ? 7 : 3) == 0);
            chk_fir(type, n, w, 0, W_DEFAULT, rng, c);
        }
        ++ci;
    }
    // band edges: pairs from the grid + random
    std::vector<std::pair<double, double>> pairs;
    const int GP = dense ? (thorough ? 9 : 4) : 3;
    for (int a = 0; a < GP; ++a)
        for (int b = a + 1; b <= GP; ++b) pairs.push_back({0.021 + 0.958 * a / GP, 0.021 + 0.958 * b / GP});
    for (int r = 0; r < R; ++r) {
        double a = 0.02 + 0.96 * (0.0001 + 0.9998 * rng.unit()), b = 0.02 + 0.96 * (0.0001 + 0.9998 * rng.unit());
        if (a > b) std::swap(a, b);
        if (b - a < 1e-3) b = std::min(0.9799, a + 0.05), a = std::min(a, b - 1e-3);
        pairs.push_back({a, b});
    }
    ci = 0;
    for (auto& pr : pairs) {
        for (int type : {BPASS, BSTOP}) {
            const bool c = corr && (ci % (thorough ? 9 : 4) == 0);
            chk_fir(type, n, pr.first, pr.second, W_DEFAULT, rng, c);
        }
        ++ci;
    }
    // custom windows: every kind, all four types, random cut-offs
    for (int wk = W_HAMMING; wk < NWK; ++wk) {
        if (!dense && wk != W_HAMMING && wk != W_PERTURBED && (wk + n) % 3) continue;
        const double w = 0.02 + 0.96 * (0.0001 + 0.9998 * rng.unit());
        double a = 0.02 + 0.96 * (0.0001 + 0.9998 * rng.unit()), b = 0.02 + 0.96 * (0.0001 + 0.9998 * rng.unit());
        if (a > b) std::swap(a, b);
        if (b - a < 1e-3) { a = 0.3; b = 0.6; }
        const bool c = corr && ((wk + n) % (thorough ? 2 : 3) == 0);
        chk_fir(LOW, n, w, 0, wk, rng, c);
        chk_fir(HIGH, n, w, 0, wk, rng, c);
        chk_fir(BPASS, n, a, b, wk, rng, c);
        chk_fir(BSTOP, n, a, b, wk, rng, c);
    }
    // the explicitly passed Hamming window on a mask-relevant cut-off
    chk_fir(LOW, n, 0.5, 0, W_HAMMING, rng, false);
    chk_fir(HIGH, n, 0.5, 0, W_HAMMING, rng, false);
    chk_fir(BPASS, n, 0.3, 0.7, W_HAMMING, rng, false);
    chk_fir(BSTOP, n, 0.3, 0.7, W_HAMMING, rng, false);
    // wrong-length windows
    for (int type = 0; type < 4; ++type) {
        const int nn = required_len(type, n);
        const bool c = corr && (n % 4 == type || n % 4 == (type + 1) % 4);
        chk_reject(type, n, 0.4, 0.7, nn - 1, c);
        chk_reject(type, n, 0.4, 0.7, nn + 1, c);
        if (dense) {
            chk_reject(type, n, 0.4, 0.7, 0, false);
            chk_reject(type, n, 0.4, 0.7, 1, false);
            chk_reject(type, n, 0.4, 0.7, 2 * nn, c);
            if (nn == n + 2) chk_reject(type, n, 0.4, 0.7, n + 1, c);   // the natural but wrong choice for odd-order high-pass / band-stop
            else if (n % 2 == 1) chk_reject(type, n, 0.4, 0.7, n + 2, c);
        }
    }
}

int main(int argc, char** argv) {
    vh::Args a(argc, argv);
    vh::install_guards();
    vh::Rng rng(a.seed);
    fft_init();
    vh::watch(a.thorough ? 3000 : 600);

    // -------------------------------------------------------------------------------- windows
    const std::vector<double> gauss_grid = {0.5, 1.0, 2.5, 4.0, 6.0};
    const std::vector<double> tukey_grid = {-0.5, 0.0, 1e-9, 0.1, 0.25, 1.0 / 3, 0.5, 0.75, 0.9, 0.999999, 1.0, 1.5};
    const std::vector<double> kaiser_grid = {0.0, 0.5, 1.0, 2.0, 5.0, 8.6, 12.0, 20.0, 30.0, 38.0, 40.0};
    auto params_for = [&](int fam, int n, bool all) {
        std::vector<double> ps;
        if (!fam_has_param(fam)) { ps.push_back(0); return ps; }
        const std::vector<double>& g = fam == GAUSS ? gauss_grid : fam == TUKEY ? tukey_grid : kaiser_grid;
        if (all) ps = g;
        else { ps.push_back(g[n % g.size()]); ps.push_back(g[(n * 7 + 3) % g.size()]); }
        // random parameter of the property's range
        const double u = rng.unit();
        ps.push_back(fam == GAUSS ? 0.5 + 5.5 * u : fam == TUKEY ? -0.5 + 2.0 * u : 40.0 * u);
        return ps;
    };
    const int NW = a.thorough ? 512 : 96;
    for (int n = 3; n <= NW; ++n) {
        for (int fam = 0; fam < NFAM; ++fam) {
            const bool all = a.thorough ? (n <= 128 || n % 8 == 0) : (n <= 24);
            const std::vector<double> ps = params_for(fam, n, all);
            int pi_ = 0;
            for (double p : ps) {
                for (int sym = 1; sym >= 0; --sym) {
                    if (!sym && !fam_has_periodic(fam)) continue;
                    CorrMode cm = NOCORR;
                    if (n <= 40) cm = (pi_ < 3 || pi_ + 1 == (int)ps.size() || n <= 12) ? FULL : NOCORR;
                    else if ((n + fam) % (a.thorough ? 4 : 8) == 0 && (pi_ == 0 || pi_ + 1 == (int)ps.size())) cm = FULL;
                    chk_window(fam, n, sym, p, cm);
                }
                ++pi_;
            }
        }
    }
    // sampled lengths up to 1e5 (log-uniform) + the boundary itself
    {
        std::vector<int> big = {513, 1000, 1023, 1024, 4097, 99999, 100000};
        const int NS = a.thorough ? 40 : 6;
        for (int i = 0; i < NS; ++i) big.push_back(int(std::floor(513 * std::pow(100000.0 / 513, rng.unit()))));
        if (!a.thorough) big = {513, 1024, 4097, 100000, big[7], big[8], big[9], big[10], big[11], big[12]};
        int bi = 0;
        for (int n : big) {
            for (int fam = 0; fam < NFAM; ++fam) {
                std::vector<double> ps = params_for(fam, n, false);
                if (fam == KAISER) ps.push_back(40.0);
                int pi_ = 0;
                for (double p : ps) {
                    for (int sym = 1; sym >= 0; --sym) {
                        if (!sym && !fam_has_periodic(fam)) continue;
                        chk_window(fam, n, sym, p, (pi_ == 0 || pi_ + 1 == (int)ps.size()) && (bi % 2 == 0 || n <= 5000) ? DIGEST : NOCORR);
                    }
                    ++pi_;
                }
            }
            ++bi;
        }
    }
    for (int fam = 0; fam < NFAM; ++fam) out.stats[std::string("win_worst_err_1e-18_") + fam_name[fam]] = g_worst_win_err_e18[fam];

    // -------------------------------------------------------------------------------- fir1
    const int NO = a.thorough ? 256 : 48;
    for (int n = 2; n <= NO; ++n) fir_sweep_order(n, a.thorough, true, rng, n <= (a.thorough ? 256 : 48) && (n <= 40 || n % (a.thorough ? 3 : 4) == 0));
    {
        std::vector<int> big = {63, 64, 100, 127, 128, 255, 256, 257, 500, 999, 1000, 1999, 2000};
        const int NS = a.thorough ? 60 : 6;
        for (int i = 0; i < NS; ++i) big.push_back(int(std::floor(49 * std::pow(2000.0 / 49, rng.unit()))));
        int bi = 0;
        for (int n : big) { fir_sweep_order(n, a.thorough, false, rng, bi % 5 == 0 && n <= 600); ++bi; }
    }
    out.stats["fir_worst_passband_dev_1e-6"] = g_worst_pass_e6;
    out.stats["fir_worst_stopband_1e-6"] = g_worst_stop_e6;
    out.stats["fir_worst_gain_err_1e-18"] = g_worst_gain_e18;
    out.stats["fir_worst_asym_1e-18"] = g_worst_sym_e18;
    vh::unwatch();
    out.finish();
    return 0;
}
