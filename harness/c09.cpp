// C09 — concurrent use from several threads is race-free and result-preserving.
//
// Part 1 (source scan, tie of the Lean footprint table to the code): the library sources under
//   $VERIF_REPO/{lib,include} are tokenised and every piece of state that outlives a call is
//   listed: `mutable` members, thread_local variables, namespace-scope / function-local-static /
//   static-member variables (const and non-const), const_casts, the data members and the non-const
//   member functions of the plan classes.  Each list is a CORR case `footprint <kind>`; the Lean
//   table (Model/Conc.lean) must predict exactly these lists.  ORACLE `C09:shared-mutable-state`:
//   a non-const non-thread_local static, or a mutable member used in a const method.
// Part 2 (random-number state): a FIXED interleaving of rng()/rand() calls over several threads is
//   enforced with a turn counter; CORR `rng`: the Lean model (one mt19937 per thread) predicts
//   every drawn value bit-exactly; ORACLE `C09:rng-not-isolated`: each thread's values equal the
//   values it draws when it runs alone.
// Part 3 (the quantifier of the property): 2..16 threads released from a spin barrier, each running
//   a randomised mix of fft/ifft/rfft/irfft (pow2/small/composite/prime<=41/prime>41, hitting and
//   evicting the 4-entry plan caches), czt, xcorr, welch, resample, FftFilter and own FftPlan objects,
//   randn/rand/randi/rng, and const solves on SHARED FftPlan/FftPlanR/IfftPlan/IfftPlanR/CztPlan
//   objects of every plan kind.  ORACLE `C09:result-differs`: every result equals bit-exactly the
//   result of the same thread program run alone; `C09:cache-state-differs`: so do the final keys
//   of the thread's plan caches; `C09:data-race`: ThreadSanitizer report during the scenario
//   (counted through __tsan_on_report).  CORR `keys`: the final cache keys of every thread are
//   the ones the sequential LRU/factory model (Model/Lru.lean) computes from that thread's calls.
#include "common.hpp"
#include <dsplib.h>
#include <atomic>
#include <thread>
#include <fstream>
#include <filesystem>
#include <set>
#include <algorithm>
#include <memory>
using namespace dsplib;

namespace dsplib {
std::vector<int> verif_fft_cache_keys();
std::vector<int> verif_rfft_cache_keys();
int verif_fft_cache_capacity();
}

static vh::Out out;

// ------------------------------------------------------------------------------------------------
// ThreadSanitizer report counter (the runtime calls this weak hook for every report it prints)
static volatile int g_tsan_reports = 0;
#if defined(__has_feature)
#if __has_feature(thread_sanitizer)
#define C09_TSAN 1
extern "C" __attribute__((no_sanitize("thread"))) void __tsan_on_report(void*) {
    g_tsan_reports = g_tsan_reports + 1;
}
#endif
#endif

// ================================================================================================
// Part 1: source scan
// ================================================================================================
namespace scan {

struct Var {
    std::string file, scope, name;   // scope: "" (namespace), "fn:<f>", "class:<C>"
    std::set<std::string> quals;
    std::string type;
};
struct Method {
    std::string file, cls, name;
    bool is_const = false, is_static = false, special = false, has_body = false;
};
struct Body {
    std::string file, cls, name;
    bool is_const = false;
    std::vector<std::string> toks;
};
struct Class {
    std::string name;
    std::vector<std::string> bases;
};

static std::vector<Var> vars;
static std::vector<Method> methods;
static std::vector<Body> bodies;
static std::vector<Class> classes;
static std::map<std::string, int> const_casts;

static bool is_ident(const std::string& t) {
    return !t.empty() && (std::isalpha((unsigned char)t[0]) || t[0] == '_');
}

static std::vector<std::string> tokenize(const std::string& src) {
    std::vector<std::string> t;
    const size_t n = src.size();
    size_t i = 0;
    bool line_start = true;
    while (i < n) {
        const char c = src[i];
        if (c == '\n') { line_start = true; ++i; continue; }
        if (c == ' ' || c == '\t' || c == '\r') { ++i; continue; }
        if (c == '/' && i + 1 < n && src[i + 1] == '/') { while (i < n && src[i] != '\n') ++i; continue; }
        if (c == '/' && i + 1 < n && src[i + 1] == '*') {
            i += 2;
            while (i + 1 < n && !(src[i] == '*' && src[i + 1] == '/')) ++i;
            i += 2;
            continue;
        }
        if (c == '#' && line_start) {   // preprocessor line (with continuations); both branches of #if are scanned
            while (i < n && src[i] != '\n') {
                if (src[i] == '\\' && i + 1 < n && src[i + 1] == '\n') ++i;
                ++i;
            }
            continue;
        }
        line_start = false;
        if (c == '"' || c == '\'') {
            const char q = c;
            ++i;
            while (i < n && src[i] != q) { if (src[i] == '\\') ++i; ++i; }
            ++i;
            t.push_back(q == '"' ? "\"\"" : "''");
            continue;
        }
        if (std::isalnum((unsigned char)c) || c == '_') {
            size_t j = i;
            while (j < n && (std::isalnum((unsigned char)src[j]) || src[j] == '_' || (src[j] == '.' && std::isdigit((unsigned char)src[i])) ||
                             (src[j] == '\'' && std::isdigit((unsigned char)src[i]) && j + 1 < n && std::isalnum((unsigned char)src[j + 1])))) ++j;
            t.push_back(src.substr(i, j - i));
            i = j;
            continue;
        }
        if (c == ':' && i + 1 < n && src[i + 1] == ':') { t.push_back("::"); i += 2; continue; }
        if (c == '-' && i + 1 < n && src[i + 1] == '>') { t.push_back("->"); i += 2; continue; }
        if ((c == '=' || c == '!' || c == '<' || c == '>') && i + 1 < n && src[i + 1] == '=') { t.push_back(std::string(1, c) + "="); i += 2; continue; }
        t.push_back(std::string(1, c));
        ++i;
    }
    return t;
}

struct Parser {
    std::string file;
    std::vector<std::string> t;
    size_t p = 0;

    static bool kw_qual(const std::string& s) {
        return s == "static" || s == "thread_local" || s == "mutable" || s == "const" || s == "constexpr" || s == "extern" || s == "inline" ||
               s == "volatile";
    }

    // skips a balanced {...} / (...) / [...] group starting at t[p] (an opening bracket)
    void skip_group() {
        int d = 0;
        for (; p < t.size(); ++p) {
            const auto& s = t[p];
            if (s == "{" || s == "(" || s == "[") ++d;
            else if (s == "}" || s == ")" || s == "]") { --d; if (d == 0) { ++p; return; } }
        }
    }

    static std::vector<std::string> strip_template(const std::vector<std::string>& d) {
        size_t i = 0;
        while (i < d.size() && d[i] == "template") {
            ++i;
            if (i < d.size() && d[i] == "<") {
                int a = 0;
                for (; i < d.size(); ++i) {
                    if (d[i] == "<") ++a;
                    else if (d[i] == ">") { --a; if (a == 0) { ++i; break; } }
                }
            }
        }
        // attributes [[...]] are kept as tokens "[" "[" ... they never matter for the classification below except '(' depth; drop them
        std::vector<std::string> r;
        for (; i < d.size(); ++i) {
            if (d[i] == "[" && i + 1 < d.size() && d[i + 1] == "[") {
                int b = 0;
                for (; i < d.size(); ++i) {
                    if (d[i] == "[") ++b;
                    else if (d[i] == "]") { --b; if (b == 0) break; }
                }
                continue;
            }
            r.push_back(d[i]);
        }
        return r;
    }

    // index of the first top-level '(' that is not preceded (at top level) by '='; -1 if none
    static int fn_paren(const std::vector<std::string>& d) {
        int depth = 0;
        for (size_t i = 0; i < d.size(); ++i) {
            const auto& s = d[i];
            if (depth == 0 && s == "=" && !(i > 0 && d[i - 1] == "operator")) return -1;
            if (s == "(" ) { if (depth == 0) return int(i); ++depth; }
            else if (s == "[" || s == "{") ++depth;
            else if (s == ")" || s == "]" || s == "}") --depth;
        }
        return -1;
    }

    static size_t close_of(const std::vector<std::string>& d, size_t open) {
        int depth = 0;
        for (size_t i = open; i < d.size(); ++i) {
            if (d[i] == "(" || d[i] == "[" || d[i] == "{") ++depth;
            else if (d[i] == ")" || d[i] == "]" || d[i] == "}") { --depth; if (depth == 0) return i; }
        }
        return d.size();
    }

    void record_var(const std::vector<std::string>& d0, const std::string& scope) {
        const auto d = strip_template(d0);
        if (d.empty()) return;
        const std::string& f = d[0];
        if (f == "using" || f == "typedef" || f == "friend" || f == "static_assert" || f == "namespace" || f == "enum" || f == "class" ||
            f == "struct" || f == "union" || f == "return" || f == "public" || f == "private" || f == "protected" || f == "default" || f == "delete")
            return;
        Var v;
        v.file = file;
        v.scope = scope;
        // the declared name: last identifier before '=', '{', '[' (array) or the end, at top level
        int depth = 0;
        size_t end = d.size();
        for (size_t i = 0; i < d.size(); ++i) {
            const auto& s = d[i];
            if (depth == 0 && (s == "=" || s == "{" || s == "(")) { end = i; break; }
            if (s == "[") { if (depth == 0) { end = i; break; } }
            if (s == "<") ++depth;          // template argument lists of the type
            else if (s == ">") --depth;
        }
        std::string name;
        size_t ni = 0;
        for (size_t i = end; i-- > 0;) {
            if (is_ident(d[i]) && !kw_qual(d[i])) { name = d[i]; ni = i; break; }
        }
        if (name.empty()) return;
        for (size_t i = 0; i < ni; ++i) {
            if (kw_qual(d[i])) v.quals.insert(d[i]);
            else v.type += d[i];
        }
        if (v.type.empty()) return;      // a bare expression statement, not a declaration
        v.name = name;
        vars.push_back(v);
    }

    void parse_body(const std::string& cls, const std::string& name, bool is_const) {
        // t[p] == "{"
        Body b;
        b.file = file; b.cls = cls; b.name = name; b.is_const = is_const;
        int depth = 0;
        while (p < t.size()) {
            const std::string s = t[p];
            if (s == "{") { ++depth; b.toks.push_back(s); ++p; continue; }
            if (s == "}") { --depth; b.toks.push_back(s); ++p; if (depth == 0) break; continue; }
            if (s == "const_cast") const_casts[file]++;
            if (s == "static" || s == "thread_local") {
                // a local declaration with static storage duration: collect up to ';'
                std::vector<std::string> d;
                while (p < t.size() && t[p] != ";") {
                    if (t[p] == "{" || t[p] == "(" || t[p] == "[") {
                        const size_t a = p;
                        skip_group();
                        for (size_t i = a; i < p; ++i) { d.push_back(t[i]); b.toks.push_back(t[i]); }
                        continue;
                    }
                    d.push_back(t[p]);
                    b.toks.push_back(t[p]);
                    ++p;
                }
                record_var(d, "fn:" + (cls.empty() ? name : cls + "::" + name));
                continue;
            }
            b.toks.push_back(s);
            ++p;
        }
        bodies.push_back(std::move(b));
    }

    void handle_function(const std::vector<std::string>& d0, const std::string& cur_class, bool has_body) {
        const auto d = strip_template(d0);
        const int op = fn_paren(d);
        if (op <= 0) { if (has_body) parse_body(cur_class, "?", false); return; }
        size_t po = size_t(op);
        std::string name = d[po - 1];
        if (name == "operator" && po + 2 < d.size() && d[po + 1] == ")") { name = "operator()"; po += 2; }
        else if (po >= 2 && d[po - 2] == "operator") name = "operator" + name;
        else if (!is_ident(name)) name = "operator" + name;
        std::string cls = cur_class;
        bool tilde = false;
        // out-of-line definition  Class::name(
        {
            size_t k = size_t(op) - 1;
            if (k >= 1 && d[k - 1] == "~") { tilde = true; if (k >= 1) --k; }
            if (k >= 2 && d[k - 1] == "::" && is_ident(d[k - 2])) cls = d[k - 2];
        }
        if (size_t(op) >= 2 && d[size_t(op) - 2] == "~") tilde = true;
        const size_t pc = close_of(d, po);
        bool is_const = false;
        for (size_t i = pc + 1; i < d.size(); ++i) {
            if (d[i] == ":" || d[i] == "->" || d[i] == "=") break;
            if (d[i] == "const") is_const = true;
        }
        Method m;
        m.file = file; m.cls = cls; m.name = name; m.is_const = is_const; m.has_body = has_body;
        for (size_t i = 0; i + 1 < size_t(op); ++i) if (d[i] == "static") m.is_static = true;
        m.special = tilde || (!cls.empty() && name == cls) || name == "operator=";
        for (size_t i = 0; i < size_t(op); ++i) if (d[i] == "friend") m.special = true;
        if (!cls.empty()) methods.push_back(m);
        if (has_body) parse_body(cls, name, is_const);
    }

    // parses declarations of a namespace (cls empty) or class scope until the closing '}' (or EOF)
    void parse_scope(const std::string& cls) {
        std::vector<std::string> d;
        bool in_init_list = false;
        while (p < t.size()) {
            const std::string s = t[p];
            if (s == "}") { ++p; return; }
            if (s == ";") {
                ++p;
                const auto ds = strip_template(d);
                if (!ds.empty()) {
                    const int fp = fn_paren(ds);
                    // `T name(16);` / `T name("x");` is a variable with a parenthesised initialiser, not a function declaration
                    const bool paren_init = fp > 0 && size_t(fp) + 1 < ds.size() &&
                                            (std::isdigit((unsigned char)ds[size_t(fp) + 1][0]) || ds[size_t(fp) + 1] == "\"\"" || ds[size_t(fp) + 1] == "''" || ds[size_t(fp) + 1] == "-");
                    if (fp > 0 && !paren_init && !(ds[0] == "using" || ds[0] == "typedef" || ds[0] == "static_assert")) handle_function(d, cls, false);
                    else record_var(d, cls.empty() ? "" : "class:" + cls);
                }
                d.clear();
                in_init_list = false;
                continue;
            }
            if ((s == "public" || s == "private" || s == "protected") && p + 1 < t.size() && t[p + 1] == ":" && d.empty()) { p += 2; continue; }
            if (s == "const_cast") const_casts[file]++;
            if (s == "(" || s == "[") {
                const size_t a = p;
                skip_group();
                for (size_t i = a; i < p; ++i) d.push_back(t[i]);
                continue;
            }
            if (s == ":" ) {
                const auto ds = strip_template(d);
                if (fn_paren(ds) > 0) in_init_list = true;
                d.push_back(s);
                ++p;
                continue;
            }
            if (s == "{") {
                const auto ds = strip_template(d);
                const bool is_ns = !ds.empty() && (ds[0] == "namespace" || (ds[0] == "inline" && ds.size() > 1 && ds[1] == "namespace") || ds[0] == "extern");
                if (is_ns && fn_paren(ds) < 0) { ++p; d.clear(); parse_scope(cls.empty() ? "" : cls); continue; }
                if (!ds.empty() && ds[0] == "enum") { skip_group(); continue; }
                if (fn_paren(ds) > 0) {
                    const std::string& prev = d.back();
                    if (in_init_list && (is_ident(prev) || prev == ">") && prev != "const" && prev != "noexcept" && prev != "override" && prev != "final") {
                        const size_t a = p;
                        skip_group();
                        for (size_t i = a; i < p; ++i) d.push_back(t[i]);
                        continue;
                    }
                    handle_function(d, cls, true);
                    d.clear();
                    in_init_list = false;
                    continue;
                }
                size_t ck = ds.size();
                for (size_t i = 0; i < ds.size(); ++i) if (ds[i] == "class" || ds[i] == "struct" || ds[i] == "union") { ck = i; break; }
                bool has_eq = false;
                for (auto& x : ds) if (x == "=") has_eq = true;
                if (ck < ds.size() && !has_eq) {
                    Class c;
                    for (size_t i = ck + 1; i < ds.size(); ++i) if (is_ident(ds[i]) && ds[i] != "final" && ds[i] != "alignas") { c.name = ds[i]; break; }
                    bool after = false;
                    for (size_t i = ck + 1; i < ds.size(); ++i) {
                        if (ds[i] == ":") after = true;
                        else if (after && is_ident(ds[i]) && ds[i] != "public" && ds[i] != "private" && ds[i] != "protected" && ds[i] != "virtual") c.bases.push_back(ds[i]);
                    }
                    classes.push_back(c);
                    ++p;
                    d.clear();
                    parse_scope(c.name.empty() ? "?" : c.name);
                    continue;
                }
                // a variable with a braced initialiser
                const size_t a = p;
                skip_group();
                d.push_back("{");
                (void)a;
                d.push_back("}");
                continue;
            }
            d.push_back(s);
            ++p;
        }
    }
};

static void run(const std::string& repo) {
    namespace fs = std::filesystem;
    std::vector<std::string> files;
    for (const char* sub : {"lib", "include"}) {
        const fs::path root = fs::path(repo) / sub;
        if (!fs::exists(root)) continue;
        for (auto& e : fs::recursive_directory_iterator(root)) {
            if (!e.is_regular_file()) continue;
            const auto ext = e.path().extension().string();
            if (ext == ".h" || ext == ".hpp" || ext == ".cpp" || ext == ".cc") files.push_back(e.path().string());
        }
    }
    std::sort(files.begin(), files.end());
    for (auto& f : files) {
        std::ifstream in(f, std::ios::binary);
        std::stringstream ss;
        ss << in.rdbuf();
        Parser ps;
        ps.file = f.substr(repo.size() + 1);
        ps.t = tokenize(ss.str());
        while (ps.p < ps.t.size()) ps.parse_scope("");   // a stray '}' ends a scope early: keep going
        out.stat("scan_files");
        out.stat("scan_tokens", (long long)ps.t.size());
    }
}

static bool derives_from_plan(const std::string& name, int fuel = 8) {
    if (name == "BaseFftPlanC" || name == "BaseFftPlanR") return true;
    if (fuel == 0) return false;
    for (auto& c : classes)
        if (c.name == name)
            for (auto& b : c.bases) if (derives_from_plan(b, fuel - 1)) return true;
    return false;
}
static bool is_plan_class(const std::string& n) {
    return derives_from_plan(n) || n == "IfftPlan" || n == "IfftPlanR" || n == "CztPlanImpl" || n == "PlanTree";
}
static bool is_sync_type(const std::string& ty) {
    return ty.find("mutex") != std::string::npos || ty.find("atomic") != std::string::npos || ty.find("once_flag") != std::string::npos;
}

static std::string id_of(const Var& v) {
    std::string sc = v.scope;
    if (sc.rfind("fn:", 0) == 0) sc = sc.substr(3);
    else if (sc.rfind("class:", 0) == 0) sc = sc.substr(6);
    return v.file + ":" + sc + ":" + v.name;
}

static void emit(const std::string& kind, std::vector<std::string> l) {
    std::sort(l.begin(), l.end());
    std::string r = std::to_string(l.size());
    for (auto& s : l) r += " " + s;
    out.corr("footprint " + kind, r);
    out.stat("footprint_" + kind, (long long)l.size());
}

static void report() {
    std::vector<std::string> l_mut, l_tls, l_sconst, l_smut, l_cc, l_pm, l_pnc;
    for (auto& v : vars) {
        const bool is_class = v.scope.rfind("class:", 0) == 0;
        const bool is_fn = v.scope.rfind("fn:", 0) == 0;
        const bool tl = v.quals.count("thread_local");
        const bool cst = v.quals.count("const") || v.quals.count("constexpr");
        const bool st = v.quals.count("static");
        if (is_class && v.quals.count("mutable")) {
            l_mut.push_back(id_of(v));
            // ORACLE: used in a const member function of its class?
            const std::string cls = v.scope.substr(6);
            for (auto& b : bodies) {
                if (b.cls != cls || !b.is_const) continue;
                if (std::find(b.toks.begin(), b.toks.end(), v.name) != b.toks.end() && !is_sync_type(v.type)) {
                    out.fail("C09:shared-mutable-state", "{\"what\":\"mutable member used in a const member function\",\"var\":\"" + id_of(v) +
                             "\",\"method\":\"" + b.cls + "::" + b.name + "\",\"type\":\"" + v.type + "\"}");
                    break;
                }
            }
        }
        if (is_class && !st) { if (is_plan_class(v.scope.substr(6))) l_pm.push_back(v.scope.substr(6) + ":" + v.name); continue; }
        if (is_fn && !st && !tl) continue;
        if (v.quals.count("extern")) continue;
        if (tl) { l_tls.push_back(id_of(v)); continue; }
        if (cst) { l_sconst.push_back(id_of(v)); continue; }
        l_smut.push_back(id_of(v));
        if (!is_sync_type(v.type))
            out.fail("C09:shared-mutable-state", "{\"what\":\"non-const variable with static storage duration that is not thread_local\",\"var\":\"" +
                     id_of(v) + "\",\"type\":\"" + v.type + "\"}");
    }
    std::set<std::string> pnc;
    for (auto& m : methods)
        if (is_plan_class(m.cls) && !m.is_const && !m.is_static && !m.special) pnc.insert(m.cls + "::" + m.name);
    l_pnc.assign(pnc.begin(), pnc.end());
    for (auto& kv : const_casts) l_cc.push_back(kv.first + ":" + std::to_string(kv.second));
    out.n_oracle += (long long)vars.size();
    emit("mutable", l_mut);
    emit("thread_local", l_tls);
    emit("shared_mutable", l_smut);
    emit("shared_const", l_sconst);
    emit("const_cast", l_cc);
    emit("plan_members", l_pm);
    emit("plan_nonconst_methods", l_pnc);
    out.stat("scan_variables", (long long)vars.size());
    out.stat("scan_methods", (long long)methods.size());
    out.stat("scan_function_bodies", (long long)bodies.size());
    out.stat("scan_classes", (long long)classes.size());
    if (std::getenv("C09_DUMP")) {
        for (auto& v : vars) {
            std::string q;
            for (auto& s : v.quals) q += s + ",";
            std::fprintf(stderr, "VAR %s | %s | %s | %s | %s\n", v.file.c_str(), v.scope.c_str(), v.name.c_str(), q.c_str(), v.type.c_str());
        }
        for (auto& m : methods)
            std::fprintf(stderr, "METHOD %s %s::%s const=%d static=%d special=%d body=%d\n", m.file.c_str(), m.cls.c_str(), m.name.c_str(), m.is_const,
                         m.is_static, m.special, m.has_body);
        for (auto& c : classes) {
            std::string b;
            for (auto& s : c.bases) b += s + ",";
            std::fprintf(stderr, "CLASS %s : %s\n", c.name.c_str(), b.c_str());
        }
    }
}

}   // namespace scan

// ================================================================================================
// helpers shared by parts 2 and 3
// ================================================================================================
struct SpinBarrier {
    std::atomic<int> arrived{0};
    const int n;
    explicit SpinBarrier(int n_) : n(n_) {}
    void wait() {
        arrived.fetch_add(1, std::memory_order_acq_rel);
        while (arrived.load(std::memory_order_acquire) < n) std::this_thread::yield();
    }
};

static bool same_bits(const std::vector<double>& a, const std::vector<double>& b) {
    return a.size() == b.size() && (a.empty() || std::memcmp(a.data(), b.data(), a.size() * sizeof(double)) == 0);
}
static void push(std::vector<double>& r, const arr_cmplx& y) { for (int i = 0; i < y.size(); ++i) { r.push_back(y[i].re); r.push_back(y[i].im); } }
static void push(std::vector<double>& r, const arr_real& y) { for (int i = 0; i < y.size(); ++i) r.push_back(y[i]); }
static void push(std::vector<double>& r, const arr_int& y) { for (int i = 0; i < y.size(); ++i) r.push_back(double(y[i])); }

static arr_cmplx in_c(vh::Rng& g, int n) {
    arr_cmplx x(n);
    for (int i = 0; i < n; ++i) x[i] = cmplx_t(g.sym(), g.sym());
    return x;
}
static arr_real in_r(vh::Rng& g, int n) {
    arr_real x(n);
    for (int i = 0; i < n; ++i) x[i] = g.sym();
    return x;
}

// ================================================================================================
// Part 2: random-number state under an enforced interleaving
// ================================================================================================
struct RngEv { int t; char kind; int arg; };   // kind 'k' rng(arg) ; 'u' arg calls of rand() ; 'v' rand(arg) (vector form)

static std::vector<std::vector<double>> rng_run(int nthreads, const std::vector<RngEv>& evs, bool interleaved) {
    // values drawn per event; interleaved: all threads alive, events executed in list order (turn counter);
    // else: thread after thread, each running only its own events
    std::vector<std::vector<double>> vals(evs.size());
    auto exec = [&](size_t i) {
        const RngEv& e = evs[i];
        if (e.kind == 'k') dsplib::rng(e.arg);
        else if (e.kind == 'u') { for (int j = 0; j < e.arg; ++j) vals[i].push_back(dsplib::rand()); }
        else { push(vals[i], dsplib::rand(e.arg)); }
    };
    if (interleaved) {
        std::atomic<size_t> turn{0};
        std::vector<std::thread> th;
        for (int t = 0; t < nthreads; ++t) {
            th.emplace_back([&, t] {
                for (size_t i = 0; i < evs.size(); ++i) {
                    if (evs[i].t != t) continue;
                    while (turn.load(std::memory_order_acquire) != i) std::this_thread::yield();
                    exec(i);
                    turn.store(i + 1, std::memory_order_release);
                }
            });
        }
        // events of threads are claimed in order; a thread that owns no further event simply ends
        for (auto& x : th) x.join();
    } else {
        for (int t = 0; t < nthreads; ++t) {
            std::thread x([&, t] {
                for (size_t i = 0; i < evs.size(); ++i) if (evs[i].t == t) exec(i);
            });
            x.join();
        }
    }
    return vals;
}

static void part_rng(vh::Rng& g, bool thorough) {
    const int ncases = thorough ? 400 : 40;
    for (int c = 0; c < ncases; ++c) {
        const int nt = (c < 15) ? 2 + c : g.range(2, 16);
        const int nev = g.range(nt, thorough ? 60 : 30);
        std::vector<RngEv> evs;
        for (int i = 0; i < nev; ++i) {
            RngEv e;
            e.t = (i < nt) ? i : g.range(0, nt - 1);
            const int r = g.range(0, 9);
            if (c == 0) { e.kind = (i % 3 == 1) ? 'k' : 'u'; e.arg = (e.kind == 'k') ? 7 : 2; }      // same seed in every thread
            else if (r < 3) { e.kind = 'k'; e.arg = (r == 0) ? g.range(-5, 5) : int(g.next() & 0x7fffffff); }
            else if (r < 7) { e.kind = 'u'; e.arg = g.range(1, 4); }
            else { e.kind = 'v'; e.arg = g.range(0, 9); }
            evs.push_back(e);
        }
        std::string lhs = "rng " + std::to_string(nt) + " " + std::to_string(evs.size());
        std::string js = "{\"part\":\"rng\",\"threads\":" + std::to_string(nt) + ",\"events\":[";
        for (size_t i = 0; i < evs.size(); ++i) {
            lhs += " " + std::to_string(evs[i].t) + ":" + std::string(1, evs[i].kind) + std::to_string(evs[i].arg);
            js += std::string(i ? "," : "") + "\"" + std::to_string(evs[i].t) + ":" + std::string(1, evs[i].kind) + std::to_string(evs[i].arg) + "\"";
        }
        js += "]}";
        const int r0 = g_tsan_reports;
        vh::set_current("C09:data-race", js);
        vh::watch(120);
        const auto a = rng_run(nt, evs, true);
        const auto b = rng_run(nt, evs, false);
        vh::unwatch();
        vh::clear_current();
        if (g_tsan_reports != r0) out.fail("C09:data-race", js);
        std::string rhs;
        long long nvals = 0;
        bool same = true;
        for (size_t i = 0; i < evs.size(); ++i) {
            for (double v : a[i]) { rhs += " " + vh::hx(v); ++nvals; }
            if (!same_bits(a[i], b[i])) same = false;
        }
        out.n_oracle++;
        if (!same) out.fail("C09:rng-not-isolated", js);
        out.corr(lhs, rhs.empty() ? "-" : rhs.substr(1));
        out.stat("rng_values_drawn", nvals);
        out.stat("rng_cases");
        if (c == 1) out.sample(js);
    }
}

// ================================================================================================
// Part 3: concurrent mixes
// ================================================================================================
static const int POW2[] = {16, 32, 64, 128, 256, 512, 1024, 2048, 4096};
static const int SMALL[] = {1, 2, 4, 8};
static const int COMPOSITE[] = {6, 9, 10, 12, 15, 18, 20, 24, 30, 36, 45, 60, 63, 75, 90, 94, 100, 120, 122, 225, 360, 1000, 1001, 1210};
static const int PRIME_S[] = {3, 5, 7, 11, 13, 17, 19, 23, 29, 31, 37, 41};
static const int PRIME_L[] = {43, 47, 53, 61, 127, 251, 509, 1021};
template<size_t N> static int pick(vh::Rng& g, const int (&a)[N]) { return a[g.range(0, int(N) - 1)]; }

static int pick_len(vh::Rng& g, bool even_only = false) {
    for (;;) {
        int n;
        switch (g.range(0, 4)) {
        case 0: n = pick(g, POW2); break;
        case 1: n = pick(g, SMALL); break;
        case 2: n = pick(g, COMPOSITE); break;
        case 3: n = pick(g, PRIME_S); break;
        default: n = pick(g, PRIME_L); break;
        }
        if (!even_only || n % 2 == 0) return n;
    }
}
static const char* len_class(int n) {
    if (n == 1 || n == 2 || n == 4 || n == 8) return "small";
    if (ispow2(n)) return "pow2";
    if (isprime(n)) return n <= 41 ? "prime_le41" : "prime_gt41";
    return "composite";
}

// shared plan objects (const solve from many threads)
struct Shared {
    std::string desc;
    std::function<void(vh::Rng&, std::vector<double>&)> use;   // const solve on the shared object with a private input
};

static std::vector<Shared> make_shared_plans(std::vector<std::shared_ptr<void>>& keep) {
    std::vector<Shared> s;
    auto add_c = [&](int n) {
        auto p = std::make_shared<const FftPlan>(n);
        keep.push_back(std::const_pointer_cast<FftPlan>(p));
        s.push_back({"FftPlan(" + std::to_string(n) + "):" + len_class(n), [p, n](vh::Rng& g, std::vector<double>& r) { push(r, p->solve(in_c(g, n))); }});
    };
    auto add_r = [&](int n) {
        auto p = std::make_shared<const FftPlanR>(n);
        keep.push_back(std::const_pointer_cast<FftPlanR>(p));
        s.push_back({"FftPlanR(" + std::to_string(n) + "):" + len_class(n) + (n % 2 ? ":odd" : ":even"),
                     [p, n](vh::Rng& g, std::vector<double>& r) { push(r, (*p)(in_r(g, n))); }});
    };
    auto add_i = [&](int n) {
        auto p = std::make_shared<const IfftPlan>(n);
        keep.push_back(std::const_pointer_cast<IfftPlan>(p));
        s.push_back({"IfftPlan(" + std::to_string(n) + "):" + len_class(n), [p, n](vh::Rng& g, std::vector<double>& r) { push(r, p->solve(in_c(g, n))); }});
    };
    auto add_ir = [&](int n) {
        auto p = std::make_shared<const IfftPlanR>(n);
        keep.push_back(std::const_pointer_cast<IfftPlanR>(p));
        s.push_back({"IfftPlanR(" + std::to_string(n) + "):half=" + len_class(n / 2), [p, n](vh::Rng& g, std::vector<double>& r) {
                         auto x = in_c(g, n / 2 + 1);
                         x[0].im = 0;
                         x[n / 2].im = 0;
                         push(r, p->solve(x));
                     }});
    };
    auto add_z = [&](int n, int m) {
        auto p = std::make_shared<const CztPlan>(n, m, expj(-2 * pi / (m + 0.5)), cmplx_t(1.0, 0.0));
        keep.push_back(std::const_pointer_cast<CztPlan>(p));
        s.push_back({"CztPlan(" + std::to_string(n) + "," + std::to_string(m) + ")", [p, n](vh::Rng& g, std::vector<double>& r) { push(r, p->solve(in_c(g, n))); }});
    };
    // every plan kind: small / pow2 / composite (flat and deep trees, with prime>41 leaf) / prime<=41 / prime>41
    for (int n : {1, 2, 4, 8, 64, 1024, 60, 360, 1001, 122, 3, 7, 41, 43, 127}) add_c(n);
    // real: small, even pow2, even composite (complex half composite / prime<=41 / prime>41), odd composite, odd prime <=41 / >41
    for (int n : {8, 64, 90, 94, 26, 512, 45, 225, 7, 47}) add_r(n);
    for (int n : {4, 256, 60, 41, 53}) add_i(n);
    for (int n : {2, 6, 16, 64, 120, 94, 82, 1000}) add_ir(n);
    add_z(10, 17);
    add_z(64, 64);
    add_z(33, 20);
    return s;
}

struct Op { char kind; int a = 0, b = 0; };
// kinds: c fft(cmplx a)  f ifft(a)  r rfft(real a)  i irfft(rfft(real a), a)  z czt(a, b)  x xcorr(real a, real b)
//        w welch(real a, winlen b)  s resample(real a, p/q coded in b)  F new FftFilter(h of length a)  p filter.process(a samples)
//        P new own FftPlan(a)  q own plan solve   g randn(a)  u rand(a)  j randi(b, a)  k rng(a)  S shared plan a
static std::string op_str(const Op& o) {
    std::string s(1, o.kind);
    s += std::to_string(o.a);
    if (o.kind == 'z' || o.kind == 'x' || o.kind == 'w' || o.kind == 's' || o.kind == 'j') s += ":" + std::to_string(o.b);
    return s;
}

struct ThreadResult {
    std::vector<std::vector<double>> res;
    std::vector<int> kc, kr;
    std::string err;
};

// runs one thread program; every input derives from (seed, thread index, op index)
static void run_program(const std::vector<Op>& ops, uint64_t seed, int tid, const std::vector<Shared>& shared, ThreadResult& R) {
    R.res.assign(ops.size(), {});
    std::unique_ptr<FftFilter> flt;
    std::unique_ptr<FftPlan> own;
    int own_n = 0;
    try {
        for (size_t i = 0; i < ops.size(); ++i) {
            const Op& o = ops[i];
            vh::Rng g(seed * 1000003ULL + uint64_t(tid) * 7919ULL + i * 104729ULL + 17);
            auto& r = R.res[i];
            switch (o.kind) {
            case 'c': push(r, fft(in_c(g, o.a))); break;
            case 'f': push(r, ifft(in_c(g, o.a))); break;
            case 'r': push(r, rfft(in_r(g, o.a))); break;
            case 'i': push(r, irfft(rfft(in_r(g, o.a)), o.a)); break;
            case 'z': push(r, czt(in_c(g, o.a), o.b, expj(-2 * pi / (o.b + 1.5)), cmplx_t(1.0, 0.0))); break;
            case 'x': push(r, xcorr(in_r(g, o.a), in_r(g, o.b))); break;
            case 'w': { auto w = welch(in_r(g, o.a), o.b); push(r, w.pxx); push(r, w.f); break; }
            case 's': push(r, resample(in_r(g, o.a), o.b / 100, o.b % 100)); break;
            case 'F': flt = std::make_unique<FftFilter>(in_r(g, o.a)); break;
            case 'p': if (flt) push(r, flt->process(in_r(g, o.a))); break;
            case 'P': own = std::make_unique<FftPlan>(o.a); own_n = o.a; break;
            case 'q': if (own) push(r, own->solve(in_c(g, own_n))); break;
            case 'g': push(r, randn(o.a)); r.push_back(randn()); break;
            case 'u': push(r, dsplib::rand(o.a)); r.push_back(dsplib::rand()); break;
            case 'j': push(r, randi(o.b, o.a)); r.push_back(double(randi(o.b))); break;
            case 'k': dsplib::rng(o.a); break;
            case 'S': shared[size_t(o.a)].use(g, r); break;
            default: break;
            }
        }
    } catch (const std::exception& e) {
        R.err = e.what();
    }
    R.kc = verif_fft_cache_keys();
    R.kr = verif_rfft_cache_keys();
}

static std::vector<Op> gen_program(vh::Rng& g, int len, int nshared, int flavour) {
    // flavour 0: general mix; 1: shared-plan heavy; 2: transform heavy (cache churn); 3: rng heavy
    std::vector<Op> ops;
    bool have_f = false, have_p = false;
    for (int i = 0; i < len; ++i) {
        Op o;
        int r = g.range(0, 99);
        if (flavour == 1 && r < 70) r = 95;
        if (flavour == 2 && r >= 40) r = r % 40;
        if (flavour == 3 && r < 60) r = 80 + r % 12;
        if (r < 10) { o.kind = 'c'; o.a = pick_len(g); }
        else if (r < 18) { o.kind = 'f'; o.a = pick_len(g); }
        else if (r < 28) { o.kind = 'r'; o.a = pick_len(g); }
        else if (r < 36) { o.kind = 'i'; o.a = pick_len(g, true); }
        else if (r < 40) { o.kind = 'z'; o.a = g.range(1, 40); o.b = g.range(1, 40); }
        else if (r < 46) { o.kind = 'x'; o.a = g.range(1, 200); o.b = g.range(1, 200); }
        else if (r < 52) { o.kind = 'w'; o.b = g.coin() ? (8 << g.range(0, 4)) : g.range(5, 100); o.a = o.b + g.range(0, 600); }
        else if (r < 57) { const int p = g.range(1, 7), q = g.range(1, 7); o.kind = 's'; o.a = g.range(30, 300); o.b = p * 100 + q; }
        else if (r < 61) { o.kind = 'F'; o.a = g.range(2, 70); have_f = true; }
        else if (r < 68) { if (!have_f) { o.kind = 'F'; o.a = g.range(2, 70); have_f = true; } else { o.kind = 'p'; o.a = g.range(1, 400); } }
        else if (r < 72) { o.kind = 'P'; o.a = pick_len(g); have_p = true; }
        else if (r < 80) { if (!have_p) { o.kind = 'P'; o.a = pick_len(g); have_p = true; } else { o.kind = 'q'; } }
        else if (r < 84) { o.kind = 'g'; o.a = g.range(0, 50); }
        else if (r < 87) { o.kind = 'u'; o.a = g.range(0, 50); }
        else if (r < 89) { o.kind = 'j'; o.a = g.range(0, 20); o.b = g.range(1, 1000); }
        else if (r < 92) { o.kind = 'k'; o.a = g.coin() ? g.range(0, 3) : int(g.next() & 0xffffff); }
        else { o.kind = 'S'; o.a = g.range(0, nshared - 1); }
        ops.push_back(o);
    }
    return ops;
}

static std::string scenario_json(uint64_t seed, int idx, const char* creator, const std::vector<std::vector<Op>>& progs, int thread, int opi, const char* what) {
    std::string s = "{\"part\":\"mix\",\"seed\":" + std::to_string(seed) + ",\"scenario\":" + std::to_string(idx) + ",\"threads\":" + std::to_string(progs.size()) +
                    ",\"shared_plans_created_by\":\"" + creator + "\",\"what\":\"" + what + "\"";
    if (thread >= 0) s += ",\"thread\":" + std::to_string(thread) + ",\"op_index\":" + std::to_string(opi);
    s += ",\"programs\":[";
    size_t budget = 6500;
    for (size_t t = 0; t < progs.size(); ++t) {
        std::string p = std::string(t ? "," : "") + "\"";
        for (size_t i = 0; i < progs[t].size(); ++i) p += (i ? " " : "") + op_str(progs[t][i]);
        p += "\"";
        if (s.size() + p.size() > budget) { s += std::string(t ? "," : "") + "\"...\""; break; }
        s += p;
    }
    return s + "]}";
}

static void part_mix(vh::Rng& g, uint64_t seed, bool thorough) {
    const int cap = verif_fft_cache_capacity();
    std::vector<std::shared_ptr<void>> keep_main, keep_helper;
    vh::set_current("C09:crash", "{\"part\":\"mix\",\"what\":\"constructing the shared plan objects\"}");
    const std::vector<Shared> shared_main = make_shared_plans(keep_main);
    // second set: built by a helper thread that has ended (its thread_local caches are gone; the plans keep their sub-plans alive)
    std::vector<Shared> shared_helper;
    {
        std::thread h([&] { shared_helper = make_shared_plans(keep_helper); });
        h.join();
    }
    vh::clear_current();
    for (auto& s : shared_main) out.stat(std::string("shared_kind_") + s.desc.substr(0, s.desc.find('(')));
    out.stat("shared_plan_objects", (long long)shared_main.size());

    const int nscen = thorough ? 2500 : 200;
    for (int sc = 0; sc < nscen; ++sc) {
        // thread counts: quick covers 2,3,4,8,16 and random ones; thorough every count in 2..16 many times
        int nt;
        if (thorough) nt = 2 + sc % 15;
        else { static const int q[] = {2, 3, 4, 8, 16, 5, 12}; nt = q[sc % 7]; }
        const int flavour = (sc % 5 == 4) ? 1 : (sc % 5 == 3) ? 2 : (sc % 7 == 6) ? 3 : 0;
        const bool helper = (sc % 3 == 2);
        const std::vector<Shared>& shared = helper ? shared_helper : shared_main;
        const int len = thorough ? g.range(10, 40) : g.range(8, 24);
        std::vector<std::vector<Op>> progs;
        for (int t = 0; t < nt; ++t) progs.push_back(gen_program(g, len, int(shared.size()), flavour));
        if (sc % 4 == 1) {   // all threads run the SAME program (same lengths, same shared plans, same seeds at the same time)
            for (int t = 1; t < nt; ++t) progs[t] = progs[0];
        }
        if (sc % 5 == 4) {   // every thread hammers the same shared plan at the start
            const int k = g.range(0, int(shared.size()) - 1);
            for (int t = 0; t < nt; ++t) for (int j = 0; j < 4 && j < int(progs[t].size()); ++j) { progs[t][j].kind = 'S'; progs[t][j].a = k; }
        }
        const uint64_t sseed = seed * 1000 + sc;
        const std::string js = scenario_json(seed, sc, helper ? "ended helper thread" : "main thread", progs, -1, 0, "ThreadSanitizer report / crash during the scenario");

        // --- sequential reference: each program alone in a fresh thread
        std::vector<ThreadResult> ref(nt), con(nt);
        vh::set_current("C09:crash", js);
        vh::watch(thorough ? 900 : 300);
        for (int t = 0; t < nt; ++t) {
            std::thread x([&, t] { run_program(progs[t], sseed, t, shared, ref[t]); });
            x.join();
        }
        // --- concurrent run from a barrier
        const int r0 = g_tsan_reports;
        vh::set_current("C09:data-race", js);
        {
            SpinBarrier bar(nt);
            std::vector<std::thread> th;
            for (int t = 0; t < nt; ++t) th.emplace_back([&, t] { bar.wait(); run_program(progs[t], sseed, t, shared, con[t]); });
            for (auto& x : th) x.join();
        }
        vh::unwatch();
        vh::clear_current();
        if (g_tsan_reports != r0) out.fail("C09:data-race", js);

        // --- compare
        for (int t = 0; t < nt; ++t) {
            if (con[t].err != ref[t].err)
                out.fail("C09:result-differs", scenario_json(seed, sc, helper ? "ended helper thread" : "main thread", progs, t, -1, "exception only in one of the two runs"));
            for (size_t i = 0; i < progs[t].size(); ++i) {
                out.n_oracle++;
                out.stat(std::string("op_") + progs[t][i].kind);
                const char k = progs[t][i].kind;
                if (k == 'c' || k == 'f' || k == 'r' || k == 'i' || k == 'P') out.stat(std::string("len_") + len_class(progs[t][i].a));
                if (!same_bits(con[t].res[i], ref[t].res[i]))
                    out.fail("C09:result-differs", scenario_json(seed, sc, helper ? "ended helper thread" : "main thread", progs, t, int(i),
                                                                 "result of this call differs bitwise from the same thread program run alone"));
            }
            if (con[t].kc != ref[t].kc || con[t].kr != ref[t].kr)
                out.fail("C09:cache-state-differs", scenario_json(seed, sc, helper ? "ended helper thread" : "main thread", progs, t, -1,
                                                                  "final plan-cache keys differ from the same thread program run alone"));
            out.stat(int(con[t].kc.size()) >= cap ? "final_complex_cache_full" : "final_complex_cache_not_full");
            // CORR: the sequential LRU/factory model predicts the keys of this thread from its own calls only
            if (con[t].err.empty()) {
                std::string lhs = "keys " + std::to_string(cap) + " " + std::to_string(progs[t].size());
                for (auto& o : progs[t]) lhs += " " + op_str(o);
                out.corr(lhs, "C " + std::to_string(con[t].kc.size()) + vh::join_ints(con[t].kc) + " R " + std::to_string(con[t].kr.size()) + vh::join_ints(con[t].kr));
            } else {
                out.stat("programs_with_exception");
            }
        }
        {   // CORR: the sharing pattern of this scenario is admitted by the model's table (premise `exclusive` of the theorems)
            std::string lhs = "scenario " + std::to_string(nt);
            for (auto& p : progs) {
                lhs += " " + std::to_string(p.size());
                for (auto& o : p) lhs += " " + op_str(o);
            }
            out.corr(lhs, "1");
        }
        out.stat("scenarios");
        out.stat("threads_" + std::to_string(nt));
        out.stat(helper ? "shared_from_ended_thread" : "shared_from_main_thread");
        if (sc < 2) out.sample(js);
    }
}

int main(int argc, char** argv) {
    vh::Args args(argc, argv);
    vh::install_guards();
    vh::Rng g(args.seed * 0x9E3779B97F4A7C15ULL + 909);
    const char* repo = std::getenv("VERIF_REPO");
    scan::run(repo && *repo ? repo : "/repo");
    scan::report();
    std::fflush(stdout);
    part_rng(g, args.thorough);
    std::fflush(stdout);
    part_mix(g, args.seed, args.thorough);
#ifdef C09_TSAN
    out.stat("tsan_build", 1);
#else
    out.stat("tsan_build", 0);
#endif
    out.stat("tsan_reports", g_tsan_reports);
    out.finish();
    // a ThreadSanitizer report that was not attributed above still makes the runtime exit with its
    // exit code at finalisation; the death callback then prints this line
    vh::set_current("C09:data-race", "{\"what\":\"ThreadSanitizer reported a data race (see stderr_tail)\"}");
    return 0;
}
