// C09 — concurrent use from several threads is race-free and result-preserving.
//
// Part 1 (source scan, tie of the Lean footprint table to the code): the library sources under
//   $VERIF_REPO/{lib,include} are tokenised and every piece of state that outlives a call is
//   listed: `mutable` members, thread_local variables, namespace-scope / function-local-static /
//   static-member variables (const and non-const), const_casts, the data members and the non-const
//   member functions of the plan classes.  Each list is a CORR case `footprint <kind>`; the Lean
//   table (Model/Conc.lean) must predict exactly these lists.  ORACLE `C09:shared-mutable-state`:
//   a non-const non-thread_local static, or a mutable member used in a const method.
// Part 2 (random-number state): a FIXED interleaving of rng()/rand() calls over several threads is
//   enforced with a turn counter; CORR `rng`: the Lean model (one mt19937 per thread) predicts
//   every drawn value bit-exactly; ORACLE `C09:rng-not-isolated`: each thread's values equal the
//   values it draws when it runs alone.
// Part 3 (the quantifier of the property): 2..16 threads released from a spin barrier, each running
//   a randomised mix of fft/ifft/rfft/irfft (pow2/small/composite/prime<=41/prime>41, hitting and
//   evicting the 4-entry plan caches), czt, xcorr, welch, resample, FftFilter and own FftPlan objects,
//   randn/rand/randi/rng, and const solves on SHARED FftPlan/FftPlanR/IfftPlan/IfftPlanR/CztPlan
//   objects of every plan kind.  ORACLE `C09:result-differs`: every result equals bit-exactly the
//   result of the same thread program run alone; `C09:cache-state-differs`: so do the final keys
//   of the thread's plan caches; `C09:data-race`: ThreadSanitizer report during the scenario
//   (counted through __tsan_on_report).  CORR `keys`: the final cache keys of every thread are
//   the ones the sequential LRU/factory model (Model/Lru.lean) computes from that thread's calls.
//   Every input (signals, filter coefficients) belongs to an INPUT CLASS: unit-scale, subnormal (1e-308..1e-321),
//   products/quotients that underflow, mixed (exact zeros in runs, -0, subnormal and power-of-two elements), rounding
//   ties, near-DBL_MAX (sums overflow to inf, inf-inf = NaN), non-finite elements — all built from bit patterns, so
//   the inputs themselves do not depend on the floating-point mode of the generating thread.  Programs contain
//   calls that THROW (irfft with odd n / wrong spectrum size, const solve on a shared or own plan with a wrong-size
//   input); ORACLE `C09:result-differs` also compares every valid call with the same program run WITHOUT the failing
//   calls.  "Large" scenarios: the first plan of a length above 2^16 / 2^17 (k*49152, k*65536, primes and products of
//   primes above 2^16) is created by several threads at once, after smaller transforms.
// Part 4 (floating-point environment, thread history): the per-thread FP environment (fegetround, MXCSR control
//   bits incl. FTZ/DAZ, x87 control word) is read before and after EVERY library call in every thread and in main;
//   ORACLE `C09:fp-environment-changed`: a library call left a modified FP mode behind (witness = the call).
//   A pool of worker threads is created BEFORE the first library call of the process ("early" threads: they cannot
//   inherit anything a library call did to main's environment).  The main thread computes a probe program
//   (every transform kind x every input class) single-threaded BEFORE any other thread made a library call, then
//   early threads, late threads, a thread created by an early thread and a thread created by a late thread after
//   its calls evaluate the same calls on the same inputs from a barrier (half of them interleaved with throwing
//   calls), then main computes it again AFTER all threads finished: ORACLE `C09:result-differs`: all bit-identical.
// Part 5 (process histories): one-shot-per-process effects (lazy tables, "once" initialisers) disarm themselves,
//   so the harness re-executes itself (`--history k`) as fresh child processes in which the FIRST library calls of
//   the process are made by several worker threads at once (subnormal probes / large first plans / throwing
//   first calls) and the main thread recomputes everything single-threaded only afterwards.
#include "common.hpp"
#include <dsplib.h>
#include <atomic>
#include <thread>
#include <mutex>
#include <condition_variable>
#include <fstream>
#include <filesystem>
#include <set>
#include <algorithm>
#include <memory>
#include <cfenv>
#include <sys/wait.h>
#if defined(__x86_64__) || defined(__i386__)
#include <xmmintrin.h>
#define C09_X86 1
#endif
using namespace dsplib;

namespace dsplib {
std::vector<int> verif_fft_cache_keys();
std::vector<int> verif_rfft_cache_keys();
int verif_fft_cache_capacity();
}

static vh::Out out;

// ------------------------------------------------------------------------------------------------
// ThreadSanitizer report counter (the runtime calls this weak hook for every report it prints)
static volatile int g_tsan_reports = 0;
#if defined(__has_feature)
#if __has_feature(thread_sanitizer)
#define C09_TSAN 1
extern "C" __attribute__((no_sanitize("thread"))) void __tsan_on_report(void*) {
    g_tsan_reports = g_tsan_reports + 1;
}
#endif
#endif

// ================================================================================================
// Part 1: source scan
// ================================================================================================
namespace scan {

struct Var {
    std::string file, scope, name;   // scope: "" (namespace), "fn:<f>", "class:<C>"
    std::set<std::string> quals;
    std::string type;
};
struct Method {
    std::string file, cls, name;
    bool is_const = false, is_static = false, special = false, has_body = false;
};
struct Body {
    std::string file, cls, name;
    bool is_const = false;
    std::vector<std::string> toks;
};
struct Class {
    std::string name;
    std::vector<std::string> bases;
};

static std::vector<Var> vars;
static std::vector<Method> methods;
static std::vector<Body> bodies;
static std::vector<Class> classes;
static std::map<std::string, int> const_casts;

static bool is_ident(const std::string& t) {
    return !t.empty() && (std::isalpha((unsigned char)t[0]) || t[0] == '_');
}

static std::vector<std::string> tokenize(const std::string& src) {
    std::vector<std::string> t;
    const size_t n = src.size();
    size_t i = 0;
    bool line_start = true;
    while (i < n) {
        const char c = src[i];
        if (c == '\n') { line_start = true; ++i; continue; }
        if (c == ' ' || c == '\t' || c == '\r') { ++i; continue; }
        if (c == '/' && i + 1 < n && src[i + 1] == '/') { while (i < n && src[i] != '\n') ++i; continue; }
        if (c == '/' && i + 1 < n && src[i + 1] == '*') {
            i += 2;
            while (i + 1 < n && !(src[i] == '*' && src[i + 1] == '/')) ++i;
            i += 2;
            continue;
        }
        if (c == '#' && line_start) {   // preprocessor line (with continuations); both branches of #if are scanned
            while (i < n && src[i] != '\n') {
                if (src[i] == '\\' && i + 1 < n && src[i + 1] == '\n') ++i;
                ++i;
            }
            continue;
        }
        line_start = false;
        if (c == '"' || c == '\'') {
            const char q = c;
            ++i;
            while (i < n && src[i] != q) { if (src[i] == '\\') ++i; ++i; }
            ++i;
            t.push_back(q == '"' ? "\"\"" : "''");
            continue;
        }
        if (std::isalnum((unsigned char)c) || c == '_') {
            size_t j = i;
            while (j < n && (std::isalnum((unsigned char)src[j]) || src[j] == '_' || (src[j] == '.' && std::isdigit((unsigned char)src[i])) ||
                             (src[j] == '\'' && std::isdigit((unsigned char)src[i]) && j + 1 < n && std::isalnum((unsigned char)src[j + 1])))) ++j;
            t.push_back(src.substr(i, j - i));
            i = j;
            continue;
        }
        if (c == ':' && i + 1 < n && src[i + 1] == ':') { t.push_back("::"); i += 2; continue; }
        if (c == '-' && i + 1 < n && src[i + 1] == '>') { t.push_back("->"); i += 2; continue; }
        if ((c == '=' || c == '!' || c == '<' || c == '>') && i + 1 < n && src[i + 1] == '=') { t.push_back(std::string(1, c) + "="); i += 2; continue; }
        t.push_back(std::string(1, c));
        ++i;
    }
    return t;
}

struct Parser {
    std::string file;
    std::vector<std::string> t;
    size_t p = 0;

    static bool kw_qual(const std::string& s) {
        return s == "static" || s == "thread_local" || s == "mutable" || s == "const" || s == "constexpr" || s == "extern" || s == "inline" ||
               s == "volatile";
    }

    // skips a balanced {...} / (...) / [...] group starting at t[p] (an opening bracket)
    void skip_group() {
        int d = 0;
        for (; p < t.size(); ++p) {
            const auto& s = t[p];
            if (s == "{" || s == "(" || s == "[") ++d;
            else if (s == "}" || s == ")" || s == "]") { --d; if (d == 0) { ++p; return; } }
        }
    }

    static std::vector<std::string> strip_template(const std::vector<std::string>& d) {
        size_t i = 0;
        while (i < d.size() && d[i] == "template") {
            ++i;
            if (i < d.size() && d[i] == "<") {
                int a = 0;
                for (; i < d.size(); ++i) {
                    if (d[i] == "<") ++a;
                    else if (d[i] == ">") { --a; if (a == 0) { ++i; break; } }
                }
            }
        }
        // attributes [[...]] are kept as tokens "[" "[" ... they never matter for the classification below except '(' depth; drop them
        std::vector<std::string> r;
        for (; i < d.size(); ++i) {
            if (d[i] == "[" && i + 1 < d.size() && d[i + 1] == "[") {
                int b = 0;
                for (; i < d.size(); ++i) {
                    if (d[i] == "[") ++b;
                    else if (d[i] == "]") { --b; if (b == 0) break; }
                }
                continue;
            }
            r.push_back(d[i]);
        }
        return r;
    }

    // index of the first top-level '(' that is not preceded (at top level) by '='; -1 if none
    static int fn_paren(const std::vector<std::string>& d) {
        int depth = 0;
        for (size_t i = 0; i < d.size(); ++i) {
            const auto& s = d[i];
            if (depth == 0 && s == "=" && !(i > 0 && d[i - 1] == "operator")) return -1;
            if (s == "(" ) { if (depth == 0) return int(i); ++depth; }
            else if (s == "[" || s == "{") ++depth;
            else if (s == ")" || s == "]" || s == "}") --depth;
        }
        return -1;
    }

    static size_t close_of(const std::vector<std::string>& d, size_t open) {
        int depth = 0;
        for (size_t i = open; i < d.size(); ++i) {
            if (d[i] == "(" || d[i] == "[" || d[i] == "{") ++depth;
            else if (d[i] == ")" || d[i] == "]" || d[i] == "}") { --depth; if (depth == 0) return i; }
        }
        return d.size();
    }

    void record_var(const std::vector<std::string>& d0, const std::string& scope) {
        const auto d = strip_template(d0);
        if (d.empty()) return;
        const std::string& f = d[0];
        if (f == "using" || f == "typedef" || f == "friend" || f == "static_assert" || f == "namespace" || f == "enum" || f == "class" ||
            f == "struct" || f == "union" || f == "return" || f == "public" || f == "private" || f == "protected" || f == "default" || f == "delete")
            return;
        Var v;
        v.file = file;
        v.scope = scope;
        // the declared name: last identifier before '=', '{', '[' (array) or the end, at top level
        int depth = 0;
        size_t end = d.size();
        for (size_t i = 0; i < d.size(); ++i) {
            const auto& s = d[i];
            if (depth == 0 && (s == "=" || s == "{" || s == "(")) { end = i; break; }
            if (s == "[") { if (depth == 0) { end = i; break; } }
            if (s == "<") ++depth;          // template argument lists of the type
            else if (s == ">") --depth;
        }
        std::string name;
        size_t ni = 0;
        for (size_t i = end; i-- > 0;) {
            if (is_ident(d[i]) && !kw_qual(d[i])) { name = d[i]; ni = i; break; }
        }
        if (name.empty()) return;
        for (size_t i = 0; i < ni; ++i) {
            if (kw_qual(d[i])) v.quals.insert(d[i]);
            else v.type += d[i];
        }
        if (v.type.empty()) return;      // a bare expression statement, not a declaration
        v.name = name;
        vars.push_back(v);
    }

    void parse_body(const std::string& cls, const std::string& name, bool is_const) {
        // t[p] == "{"
        Body b;
        b.file = file; b.cls = cls; b.name = name; b.is_const = is_const;
        int depth = 0;
        while (p < t.size()) {
            const std::string s = t[p];
            if (s == "{") { ++depth; b.toks.push_back(s); ++p; continue; }
            if (s == "}") { --depth; b.toks.push_back(s); ++p; if (depth == 0) break; continue; }
            if (s == "const_cast") const_casts[file]++;
            if (s == "static" || s == "thread_local") {
                // a local declaration with static storage duration: collect up to ';'
                std::vector<std::string> d;
                while (p < t.size() && t[p] != ";") {
                    if (t[p] == "{" || t[p] == "(" || t[p] == "[") {
                        const size_t a = p;
                        skip_group();
                        for (size_t i = a; i < p; ++i) { d.push_back(t[i]); b.toks.push_back(t[i]); }
                        continue;
                    }
                    d.push_back(t[p]);
                    b.toks.push_back(t[p]);
                    ++p;
                }
                record_var(d, "fn:" + (cls.empty() ? name : cls + "::" + name));
                continue;
            }
            b.toks.push_back(s);
            ++p;
        }
        bodies.push_back(std::move(b));
    }

    void handle_function(const std::vector<std::string>& d0, const std::string& cur_class, bool has_body) {
        const auto d = strip_template(d0);
        const int op = fn_paren(d);
        if (op <= 0) { if (has_body) parse_body(cur_class, "?", false); return; }
        size_t po = size_t(op);
        std::string name = d[po - 1];
        if (name == "operator" && po + 2 < d.size() && d[po + 1] == ")") { name = "operator()"; po += 2; }
        else if (po >= 2 && d[po - 2] == "operator") name = "operator" + name;
        else if (!is_ident(name)) name = "operator" + name;
        std::string cls = cur_class;
        bool tilde = false;
        // out-of-line definition  Class::name(
        {
            size_t k = size_t(op) - 1;
            if (k >= 1 && d[k - 1] == "~") { tilde = true; if (k >= 1) --k; }
            if (k >= 2 && d[k - 1] == "::" && is_ident(d[k - 2])) cls = d[k - 2];
        }
        if (size_t(op) >= 2 && d[size_t(op) - 2] == "~") tilde = true;
        const size_t pc = close_of(d, po);
        bool is_const = false;
        for (size_t i = pc + 1; i < d.size(); ++i) {
            if (d[i] == ":" || d[i] == "->" || d[i] == "=") break;
            if (d[i] == "const") is_const = true;
        }
        Method m;
        m.file = file; m.cls = cls; m.name = name; m.is_const = is_const; m.has_body = has_body;
        for (size_t i = 0; i + 1 < size_t(op); ++i) if (d[i] == "static") m.is_static = true;
        m.special = tilde || (!cls.empty() && name == cls) || name == "operator=";
        for (size_t i = 0; i < size_t(op); ++i) if (d[i] == "friend") m.special = true;
        if (!cls.empty()) methods.push_back(m);
        if (has_body) parse_body(cls, name, is_const);
    }

    // parses declarations of a namespace (cls empty) or class scope until the closing '}' (or EOF)
    void parse_scope(const std::string& cls) {
        std::vector<std::string> d;
        bool in_init_list = false;
        while (p < t.size()) {
            const std::string s = t[p];
            if (s == "}") { ++p; return; }
            if (s == ";") {
                ++p;
                const auto ds = strip_template(d);
                if (!ds.empty()) {
                    const int fp = fn_paren(ds);
                    // `T name(16);` / `T name("x");` is a variable with a parenthesised initialiser, not a function declaration
                    const bool paren_init = fp > 0 && size_t(fp) + 1 < ds.size() &&
                                            (std::isdigit((unsigned char)ds[size_t(fp) + 1][0]) || ds[size_t(fp) + 1] == "\"\"" || ds[size_t(fp) + 1] == "''" || ds[size_t(fp) + 1] == "-");
                    if (fp > 0 && !paren_init && !(ds[0] == "using" || ds[0] == "typedef" || ds[0] == "static_assert")) handle_function(d, cls, false);
                    else record_var(d, cls.empty() ? "" : "class:" + cls);
                }
                d.clear();
                in_init_list = false;
                continue;
            }
            if ((s == "public" || s == "private" || s == "protected") && p + 1 < t.size() && t[p + 1] == ":" && d.empty()) { p += 2; continue; }
            if (s == "const_cast") const_casts[file]++;
            if (s == "(" || s == "[") {
                const size_t a = p;
                skip_group();
                for (size_t i = a; i < p; ++i) d.push_back(t[i]);
                continue;
            }
            if (s == ":" ) {
                const auto ds = strip_template(d);
                if (fn_paren(ds) > 0) in_init_list = true;
                d.push_back(s);
                ++p;
                continue;
            }
            if (s == "{") {
                const auto ds = strip_template(d);
                const bool is_ns = !ds.empty() && (ds[0] == "namespace" || (ds[0] == "inline" && ds.size() > 1 && ds[1] == "namespace") || ds[0] == "extern");
                if (is_ns && fn_paren(ds) < 0) { ++p; d.clear(); parse_scope(cls.empty() ? "" : cls); continue; }
                if (!ds.empty() && ds[0] == "enum") { skip_group(); continue; }
                if (fn_paren(ds) > 0) {
                    const std::string& prev = d.back();
                    if (in_init_list && (is_ident(prev) || prev == ">") && prev != "const" && prev != "noexcept" && prev != "override" && prev != "final") {
                        const size_t a = p;
                        skip_group();
                        for (size_t i = a; i < p; ++i) d.push_back(t[i]);
                        continue;
                    }
                    handle_function(d, cls, true);
                    d.clear();
                    in_init_list = false;
                    continue;
                }
                size_t ck = ds.size();
                for (size_t i = 0; i < ds.size(); ++i) if (ds[i] == "class" || ds[i] == "struct" || ds[i] == "union") { ck = i; break; }
                bool has_eq = false;
                for (auto& x : ds) if (x == "=") has_eq = true;
                if (ck < ds.size() && !has_eq) {
                    Class c;
                    for (size_t i = ck + 1; i < ds.size(); ++i) if (is_ident(ds[i]) && ds[i] != "final" && ds[i] != "alignas") { c.name = ds[i]; break; }
                    bool after = false;
                    for (size_t i = ck + 1; i < ds.size(); ++i) {
                        if (ds[i] == ":") after = true;
                        else if (after && is_ident(ds[i]) && ds[i] != "public" && ds[i] != "private" && ds[i] != "protected" && ds[i] != "virtual") c.bases.push_back(ds[i]);
                    }
                    classes.push_back(c);
                    ++p;
                    d.clear();
                    parse_scope(c.name.empty() ? "?" : c.name);
                    continue;
                }
                // a variable with a braced initialiser
                const size_t a = p;
                skip_group();
                d.push_back("{");
                (void)a;
                d.push_back("}");
                continue;
            }
            d.push_back(s);
            ++p;
        }
    }
};

static void run(const std::string& repo) {
    namespace fs = std::filesystem;
    std::vector<std::string> files;
    for (const char* sub : {"lib", "include"}) {
        const fs::path root = fs::path(repo) / sub;
        if (!fs::exists(root)) continue;
        for (auto& e : fs::recursive_directory_iterator(root)) {
            if (!e.is_regular_file()) continue;
            const auto ext = e.path().extension().string();
            if (ext == ".h" || ext == ".hpp" || ext == ".cpp" || ext == ".cc") files.push_back(e.path().string());
        }
    }
    std::sort(files.begin(), files.end());
    for (auto& f : files) {
        std::ifstream in(f, std::ios::binary);
        std::stringstream ss;
        ss << in.rdbuf();
        Parser ps;
        ps.file = f.substr(repo.size() + 1);
        ps.t = tokenize(ss.str());
        while (ps.p < ps.t.size()) ps.parse_scope("");   // a stray '}' ends a scope early: keep going
        out.stat("scan_files");
        out.stat("scan_tokens", (long long)ps.t.size());
    }
}

static bool derives_from_plan(const std::string& name, int fuel = 8) {
    if (name == "BaseFftPlanC" || name == "BaseFftPlanR") return true;
    if (fuel == 0) return false;
    for (auto& c : classes)
        if (c.name == name)
            for (auto& b : c.bases) if (derives_from_plan(b, fuel - 1)) return true;
    return false;
}
static bool is_plan_class(const std::string& n) {
    return derives_from_plan(n) || n == "IfftPlan" || n == "IfftPlanR" || n == "CztPlanImpl" || n == "PlanTree";
}
static bool is_sync_type(const std::string& ty) {
    return ty.find("mutex") != std::string::npos || ty.find("atomic") != std::string::npos || ty.find("once_flag") != std::string::npos;
}

static std::string id_of(const Var& v) {
    std::string sc = v.scope;
    if (sc.rfind("fn:", 0) == 0) sc = sc.substr(3);
    else if (sc.rfind("class:", 0) == 0) sc = sc.substr(6);
    return v.file + ":" + sc + ":" + v.name;
}

static void emit(const std::string& kind, std::vector<std::string> l) {
    std::sort(l.begin(), l.end());
    std::string r = std::to_string(l.size());
    for (auto& s : l) r += " " + s;
    out.corr("footprint " + kind, r);
    out.stat("footprint_" + kind, (long long)l.size());
}

static void report() {
    std::vector<std::string> l_mut, l_tls, l_sconst, l_smut, l_cc, l_pm, l_pnc;
    for (auto& v : vars) {
        const bool is_class = v.scope.rfind("class:", 0) == 0;
        const bool is_fn = v.scope.rfind("fn:", 0) == 0;
        const bool tl = v.quals.count("thread_local");
        const bool cst = v.quals.count("const") || v.quals.count("constexpr");
        const bool st = v.quals.count("static");
        if (is_class && v.quals.count("mutable")) {
            l_mut.push_back(id_of(v));
            // ORACLE: used in a const member function of its class?
            const std::string cls = v.scope.substr(6);
            for (auto& b : bodies) {
                if (b.cls != cls || !b.is_const) continue;
                if (std::find(b.toks.begin(), b.toks.end(), v.name) != b.toks.end() && !is_sync_type(v.type)) {
                    out.fail("C09:shared-mutable-state", "{\"what\":\"mutable member used in a const member function\",\"var\":\"" + id_of(v) +
                             "\",\"method\":\"" + b.cls + "::" + b.name + "\",\"type\":\"" + v.type + "\"}");
                    break;
                }
            }
        }
        if (is_class && !st) { if (is_plan_class(v.scope.substr(6))) l_pm.push_back(v.scope.substr(6) + ":" + v.name); continue; }
        if (is_fn && !st && !tl) continue;
        if (v.quals.count("extern")) continue;
        if (tl) { l_tls.push_back(id_of(v)); continue; }
        if (cst) { l_sconst.push_back(id_of(v)); continue; }
        l_smut.push_back(id_of(v));
        if (!is_sync_type(v.type))
            out.fail("C09:shared-mutable-state", "{\"what\":\"non-const variable with static storage duration that is not thread_local\",\"var\":\"" +
                     id_of(v) + "\",\"type\":\"" + v.type + "\"}");
    }
    std::set<std::string> pnc;
    for (auto& m : methods)
        if (is_plan_class(m.cls) && !m.is_const && !m.is_static && !m.special) pnc.insert(m.cls + "::" + m.name);
    l_pnc.assign(pnc.begin(), pnc.end());
    for (auto& kv : const_casts) l_cc.push_back(kv.first + ":" + std::to_string(kv.second));
    out.n_oracle += (long long)vars.size();
    emit("mutable", l_mut);
    emit("thread_local", l_tls);
    emit("shared_mutable", l_smut);
    emit("shared_const", l_sconst);
    emit("const_cast", l_cc);
    emit("plan_members", l_pm);
    emit("plan_nonconst_methods", l_pnc);
    out.stat("scan_variables", (long long)vars.size());
    out.stat("scan_methods", (long long)methods.size());
    out.stat("scan_function_bodies", (long long)bodies.size());
    out.stat("scan_classes", (long long)classes.size());
    if (std::getenv("C09_DUMP")) {
        for (auto& v : vars) {
            std::string q;
            for (auto& s : v.quals) q += s + ",";
            std::fprintf(stderr, "VAR %s | %s | %s | %s | %s\n", v.file.c_str(), v.scope.c_str(), v.name.c_str(), q.c_str(), v.type.c_str());
        }
        for (auto& m : methods)
            std::fprintf(stderr, "METHOD %s %s::%s const=%d static=%d special=%d body=%d\n", m.file.c_str(), m.cls.c_str(), m.name.c_str(), m.is_const,
                         m.is_static, m.special, m.has_body);
        for (auto& c : classes) {
            std::string b;
            for (auto& s : c.bases) b += s + ",";
            std::fprintf(stderr, "CLASS %s : %s\n", c.name.c_str(), b.c_str());
        }
    }
}

}   // namespace scan

// ================================================================================================
// helpers shared by parts 2..5
// ================================================================================================
struct SpinBarrier {
    std::atomic<int> arrived{0};
    const int n;
    explicit SpinBarrier(int n_) : n(n_) {}
    void wait() {
        arrived.fetch_add(1, std::memory_order_acq_rel);
        while (arrived.load(std::memory_order_acquire) < n) std::this_thread::yield();
    }
};

static uint64_t bits_of(double d) { uint64_t u; std::memcpy(&u, &d, 8); return u; }
static double from_bits(uint64_t u) { double d; std::memcpy(&d, &u, 8); return d; }

static bool same_bits(const std::vector<double>& a, const std::vector<double>& b) {
    return a.size() == b.size() && (a.empty() || std::memcmp(a.data(), b.data(), a.size() * sizeof(double)) == 0);
}
// results are compared bit for bit (sign of zero included); every NaN is one value (payload/sign are not part of the result)
static inline double canon(double v) { return v != v ? from_bits(0x7ff8000000000000ULL) : v; }
static void push(std::vector<double>& r, const arr_cmplx& y) { for (int i = 0; i < y.size(); ++i) { r.push_back(canon(y[i].re)); r.push_back(canon(y[i].im)); } }
static void push(std::vector<double>& r, const arr_real& y) { for (int i = 0; i < y.size(); ++i) r.push_back(canon(y[i])); }
static void push(std::vector<double>& r, const arr_int& y) { for (int i = 0; i < y.size(); ++i) r.push_back(double(y[i])); }

// ------------------------------------------------------------------------------------------------
// floating-point environment of the calling thread
struct FpEnv {
    int round = 0;        // fegetround()
    unsigned mx = 0;      // x86: MXCSR control bits (DAZ 6, exception masks 7..12, rounding control 13..14, FTZ 15); aarch64: FPCR
    unsigned cw = 0;      // x86: x87 control word
};
static inline bool operator==(const FpEnv& a, const FpEnv& b) { return a.round == b.round && a.mx == b.mx && a.cw == b.cw; }
static inline bool operator!=(const FpEnv& a, const FpEnv& b) { return !(a == b); }

static inline FpEnv fpenv_now() {
    FpEnv e;
    e.round = std::fegetround();
#if defined(C09_X86)
    e.mx = _mm_getcsr() & 0xFFC0u;   // the sticky status flags (bits 0..5) are not part of the mode
    unsigned short cw = 0;
    __asm__ __volatile__("fnstcw %0" : "=m"(cw));
    e.cw = cw;
#elif defined(__aarch64__)
    unsigned long long fpcr = 0;
    __asm__ __volatile__("mrs %0, fpcr" : "=r"(fpcr));
    e.mx = unsigned(fpcr);
#endif
    return e;
}
static std::string hex4(unsigned v) { char b[16]; std::snprintf(b, sizeof b, "0x%04x", v); return b; }
static std::string fpenv_json(const FpEnv& e) {
    return "{\"fegetround\":" + std::to_string(e.round) + ",\"mxcsr_control\":\"" + hex4(e.mx) + "\",\"x87_control_word\":\"" + hex4(e.cw) + "\"}";
}
static std::string fpenv_changed(const FpEnv& b, const FpEnv& a) {
    std::string s;
    auto add = [&](const char* w) { if (!s.empty()) s += " "; s += w; };
    if (b.round != a.round) add("fegetround");
#if defined(C09_X86)
    const unsigned d = b.mx ^ a.mx;
    if (d & 0x8000u) add("MXCSR.FTZ");
    if (d & 0x0040u) add("MXCSR.DAZ");
    if (d & 0x6000u) add("MXCSR.RC");
    if (d & 0x1F80u) add("MXCSR.exception-masks");
    if (b.cw != a.cw) add("x87-control-word");
#else
    if (b.mx != a.mx) add("FPCR");
#endif
    return s;
}
static FpEnv fpenv_default() {
    FpEnv e;
    e.round = FE_TONEAREST;
#if defined(C09_X86)
    e.mx = 0x1F80u;
    e.cw = 0x037Fu;
#endif
    return e;
}

struct EnvLog {   // one per thread (no sharing): witnesses are reported by the main thread after the join
    std::vector<std::string> fails;
    long long checks = 0;
    std::map<char, std::pair<long long, long long>> kind;   // call kind -> (checked, changed)
};
static std::string esc(const std::string& s) {
    std::string r;
    for (char c : s) { if (c == '"' || c == '\\') r += '\\'; if ((unsigned char)c >= 0x20) r += c; }
    return r;
}
static void env_after(EnvLog& L, char kind, const FpEnv& before, const std::string& who, const std::function<std::string()>& call) {
    const FpEnv a = fpenv_now();
    ++L.checks;
    auto& k = L.kind[kind];
    ++k.first;
    if (a != before) ++k.second;
    if (a != before && L.fails.size() < 4)
        L.fails.push_back("{\"what\":\"a library call returned with a modified floating-point environment of the calling thread\",\"thread\":\"" + esc(who) +
                          "\",\"call\":\"" + esc(call()) + "\",\"changed\":\"" + fpenv_changed(before, a) + "\",\"before\":" + fpenv_json(before) +
                          ",\"after\":" + fpenv_json(a) + "}");
}
static long long g_env_checks = 0;
static std::map<char, std::pair<long long, long long>> g_env_kind;
static void env_report(EnvLog& L) {   // main thread only
    for (auto& f : L.fails) out.fail("C09:fp-environment-changed", f);
    g_env_checks += L.checks;
    out.n_oracle += L.checks;
    for (auto& kv : L.kind) { g_env_kind[kv.first].first += kv.second.first; g_env_kind[kv.first].second += kv.second.second; }
    L.fails.clear();
    L.kind.clear();
    L.checks = 0;
}
// CORR `fpenv <kind> <calls>`: the number of calls of this kind that changed the caller's FP environment; the model's
// table (Model/Conc.lean, `writesFpEnv`) says which entry points write it: none
static void env_corr() {
    for (auto& kv : g_env_kind)
        out.corr(std::string("fpenv ") + kv.first + " " + std::to_string(kv.second.first), std::to_string(kv.second.second));
}

// ------------------------------------------------------------------------------------------------
// worker threads created before the first library call of the process
class Pool {
    struct W {
        std::thread th;
        std::mutex m;
        std::condition_variable cv;
        std::function<void()> job;
        bool has = false, quit = false, idle = true;
        FpEnv env0;
    };
    std::vector<std::unique_ptr<W>> w_;

public:
    explicit Pool(int n) {
        for (int i = 0; i < n; ++i) {
            w_.push_back(std::make_unique<W>());
            W* x = w_.back().get();
            x->th = std::thread([x] {
                std::unique_lock<std::mutex> lk(x->m);
                x->env0 = fpenv_now();
                for (;;) {
                    x->cv.wait(lk, [x] { return x->has || x->quit; });
                    if (x->quit) return;
                    auto j = std::move(x->job);
                    x->has = false;
                    lk.unlock();
                    j();
                    lk.lock();
                    x->idle = true;
                    x->cv.notify_all();
                }
            });
        }
    }
    int size() const { return int(w_.size()); }
    void start(int i, std::function<void()> j) {
        W* x = w_[size_t(i)].get();
        std::lock_guard<std::mutex> lk(x->m);
        x->job = std::move(j);
        x->has = true;
        x->idle = false;
        x->cv.notify_all();
    }
    void wait(int i) {
        W* x = w_[size_t(i)].get();
        std::unique_lock<std::mutex> lk(x->m);
        x->cv.wait(lk, [x] { return x->idle && !x->has; });
    }
    FpEnv env0(int i) {
        W* x = w_[size_t(i)].get();
        std::lock_guard<std::mutex> lk(x->m);
        return x->env0;
    }
    ~Pool() {
        for (auto& x : w_) {
            { std::lock_guard<std::mutex> lk(x->m); x->quit = true; x->cv.notify_all(); }
            x->th.join();
        }
    }
};

// ------------------------------------------------------------------------------------------------
// input classes.  Every value is assembled from integer bit patterns (or is an exact, normal constant), so the
// inputs do not depend on the rounding / flush mode of the thread that generates them.
enum InClass { IC_UNIT = 0, IC_DENORM, IC_UNDERFLOW, IC_MIXED, IC_TIES, IC_HUGE, IC_NONFINITE, N_IC };
static const char* const IC_NAME[N_IC] = {"unit", "subnormal", "underflow", "mixed", "ties", "huge", "nonfinite"};

struct InGen {
    int cls;
    int kbits = 52;       // subnormal: number of significant mantissa bits (2^(kbits-1074): 8 -> 1e-321, 44 -> 1e-310, 52 -> 2e-308)
    int ebase = 1;        // underflow / huge: biased exponent base
    int zero_from = -1, zero_len = 0;
    int i = 0;
    InGen(vh::Rng& g, int cls_, int n) : cls(cls_) {
        if (cls == IC_DENORM) { static const int kb[] = {8, 11, 20, 33, 41, 44, 45, 48, 52}; kbits = kb[g.range(0, 8)]; }
        if (cls == IC_UNDERFLOW) { static const int eb[] = {493 /*2^-530: products underflow*/, 23 /*2^-1000*/, 8, 2, 1 /*smallest normals: any scaling below 1 underflows*/}; ebase = eb[g.range(0, 4)]; }
        if (cls == IC_HUGE) ebase = 2044 - (g.range(0, 3) == 0 ? g.range(0, 12) : 0);
        if (cls == IC_MIXED && n > 2 && g.coin()) { zero_from = g.range(0, n - 1); zero_len = g.range(1, n); }
    }
    double next(vh::Rng& g) {
        const int idx = i++;
        const uint64_t r = g.next();
        const uint64_t sign = (r & 1) << 63;
        switch (cls) {
        case IC_DENORM: return from_bits(sign | (g.next() >> (64 - kbits)));
        case IC_UNDERFLOW: return from_bits(sign | (uint64_t(ebase + int((r >> 1) % 3)) << 52) | (g.next() >> 12));
        case IC_HUGE: return from_bits(sign | (uint64_t(ebase + int((r >> 1) % 3)) << 52) | (g.next() >> 12));
        case IC_TIES: {
            static const double t[] = {1.0, 0x1p-53, 0x1.8p-52, 0x1.0000000000001p0, 0x1p53, 0x1.0000000000001p53, 0x1.0000000000001p-1, 0x1.fffffffffffffp-1,
                                       0x1.8p0, 0x1p-52, 0x1.fffffffffffffp52, 3.0, 0x1p-54, 0x1.5555555555555p-2, 0.1, 0x1p-1022};
            const double v = t[(r >> 1) % 16];
            return (r & 1) ? -v : v;
        }
        case IC_MIXED: {
            if (idx >= zero_from && idx < zero_from + zero_len) return 0.0;
            switch ((r >> 1) % 12) {
            case 0: return 0.0;
            case 1: return -0.0;
            case 2: return from_bits(sign | (g.next() >> (12 + (r >> 8) % 44)));            // subnormal element
            case 3: return from_bits(sign | (uint64_t(1023 - 30 + (r >> 8) % 61) << 52));   // exact power of two
            case 4: return from_bits(sign | (uint64_t(1) << 52));                           // smallest normal
            case 5: return from_bits(sign | 1);                                             // smallest subnormal
            default: return g.sym();
            }
        }
        case IC_NONFINITE: {
            switch ((r >> 1) % 16) {
            case 0: return from_bits(0x7ff0000000000000ULL);
            case 1: return from_bits(0xfff0000000000000ULL);
            case 2: return from_bits(0x7ff8000000000000ULL);
            default: return g.sym();
            }
        }
        default: return g.sym();
        }
    }
};

static arr_cmplx in_c(vh::Rng& g, int n, int cls = IC_UNIT) {
    arr_cmplx x(n);
    InGen q(g, cls, 2 * n);
    for (int i = 0; i < n; ++i) { const double re = q.next(g); const double im = q.next(g); x[i] = cmplx_t(re, im); }
    return x;
}
static arr_real in_r(vh::Rng& g, int n, int cls = IC_UNIT) {
    arr_real x(n);
    InGen q(g, cls, n);
    for (int i = 0; i < n; ++i) x[i] = q.next(g);
    return x;
}

// ================================================================================================
// Part 2: random-number state under an enforced interleaving
// ================================================================================================
struct RngEv { int t; char kind; int arg; };   // kind 'k' rng(arg) ; 'u' arg calls of rand() ; 'v' rand(arg) (vector form)

static std::vector<std::vector<double>> rng_run(int nthreads, const std::vector<RngEv>& evs, bool interleaved, EnvLog& elog) {
    // values drawn per event; interleaved: all threads alive, events executed in list order (turn counter);
    // else: thread after thread, each running only its own events.  Events never run at the same time (turn counter /
    // join), so `elog` is handed from thread to thread with a happens-before edge.
    std::vector<std::vector<double>> vals(evs.size());
    auto exec = [&](size_t i) {
        const RngEv& e = evs[i];
        const FpEnv b = fpenv_now();
        if (e.kind == 'k') dsplib::rng(e.arg);
        else if (e.kind == 'u') { for (int j = 0; j < e.arg; ++j) vals[i].push_back(dsplib::rand()); }
        else { push(vals[i], dsplib::rand(e.arg)); }
        env_after(elog, e.kind == 'k' ? 'k' : 'u', b, "rng-interleaving thread " + std::to_string(e.t), [&] {
            return std::string(e.kind == 'k' ? "rng(" : e.kind == 'u' ? "rand() x " : "rand(") + std::to_string(e.arg) + (e.kind == 'u' ? "" : ")");
        });
    };
    if (interleaved) {
        std::atomic<size_t> turn{0};
        std::vector<std::thread> th;
        for (int t = 0; t < nthreads; ++t) {
            th.emplace_back([&, t] {
                for (size_t i = 0; i < evs.size(); ++i) {
                    if (evs[i].t != t) continue;
                    while (turn.load(std::memory_order_acquire) != i) std::this_thread::yield();
                    exec(i);
                    turn.store(i + 1, std::memory_order_release);
                }
            });
        }
        // events of threads are claimed in order; a thread that owns no further event simply ends
        for (auto& x : th) x.join();
    } else {
        for (int t = 0; t < nthreads; ++t) {
            std::thread x([&, t] {
                for (size_t i = 0; i < evs.size(); ++i) if (evs[i].t == t) exec(i);
            });
            x.join();
        }
    }
    return vals;
}

static void part_rng(vh::Rng& g, bool thorough) {
    const int ncases = thorough ? 400 : 40;
    for (int c = 0; c < ncases; ++c) {
        const int nt = (c < 15) ? 2 + c : g.range(2, 16);
        const int nev = g.range(nt, thorough ? 60 : 30);
        std::vector<RngEv> evs;
        for (int i = 0; i < nev; ++i) {
            RngEv e;
            e.t = (i < nt) ? i : g.range(0, nt - 1);
            const int r = g.range(0, 9);
            if (c == 0) { e.kind = (i % 3 == 1) ? 'k' : 'u'; e.arg = (e.kind == 'k') ? 7 : 2; }      // same seed in every thread
            else if (r < 3) { e.kind = 'k'; e.arg = (r == 0) ? g.range(-5, 5) : int(g.next() & 0x7fffffff); }
            else if (r < 7) { e.kind = 'u'; e.arg = g.range(1, 4); }
            else { e.kind = 'v'; e.arg = g.range(0, 9); }
            evs.push_back(e);
        }
        std::string lhs = "rng " + std::to_string(nt) + " " + std::to_string(evs.size());
        std::string js = "{\"part\":\"rng\",\"threads\":" + std::to_string(nt) + ",\"events\":[";
        for (size_t i = 0; i < evs.size(); ++i) {
            lhs += " " + std::to_string(evs[i].t) + ":" + std::string(1, evs[i].kind) + std::to_string(evs[i].arg);
            js += std::string(i ? "," : "") + "\"" + std::to_string(evs[i].t) + ":" + std::string(1, evs[i].kind) + std::to_string(evs[i].arg) + "\"";
        }
        js += "]}";
        const int r0 = g_tsan_reports;
        EnvLog elog;
        vh::set_current("C09:data-race", js);
        vh::watch(600);
        const auto a = rng_run(nt, evs, true, elog);
        const auto b = rng_run(nt, evs, false, elog);
        vh::unwatch();
        vh::clear_current();
        env_report(elog);
        if (g_tsan_reports != r0) out.fail("C09:data-race", js);
        std::string rhs;
        long long nvals = 0;
        bool same = true;
        for (size_t i = 0; i < evs.size(); ++i) {
            for (double v : a[i]) { rhs += " " + vh::hx(v); ++nvals; }
            if (!same_bits(a[i], b[i])) same = false;
        }
        out.n_oracle++;
        if (!same) out.fail("C09:rng-not-isolated", js);
        out.corr(lhs, rhs.empty() ? "-" : rhs.substr(1));
        out.stat("rng_values_drawn", nvals);
        out.stat("rng_cases");
        if (c == 1) out.sample(js);
    }
}

// ================================================================================================
// Part 3: concurrent mixes
// ================================================================================================
static const int POW2[] = {16, 32, 64, 128, 256, 512, 1024, 2048, 4096};
static const int SMALL[] = {1, 2, 4, 8};
static const int COMPOSITE[] = {6, 9, 10, 12, 15, 18, 20, 24, 30, 36, 45, 60, 63, 75, 90, 94, 100, 120, 122, 225, 360, 1000, 1001, 1210};
static const int PRIME_S[] = {3, 5, 7, 11, 13, 17, 19, 23, 29, 31, 37, 41};
static const int PRIME_L[] = {43, 47, 53, 61, 127, 251, 509, 1021};
// lengths above 2^16 / 2^17, exact multiples of 49152 and 65536, primes and products of two primes > 251 next to 2^16
// (trial division has to leave the built-in prime table), 2 * prime
static const int LARGE[] = {65536, 131072, 98304 /*2*49152*/, 147456 /*3*49152*/, 196608 /*3*65536*/, 65537 /*prime*/, 67591 /*257*263*/,
                            131074 /*2*65537*/, 66049 /*257^2*/, 70747 /*263*269*/, 65539 /*prime*/, 131071 /*prime*/, 69632 /*17*4096*/, 262144};
static const int LARGE_Q[] = {65536, 131072, 98304, 65537, 67591, 131074};   // quick tier: the cheaper ones
static const int LARGE_NT[] = {65537, 67591, 131074, 66049, 70747, 65539, 131071};   // a cofactor >= 251^2 without a factor <= 251
static const int LARGE_BLK[] = {65536, 131072, 98304, 147456, 196608, 69632, 262144};   // multiples of large block sizes
template<size_t N> static int pick(vh::Rng& g, const int (&a)[N]) { return a[g.range(0, int(N) - 1)]; }

static int pick_len(vh::Rng& g, bool even_only = false) {
    for (;;) {
        int n;
        switch (g.range(0, 4)) {
        case 0: n = pick(g, POW2); break;
        case 1: n = pick(g, SMALL); break;
        case 2: n = pick(g, COMPOSITE); break;
        case 3: n = pick(g, PRIME_S); break;
        default: n = pick(g, PRIME_L); break;
        }
        if (!even_only || n % 2 == 0) return n;
    }
}
// classification without a library call (child histories must not call the library before the worker threads do)
static const char* len_class_nolib(int n) {
    if (n == 1 || n == 2 || n == 4 || n == 8) return "small";
    if (n > 65535) return "large";
    if ((n & (n - 1)) == 0) return "pow2";
    bool prime = n > 1;
    for (int d = 2; d * d <= n; ++d) if (n % d == 0) { prime = false; break; }
    if (prime) return n <= 41 ? "prime_le41" : "prime_gt41";
    return "composite";
}

// shared plan objects (const solve from many threads)
struct Shared {
    std::string desc;
    // const solve on the shared object with a private input of class `cls`; `dn` != 0: input longer by dn (the call must throw)
    std::function<void(vh::Rng&, int cls, int dn, std::vector<double>&)> use;
};

static std::vector<Shared> make_shared_plans(std::vector<std::shared_ptr<void>>& keep, EnvLog& elog, const std::string& who) {
    std::vector<Shared> s;
    FpEnv eb;
    auto pre = [&] { eb = fpenv_now(); };
    auto post = [&](const std::string& d) { env_after(elog, 'C', eb, who, [&] { return "constructor " + d; }); };
    auto add_c = [&](int n) {
        pre();
        auto p = std::make_shared<const FftPlan>(n);
        post("FftPlan(" + std::to_string(n) + ")");
        keep.push_back(std::const_pointer_cast<FftPlan>(p));
        s.push_back({"FftPlan(" + std::to_string(n) + "):" + len_class_nolib(n), [p, n](vh::Rng& g, int cls, int dn, std::vector<double>& r) { push(r, p->solve(in_c(g, n + dn, cls))); }});
    };
    auto add_r = [&](int n) {
        pre();
        auto p = std::make_shared<const FftPlanR>(n);
        post("FftPlanR(" + std::to_string(n) + ")");
        keep.push_back(std::const_pointer_cast<FftPlanR>(p));
        s.push_back({"FftPlanR(" + std::to_string(n) + "):" + len_class_nolib(n) + (n % 2 ? ":odd" : ":even"),
                     [p, n](vh::Rng& g, int cls, int dn, std::vector<double>& r) { push(r, (*p)(in_r(g, n + dn, cls))); }});
    };
    auto add_i = [&](int n) {
        pre();
        auto p = std::make_shared<const IfftPlan>(n);
        post("IfftPlan(" + std::to_string(n) + ")");
        keep.push_back(std::const_pointer_cast<IfftPlan>(p));
        s.push_back({"IfftPlan(" + std::to_string(n) + "):" + len_class_nolib(n), [p, n](vh::Rng& g, int cls, int dn, std::vector<double>& r) { push(r, p->solve(in_c(g, n + dn, cls))); }});
    };
    auto add_ir = [&](int n) {
        pre();
        auto p = std::make_shared<const IfftPlanR>(n);
        post("IfftPlanR(" + std::to_string(n) + ")");
        keep.push_back(std::const_pointer_cast<IfftPlanR>(p));
        s.push_back({"IfftPlanR(" + std::to_string(n) + "):half=" + len_class_nolib(n / 2), [p, n](vh::Rng& g, int cls, int dn, std::vector<double>& r) {
                         auto x = in_c(g, n / 2 + 1 + dn, cls);
                         x[0].im = 0;
                         x[n / 2].im = 0;
                         push(r, p->solve(x));
                     }});
    };
    auto add_z = [&](int n, int m) {
        pre();
        auto p = std::make_shared<const CztPlan>(n, m, expj(-2 * pi / (m + 0.5)), cmplx_t(1.0, 0.0));
        post("CztPlan(" + std::to_string(n) + "," + std::to_string(m) + ")");
        keep.push_back(std::const_pointer_cast<CztPlan>(p));
        s.push_back({"CztPlan(" + std::to_string(n) + "," + std::to_string(m) + ")", [p, n](vh::Rng& g, int cls, int dn, std::vector<double>& r) { push(r, p->solve(in_c(g, n + dn, cls))); }});
    };
    // every plan kind: small / pow2 / composite (flat and deep trees, with prime>41 leaf) / prime<=41 / prime>41
    for (int n : {1, 2, 4, 8, 64, 1024, 60, 360, 1001, 122, 3, 7, 41, 43, 127}) add_c(n);
    // real: small, even pow2, even composite (complex half composite / prime<=41 / prime>41), odd composite, odd prime <=41 / >41
    for (int n : {8, 64, 90, 94, 26, 512, 45, 225, 7, 47}) add_r(n);
    for (int n : {4, 256, 60, 41, 53}) add_i(n);
    for (int n : {2, 6, 16, 64, 120, 94, 82, 1000}) add_ir(n);
    add_z(10, 17);
    add_z(64, 64);
    add_z(33, 20);
    return s;
}

struct Op { char kind; int a = 0, b = 0; int cls = IC_UNIT; };
// kinds: c fft(cmplx a)  f ifft(a)  r rfft(real a)  i irfft(rfft(real a), a)  z czt(a, b)  x xcorr(real a, real b)
//        w welch(real a, winlen b)  s resample(real a, p/q coded in b)  F new FftFilter(h of length a)  p filter.process(a samples)
//        P new own FftPlan(a)  q own plan solve   g randn(a)  u rand(a)  j randi(b, a)  k rng(a)  S shared plan a
// calls that must THROW (and leave no trace in later calls):
//        e irfft(spectrum, odd a)   m irfft(spectrum of a/2+2 bins, even a >= 6)   T shared plan a, input one sample too long
//        Q own plan, input one sample too long
static bool is_failing(char k) { return k == 'e' || k == 'm' || k == 'T' || k == 'Q'; }
static std::string op_str(const Op& o) {   // CORR form (the model does not depend on the data)
    std::string s(1, o.kind);
    s += std::to_string(o.a);
    if (o.kind == 'z' || o.kind == 'x' || o.kind == 'w' || o.kind == 's' || o.kind == 'j') s += ":" + std::to_string(o.b);
    return s;
}
static std::string op_full(const Op& o) {   // witness form: with the input class
    std::string s = op_str(o);
    if (o.cls != IC_UNIT) s += std::string("/") + IC_NAME[o.cls];
    return s;
}
static std::string op_desc(const Op& o, const std::vector<Shared>& shared) {
    const std::string a = std::to_string(o.a), b = std::to_string(o.b);
    std::string d;
    switch (o.kind) {
    case 'c': d = "fft(arr_cmplx[" + a + "])"; break;
    case 'f': d = "ifft(arr_cmplx[" + a + "])"; break;
    case 'r': d = "rfft(arr_real[" + a + "])"; break;
    case 'i': d = "irfft(rfft(arr_real[" + a + "]), " + a + ")"; break;
    case 'z': d = "czt(arr_cmplx[" + a + "], " + b + ", w, 1)"; break;
    case 'x': d = "xcorr(arr_real[" + a + "], arr_real[" + b + "])"; break;
    case 'w': d = "welch(arr_real[" + a + "], winlen " + b + ")"; break;
    case 's': d = "resample(arr_real[" + a + "], " + std::to_string(o.b / 100) + ", " + std::to_string(o.b % 100) + ")"; break;
    case 'F': d = "FftFilter(arr_real[" + a + "])"; break;
    case 'p': d = "FftFilter::process(arr_real[" + a + "])"; break;
    case 'P': d = "FftPlan(" + a + ")"; break;
    case 'q': d = "FftPlan::solve on the thread's own plan"; break;
    case 'g': d = "randn(" + a + "), randn()"; break;
    case 'u': d = "rand(" + a + "), rand()"; break;
    case 'j': d = "randi(" + b + ", " + a + "), randi(" + b + ")"; break;
    case 'k': d = "rng(" + a + ")"; break;
    case 'S': d = "const solve on shared " + (size_t(o.a) < shared.size() ? shared[size_t(o.a)].desc : a); break;
    case 'T': d = "const solve on shared " + (size_t(o.a) < shared.size() ? shared[size_t(o.a)].desc : a) + " with an input one sample too long (throws)"; break;
    case 'e': d = "irfft(arr_cmplx[" + std::to_string(o.a / 2 + 1) + "], " + a + ") with odd n (throws)"; break;
    case 'm': d = "irfft(arr_cmplx[" + std::to_string(o.a / 2 + 2) + "], " + a + ") with a wrong number of bins (throws)"; break;
    case 'Q': d = "FftPlan::solve on the thread's own plan with an input one sample too long (throws)"; break;
    default: d = "?"; break;
    }
    return d + ", input class " + IC_NAME[o.cls];
}

struct ThreadResult {
    std::vector<std::vector<double>> res;
    std::vector<char> threw;
    std::vector<int> kc, kr;
    std::string first_err;
    EnvLog elog;
    FpEnv env_start, env_end;
};

struct RunOpt {
    bool skip_failing = false;    // the program with its failing calls removed
    bool query_keys = true;
    std::string who = "thread";
};

// runs one thread program; every input derives from (seed, thread index, op index)
static void run_program(const std::vector<Op>& ops, uint64_t seed, int tid, const std::vector<Shared>& shared, ThreadResult& R, const RunOpt& opt) {
    R.res.assign(ops.size(), {});
    R.threw.assign(ops.size(), 0);
    R.env_start = fpenv_now();
    std::unique_ptr<FftFilter> flt;
    std::unique_ptr<FftPlan> own;
    int own_n = 0;
    for (size_t i = 0; i < ops.size(); ++i) {
        const Op& o = ops[i];
        if (opt.skip_failing && is_failing(o.kind)) continue;
        vh::Rng g(seed * 1000003ULL + uint64_t(tid) * 7919ULL + i * 104729ULL + 17);
        auto& r = R.res[i];
        const int c = o.cls;
        const FpEnv eb = fpenv_now();
        try {
            switch (o.kind) {
            case 'c': push(r, fft(in_c(g, o.a, c))); break;
            case 'f': push(r, ifft(in_c(g, o.a, c))); break;
            case 'r': push(r, rfft(in_r(g, o.a, c))); break;
            case 'i': push(r, irfft(rfft(in_r(g, o.a, c)), o.a)); break;
            case 'z': push(r, czt(in_c(g, o.a, c), o.b, expj(-2 * pi / (o.b + 1.5)), cmplx_t(1.0, 0.0))); break;
            case 'x': { const arr_real x1 = in_r(g, o.a, c); const arr_real x2 = in_r(g, o.b, c); push(r, xcorr(x1, x2)); break; }
            case 'w': { auto w = welch(in_r(g, o.a, c), o.b); push(r, w.pxx); push(r, w.f); break; }
            case 's': push(r, resample(in_r(g, o.a, c), o.b / 100, o.b % 100)); break;
            case 'F': flt = std::make_unique<FftFilter>(in_r(g, o.a, c)); break;
            case 'p': if (flt) push(r, flt->process(in_r(g, o.a, c))); break;
            case 'P': own = std::make_unique<FftPlan>(o.a); own_n = o.a; break;
            case 'q': if (own) push(r, own->solve(in_c(g, own_n, c))); break;
            case 'g': push(r, randn(o.a)); r.push_back(randn()); break;
            case 'u': push(r, dsplib::rand(o.a)); r.push_back(dsplib::rand()); break;
            case 'j': push(r, randi(o.b, o.a)); r.push_back(double(randi(o.b))); break;
            case 'k': dsplib::rng(o.a); break;
            case 'S': shared[size_t(o.a)].use(g, c, 0, r); break;
            case 'T': shared[size_t(o.a)].use(g, c, 1, r); break;
            case 'e': push(r, irfft(in_c(g, o.a / 2 + 1, c), o.a)); break;
            case 'm': push(r, irfft(in_c(g, o.a / 2 + 2, c), o.a)); break;
            case 'Q': if (own) push(r, own->solve(in_c(g, own_n + 1, c))); break;
            default: break;
            }
        } catch (const std::exception& e) {
            R.threw[i] = 1;
            r.clear();
            if (R.first_err.empty()) R.first_err = e.what();
        }
        env_after(R.elog, o.kind, eb, opt.who, [&] { return op_desc(o, shared); });
    }
    if (opt.query_keys) {
        const FpEnv eb = fpenv_now();
        R.kc = verif_fft_cache_keys();
        R.kr = verif_rfft_cache_keys();
        env_after(R.elog, 'K', eb, opt.who, [] { return std::string("verif_fft_cache_keys / verif_rfft_cache_keys"); });
    }
    R.env_end = fpenv_now();
}

struct GenOpt {
    int flavour = 0;      // 0: general mix; 1: shared-plan heavy; 2: transform heavy (cache churn); 3: rng heavy
    int cls = IC_UNIT;    // input class of the scenario (every 4th call draws its own)
    int fail_pct = 0;     // percentage of calls that throw
    bool fail_first = false;
};

static Op gen_failing(vh::Rng& g, int nshared, bool have_p) {
    Op o;
    for (;;) {
        switch (g.range(0, 3)) {
        case 0: o.kind = 'e'; o.a = 2 * g.range(1, 60) + 1; if (g.range(0, 5) == 0) o.a = 2 * pick_len(g) + 1; return o;
        case 1: o.kind = 'm'; o.a = 2 * g.range(3, 60); if (g.range(0, 5) == 0) o.a = 2 * pick_len(g) + 6; return o;
        case 2: if (nshared > 0) { o.kind = 'T'; o.a = g.range(0, nshared - 1); return o; } break;
        default: if (have_p) { o.kind = 'Q'; return o; } break;
        }
    }
}

static std::vector<Op> gen_program(vh::Rng& g, int len, int nshared, const GenOpt& go) {
    const int flavour = go.flavour;
    std::vector<Op> ops;
    bool have_f = false, have_p = false;
    for (int i = 0; i < len; ++i) {
        Op o;
        if ((go.fail_pct > 0 && g.range(0, 99) < go.fail_pct) || (go.fail_first && i == 0)) {
            o = gen_failing(g, nshared, have_p);
            o.cls = go.cls;
            ops.push_back(o);
            continue;
        }
        int r = g.range(0, 99);
        if (flavour == 1 && r < 70) r = 95;
        if (flavour == 2 && r >= 40) r = r % 40;
        if (flavour == 3 && r < 60) r = 80 + r % 12;
        if (nshared == 0 && r >= 92) r = r % 40;
        if (r < 10) { o.kind = 'c'; o.a = pick_len(g); }
        else if (r < 18) { o.kind = 'f'; o.a = pick_len(g); }
        else if (r < 28) { o.kind = 'r'; o.a = pick_len(g); }
        else if (r < 36) { o.kind = 'i'; o.a = pick_len(g, true); }
        else if (r < 40) { o.kind = 'z'; o.a = g.range(1, 40); o.b = g.range(1, 40); }
        else if (r < 46) { o.kind = 'x'; o.a = g.range(1, 200); o.b = g.range(1, 200); }
        else if (r < 52) { o.kind = 'w'; o.b = g.coin() ? (8 << g.range(0, 4)) : g.range(5, 100); o.a = o.b + g.range(0, 600); }
        else if (r < 57) { const int p = g.range(1, 7), q = g.range(1, 7); o.kind = 's'; o.a = g.range(30, 300); o.b = p * 100 + q; }
        else if (r < 61) { o.kind = 'F'; o.a = g.range(2, 70); have_f = true; }
        else if (r < 68) { if (!have_f) { o.kind = 'F'; o.a = g.range(2, 70); have_f = true; } else { o.kind = 'p'; o.a = g.range(1, 400); } }
        else if (r < 72) { o.kind = 'P'; o.a = pick_len(g); have_p = true; }
        else if (r < 80) { if (!have_p) { o.kind = 'P'; o.a = pick_len(g); have_p = true; } else { o.kind = 'q'; } }
        else if (r < 84) { o.kind = 'g'; o.a = g.range(0, 50); }
        else if (r < 87) { o.kind = 'u'; o.a = g.range(0, 50); }
        else if (r < 89) { o.kind = 'j'; o.a = g.range(0, 20); o.b = g.range(1, 1000); }
        else if (r < 92) { o.kind = 'k'; o.a = g.coin() ? g.range(0, 3) : int(g.next() & 0xffffff); }
        else { o.kind = 'S'; o.a = g.range(0, nshared - 1); }
        o.cls = (g.range(0, 3) == 0) ? g.range(0, N_IC - 1) : go.cls;
        ops.push_back(o);
    }
    return ops;
}

// one large call: the first plan of a length above 2^16 (lesson: large single calls after smaller ones)
static Op gen_large(vh::Rng& g, bool thorough, int mode = 0) {   // mode 1: number-theoretic lengths only, 2: block multiples only
    Op o;
    const int n = mode == 1 ? pick(g, LARGE_NT) : mode == 2 ? pick(g, LARGE_BLK) : thorough ? pick(g, LARGE) : pick(g, LARGE_Q);
    switch (mode == 1 ? g.range(0, 4) : g.range(0, 9)) {   // mode 1: only calls whose plan length is n itself
    case 0: case 1: case 2: o.kind = 'c'; o.a = n; break;
    case 3: o.kind = 'r'; o.a = n; break;
    case 4: o.kind = 'f'; o.a = n; break;
    case 5: o.kind = 'i'; o.a = (n % 2 == 0) ? n : n + 1; break;
    case 6: o.kind = 'x'; o.a = 65536 + g.range(1, 5000); o.b = g.range(1, 40); break;     // fft length 2^17
    case 7: o.kind = 's'; o.a = (g.coin() ? 65536 : 131072) + g.range(0, 3000); o.b = g.range(1, 4) * 100 + g.range(1, 4); break;   // one frame above 2^16 / 2^17
    case 8: o.kind = 'w'; o.a = (g.coin() ? 65536 : 131072) + g.range(0, 3000); o.b = 64 << g.range(0, 6); break;
    default: o.kind = 'P'; o.a = n; break;
    }
    o.cls = (g.range(0, 3) == 0) ? IC_MIXED : IC_UNIT;
    return o;
}

static std::string programs_json(const std::vector<std::vector<Op>>& progs, size_t budget) {
    std::string s = "[";
    for (size_t t = 0; t < progs.size(); ++t) {
        std::string p = std::string(t ? "," : "") + "\"";
        for (size_t i = 0; i < progs[t].size(); ++i) p += (i ? " " : "") + op_full(progs[t][i]);
        p += "\"";
        if (s.size() + p.size() > budget) { s += std::string(t ? "," : "") + "\"...\""; break; }
        s += p;
    }
    return s + "]";
}

static std::string scenario_json(uint64_t seed, int idx, const char* creator, const std::vector<std::vector<Op>>& progs, int thread, int opi, const char* what) {
    std::string s = "{\"part\":\"mix\",\"seed\":" + std::to_string(seed) + ",\"scenario\":" + std::to_string(idx) + ",\"threads\":" + std::to_string(progs.size()) +
                    ",\"shared_plans_created_by\":\"" + creator + "\",\"what\":\"" + what + "\"";
    if (thread >= 0) s += ",\"thread\":" + std::to_string(thread) + ",\"op_index\":" + std::to_string(opi);
    if (thread >= 0 && opi >= 0 && size_t(thread) < progs.size() && size_t(opi) < progs[size_t(thread)].size()) s += ",\"op\":\"" + op_full(progs[size_t(thread)][size_t(opi)]) + "\"";
    s += ",\"programs\":" + programs_json(progs, 6000 - std::min<size_t>(s.size(), 3000));
    return s + "}";
}

// first difference of two result vectors, for witnesses
static std::string diff_json(const std::vector<double>& ref, const std::vector<double>& got) {
    size_t k = 0;
    while (k < ref.size() && k < got.size() && bits_of(ref[k]) == bits_of(got[k])) ++k;
    long long nzr = 0, nzg = 0;
    for (double v : ref) if (v != 0) ++nzr;
    for (double v : got) if (v != 0) ++nzg;
    std::string s = "{\"size_ref\":" + std::to_string(ref.size()) + ",\"size_got\":" + std::to_string(got.size()) + ",\"nonzero_ref\":" + std::to_string(nzr) +
                    ",\"nonzero_got\":" + std::to_string(nzg) + ",\"first_diff_index\":" + std::to_string(k);
    if (k < ref.size() && k < got.size()) s += ",\"ref\":\"" + vh::hx(ref[k]) + "\",\"got\":\"" + vh::hx(got[k]) + "\",\"ref_value\":" + vh::jnum(ref[k]) + ",\"got_value\":" + vh::jnum(got[k]);
    return s + "}";
}

static void op_stats(const Op& o) {
    out.stat(std::string("op_") + o.kind);
    out.stat(std::string("class_") + IC_NAME[o.cls]);
    const char k = o.kind;
    if (k == 'c' || k == 'f' || k == 'r' || k == 'i' || k == 'P') out.stat(std::string("len_") + len_class_nolib(o.a));
}

static void part_mix(vh::Rng& g, uint64_t seed, bool thorough, const std::vector<Shared>& shared_main) {
    const int cap = verif_fft_cache_capacity();
    std::vector<std::shared_ptr<void>> keep_helper;
    vh::set_current("C09:crash", "{\"part\":\"mix\",\"what\":\"constructing the shared plan objects\"}");
    // second set: built by a helper thread that has ended (its thread_local caches are gone; the plans keep their sub-plans alive)
    std::vector<Shared> shared_helper;
    {
        EnvLog el;
        std::thread h([&] { shared_helper = make_shared_plans(keep_helper, el, "helper thread that builds the second set of shared plans"); });
        h.join();
        env_report(el);
    }
    vh::clear_current();
    for (auto& s : shared_main) out.stat(std::string("shared_kind_") + s.desc.substr(0, s.desc.find('(')));
    out.stat("shared_plan_objects", (long long)shared_main.size());

    static const int CLS_CYCLE[] = {IC_UNIT, IC_DENORM, IC_UNIT, IC_UNDERFLOW, IC_MIXED, IC_UNIT, IC_TIES, IC_HUGE, IC_DENORM, IC_NONFINITE, IC_UNIT};
    const int nscen = thorough ? 2500 : 200;
    for (int sc = 0; sc < nscen; ++sc) {
        // thread counts: quick covers 2,3,4,8,16 and random ones; thorough every count in 2..16 many times
        int nt;
        if (thorough) nt = 2 + sc % 15;
        else { static const int q[] = {2, 3, 4, 8, 16, 5, 12}; nt = q[sc % 7]; }
        const bool large = thorough ? (sc % 40 == 13) : (sc == 13 || sc == 113);
        if (large) nt = 2 + sc % 3;
        GenOpt go;
        go.flavour = (sc % 5 == 4) ? 1 : (sc % 5 == 3) ? 2 : (sc % 7 == 6) ? 3 : 0;
        go.cls = CLS_CYCLE[sc % 11];
        go.fail_pct = (sc % 2 == 0) ? 0 : (sc % 6 == 1) ? 30 : 8;
        const bool helper = (sc % 3 == 2);
        const std::vector<Shared>& shared = helper ? shared_helper : shared_main;
        const int len = thorough ? g.range(10, 40) : g.range(8, 24);
        std::vector<std::vector<Op>> progs;
        for (int t = 0; t < nt; ++t) {
            go.fail_first = (sc % 6 == 1) && (t % 2 == 1);   // a throwing call is the first thing some threads do
            progs.push_back(gen_program(g, large ? 6 : len, int(shared.size()), go));
        }
        if (sc % 4 == 1) {   // all threads run the SAME program (same lengths, same shared plans, same seeds at the same time)
            for (int t = 1; t < nt; ++t) progs[t] = progs[0];
        }
        if (sc % 5 == 4) {   // every thread hammers the same shared plan at the start
            const int k = g.range(0, int(shared.size()) - 1);
            for (int t = 0; t < nt; ++t) for (int j = 0; j < 4 && j < int(progs[t].size()); ++j) { progs[t][j].kind = 'S'; progs[t][j].a = k; }
        }
        if (large) {   // small calls, then the first large plan(s) in all threads at about the same time, then small calls again
            const int mode = thorough ? (sc / 40) % 3 : (sc == 13 ? 1 : 2);
            const Op common = gen_large(g, thorough, mode);
            for (int t = 0; t < nt; ++t) {
                progs[t].insert(progs[t].begin() + 3, (t % 2 == 0) ? common : gen_large(g, thorough, mode));
                if (t == 0 || thorough) progs[t].push_back(gen_large(g, thorough));
            }
            {   // streaming object: small frames, then the first frame above 2^16 and above 2^17
                auto& p = progs[size_t(nt - 1)];
                Op f; f.kind = 'F'; f.a = g.range(2, 70); p.push_back(f);
                Op a; a.kind = 'p'; a.a = g.range(1, 300); p.push_back(a);
                Op b; b.kind = 'p'; b.a = 65536 + g.range(1, 3000); p.push_back(b);
                Op c; c.kind = 'p'; c.a = 131072 + g.range(1, 3000); c.cls = IC_MIXED; p.push_back(c);
                a.a = g.range(1, 300); p.push_back(a);
            }
        }
        bool any_failing = false;
        for (auto& p : progs) for (auto& o : p) if (is_failing(o.kind)) any_failing = true;
        // odd scenarios (and the large ones): the concurrent run comes FIRST, the single-threaded references afterwards
        const bool conc_first = large || (sc % 2 == 1);
        const uint64_t sseed = seed * 1000 + sc;
        const char* creator = helper ? "ended helper thread" : "main thread";
        const std::string js = scenario_json(seed, sc, creator, progs, -1, 0, "ThreadSanitizer report / crash during the scenario");

        std::vector<ThreadResult> ref(nt), con(nt), str(nt);
        auto run_refs = [&] {
            // --- sequential reference: each program alone in a fresh thread
            vh::set_current("C09:crash", js);
            for (int t = 0; t < nt; ++t) {
                RunOpt o;
                o.who = "scenario thread " + std::to_string(t) + " (its program alone)";
                std::thread x([&, t] { run_program(progs[t], sseed, t, shared, ref[t], o); });
                x.join();
            }
            // --- the same without the failing calls
            if (any_failing)
                for (int t = 0; t < nt; ++t) {
                    RunOpt o;
                    o.skip_failing = true;
                    o.who = "scenario thread " + std::to_string(t) + " (its program alone, failing calls removed)";
                    std::thread x([&, t] { run_program(progs[t], sseed, t, shared, str[t], o); });
                    x.join();
                }
        };
        vh::watch(thorough ? 3600 : 1200);
        if (!conc_first) run_refs();
        // --- concurrent run from a barrier
        const int r0 = g_tsan_reports;
        vh::set_current("C09:data-race", js);
        {
            SpinBarrier bar(nt);
            std::vector<std::thread> th;
            for (int t = 0; t < nt; ++t)
                th.emplace_back([&, t] {
                    RunOpt o;
                    o.who = "scenario thread " + std::to_string(t) + " of " + std::to_string(nt) + " concurrent threads";
                    bar.wait();
                    run_program(progs[t], sseed, t, shared, con[t], o);
                });
            for (auto& x : th) x.join();
        }
        if (g_tsan_reports != r0) out.fail("C09:data-race", js);
        if (conc_first) run_refs();
        vh::unwatch();
        vh::clear_current();

        // --- compare
        for (int t = 0; t < nt; ++t) {
            env_report(ref[t].elog);
            env_report(con[t].elog);
            env_report(str[t].elog);
            if (con[t].env_start != fpenv_default()) out.stat("threads_started_with_nondefault_fpenv");
            bool unexpected_throw = false;
            for (size_t i = 0; i < progs[t].size(); ++i) {
                out.n_oracle++;
                op_stats(progs[t][i]);
                const bool failing = is_failing(progs[t][i].kind);
                if (con[t].threw[i]) out.stat(failing ? "calls_that_threw_as_designed" : "calls_that_threw_unexpectedly");
                if (con[t].threw[i] && !failing) unexpected_throw = true;
                if (!con[t].threw[i] && failing && !(progs[t][i].kind == 'Q' && con[t].res[i].empty())) out.stat("failing_calls_that_did_not_throw");
                if (con[t].threw[i] != ref[t].threw[i])
                    out.fail("C09:result-differs", scenario_json(seed, sc, creator, progs, t, int(i), "exception only in one of the two runs (concurrent / same thread program alone)"));
                else if (!same_bits(con[t].res[i], ref[t].res[i]))
                    out.fail("C09:result-differs", scenario_json(seed, sc, creator, progs, t, int(i),
                                                                 "result of this call differs bitwise from the same thread program run alone"));
                else if (any_failing && !failing && (con[t].threw[i] != str[t].threw[i] || !same_bits(con[t].res[i], str[t].res[i])))
                    out.fail("C09:result-differs", scenario_json(seed, sc, creator, progs, t, int(i),
                                                                 "result of this valid call differs bitwise from the same thread program run alone WITHOUT its failing (throwing) calls"));
            }
            if (con[t].kc != ref[t].kc || con[t].kr != ref[t].kr)
                out.fail("C09:cache-state-differs", scenario_json(seed, sc, creator, progs, t, -1,
                                                                  "final plan-cache keys differ from the same thread program run alone"));
            out.stat(int(con[t].kc.size()) >= cap ? "final_complex_cache_full" : "final_complex_cache_not_full");
            // CORR: the sequential LRU/factory model predicts the keys of this thread from its own calls only
            if (!unexpected_throw) {
                std::string lhs = "keys " + std::to_string(cap) + " " + std::to_string(progs[t].size());
                for (auto& o : progs[t]) lhs += " " + op_str(o);
                out.corr(lhs, "C " + std::to_string(con[t].kc.size()) + vh::join_ints(con[t].kc) + " R " + std::to_string(con[t].kr.size()) + vh::join_ints(con[t].kr));
            } else {
                out.stat("programs_with_unexpected_exception");
            }
        }
        {   // CORR: the sharing pattern of this scenario is admitted by the model's table (premise `exclusive` of the theorems)
            std::string lhs = "scenario " + std::to_string(nt);
            for (auto& p : progs) {
                lhs += " " + std::to_string(p.size());
                for (auto& o : p) lhs += " " + op_str(o);
            }
            out.corr(lhs, "1");
        }
        out.stat("scenarios");
        out.stat(conc_first ? "scenarios_concurrent_run_first" : "scenarios_reference_first");
        if (any_failing) out.stat("scenarios_with_throwing_calls");
        if (large) out.stat("scenarios_large_first_plans");
        out.stat(std::string("scenario_class_") + IC_NAME[go.cls]);
        out.stat("threads_" + std::to_string(nt));
        out.stat(helper ? "shared_from_ended_thread" : "shared_from_main_thread");
        if (sc < 2) out.sample(js);
    }
}

// ================================================================================================
// Part 4: floating-point environment and thread history (in this process: the main thread computes first)
// ================================================================================================
// every transform kind x every input class, with calls that throw in between
static std::vector<Op> probe_program(vh::Rng& g, int nshared, int extra) {
    struct K { char kind; int a, b; };
    static const K kinds[] = {{'c', 64, 0}, {'c', 60, 0}, {'c', 61, 0}, {'c', 7, 0}, {'c', 8, 0}, {'c', 1024, 0}, {'f', 128, 0}, {'f', 45, 0}, {'r', 96, 0},
                              {'r', 45, 0}, {'r', 47, 0}, {'i', 64, 0}, {'i', 90, 0}, {'x', 40, 25}, {'z', 10, 17}, {'w', 200, 32}, {'s', 120, 302},
                              {'F', 17, 0}, {'p', 300, 0}, {'P', 360, 0}, {'q', 0, 0}};
    std::vector<Op> pp;
    auto add = [&](char k, int a, int b, int cls) { Op o; o.kind = k; o.a = a; o.b = b; o.cls = cls; pp.push_back(o); };
    for (int cls = 0; cls < N_IC; ++cls) {
        for (auto& k : kinds) {
            add(k.kind, k.a, k.b, cls);
            if (g.range(0, 6) == 0) { Op f = gen_failing(g, nshared, k.kind == 'q'); f.cls = cls; pp.push_back(f); }
        }
        add('e', 2 * g.range(1, 40) + 1, 0, cls);
        add('Q', 0, 0, cls);
        add('q', 0, 0, cls);
        if (nshared > 0) {
            for (int j = 0; j < 6; ++j) add('S', g.range(0, nshared - 1), 0, cls);
            add('T', g.range(0, nshared - 1), 0, cls);
            add('S', pp.back().a, 0, cls);
        }
        add('m', 2 * g.range(3, 40), 0, cls);
        add('i', pp.back().a, 0, cls);
    }
    add('k', 7, 0, 0);
    add('u', 5, 0, 0);
    add('g', 5, 0, 0);
    add('j', 5, 100, 0);
    GenOpt go;
    go.fail_pct = 10;
    for (int i = 0; i < extra; ++i) {
        go.cls = g.range(0, N_IC - 1);
        go.flavour = (i % 3 == 0) ? 2 : 0;
        auto more = gen_program(g, 1, nshared, go);
        if (more[0].kind == 'k' || more[0].kind == 'u' || more[0].kind == 'g' || more[0].kind == 'j') continue;   // engine state differs between participants
        pp.push_back(more[0]);
    }
    return pp;
}

struct Participant {
    std::string who;
    bool with_failing = true;
    ThreadResult R;
};

// compares every participant with the reference; `what_ref` describes the reference in the witness
static void compare_participants(const std::string& part, uint64_t seed, int round, const std::vector<Op>& pp, const std::vector<Shared>& shared,
                                 const ThreadResult& ref, const std::string& what_ref, std::vector<Participant*>& ps) {
    for (Participant* p : ps) {
        env_report(p->R.elog);
        for (size_t i = 0; i < pp.size(); ++i) {
            const bool failing = is_failing(pp[i].kind);
            if (failing) {
                if (p->with_failing) {
                    if (p->R.threw[i]) out.stat("calls_that_threw_as_designed");
                    else if (!(pp[i].kind == 'Q' && p->R.res[i].empty())) out.stat("failing_calls_that_did_not_throw");
                }
                continue;
            }
            out.n_oracle++;
            op_stats(pp[i]);
            if (p->R.threw[i] == ref.threw[i] && same_bits(p->R.res[i], ref.res[i])) continue;
            std::string js = "{\"part\":\"" + part + "\",\"seed\":" + std::to_string(seed) + ",\"round\":" + std::to_string(round) + ",\"what\":\"the same call on the same input returned a result that differs bitwise from " +
                             what_ref + "\",\"thread\":\"" + esc(p->who) + "\",\"op_index\":" + std::to_string(i) + ",\"op\":\"" + op_full(pp[i]) + "\",\"call\":\"" + esc(op_desc(pp[i], shared)) +
                             "\",\"threw\":" + std::to_string(int(p->R.threw[i])) + ",\"reference_threw\":" + std::to_string(int(ref.threw[i])) + ",\"difference\":" + diff_json(ref.res[i], p->R.res[i]) +
                             ",\"thread_fp_environment_at_start\":" + fpenv_json(p->R.env_start) + ",\"program\":" + programs_json({pp}, 3500) + "}";
            out.fail("C09:result-differs", js);
        }
    }
}

static void part_env(vh::Rng& g, uint64_t seed, bool thorough, Pool& pool, const std::vector<Shared>& shared, bool first_round_is_first_use) {
    const int rounds = thorough ? 24 : 2;
    const int ne = pool.size() - 1;   // early workers that take part; the last early worker only spawns a thread
    for (int round = 0; round < rounds; ++round) {
        const std::vector<Op> pp = probe_program(g, int(shared.size()), thorough ? 150 : (round == 0 ? 20 : 60));
        const uint64_t sseed = seed * 77777 + uint64_t(round);
        const std::string js = "{\"part\":\"fpenv\",\"seed\":" + std::to_string(seed) + ",\"round\":" + std::to_string(round) +
                               ",\"what\":\"ThreadSanitizer report / crash while early, late and nested threads evaluate the probe program\",\"program\":" + programs_json({pp}, 6000) + "}";
        vh::set_current("C09:crash", js);
        vh::watch(thorough ? 3600 : 1200);
        // --- reference 0: the main thread, before any other thread has made a library call (round 0), failing calls removed
        Participant m0, m1;
        m0.who = "main thread, before the other threads run";
        m0.with_failing = false;
        {
            RunOpt o;
            o.skip_failing = true;
            o.query_keys = false;
            o.who = m0.who;
            run_program(pp, sseed, 0, shared, m0.R, o);
        }
        // --- concurrent phase
        const int nl = thorough ? 2 + round % 6 : 3;
        std::vector<std::unique_ptr<Participant>> ps;
        auto mk = [&](const std::string& who) { ps.push_back(std::make_unique<Participant>()); ps.back()->who = who; ps.back()->with_failing = (ps.size() % 2 == 1); return ps.back().get(); };
        std::vector<Participant*> early, late;
        for (int i = 0; i < ne; ++i) early.push_back(mk("early thread " + std::to_string(i) + " (created by main before the first library call of the process)"));
        Participant* nested_e = mk("thread created by an early thread (which itself has made no library call)");
        for (int i = 0; i < nl; ++i) late.push_back(mk("late thread " + std::to_string(i) + " (created by main after main's library calls)"));
        Participant* nested_l = mk("thread created by late thread 0 after that thread's library calls (runs after the barrier phase)");
        const int nbar = ne + 1 + nl;
        SpinBarrier bar(nbar);
        auto body = [&](Participant* p, bool at_barrier) {
            RunOpt o;
            o.skip_failing = !p->with_failing;
            o.query_keys = false;
            o.who = p->who;
            if (at_barrier) bar.wait();
            run_program(pp, sseed, 0, shared, p->R, o);
        };
        const int r0 = g_tsan_reports;
        vh::set_current("C09:data-race", js);
        for (int i = 0; i < ne; ++i) pool.start(i, [&, i] { body(early[size_t(i)], true); });
        pool.start(ne, [&] { std::thread x([&] { body(nested_e, true); }); x.join(); });
        std::vector<std::thread> th;
        for (int i = 0; i < nl; ++i)
            th.emplace_back([&, i] {
                body(late[size_t(i)], true);
                if (i == 0) { std::thread x([&] { body(nested_l, false); }); x.join(); }
            });
        for (auto& x : th) x.join();
        for (int i = 0; i <= ne; ++i) pool.wait(i);
        if (g_tsan_reports != r0) out.fail("C09:data-race", js);
        // --- reference 1: the main thread again, after all threads have finished, WITH the failing calls
        m1.who = "main thread, after all other threads finished";
        {
            RunOpt o;
            o.query_keys = false;
            o.who = m1.who;
            run_program(pp, sseed, 0, shared, m1.R, o);
        }
        vh::unwatch();
        vh::clear_current();
        env_report(m0.R.elog);
        std::vector<Participant*> all;
        for (auto& p : ps) all.push_back(p.get());
        all.push_back(&m1);
        compare_participants("fpenv", seed, round, pp, shared, m0.R,
                             round == 0 && first_round_is_first_use
                                 ? "the single-threaded result of the main thread computed before any other thread made a library call"
                                 : "the single-threaded result of the main thread computed before the threads of this round started",
                             all);
        for (auto& p : ps) if (p->R.env_start != fpenv_default()) out.stat("threads_started_with_nondefault_fpenv");
        out.stat("fpenv_rounds");
        out.stat("fpenv_participants", (long long)all.size() + 1);
        out.stat("fpenv_probe_calls", (long long)pp.size() * ((long long)all.size() + 1));
        if (round == 0) out.sample("{\"part\":\"fpenv\",\"round\":0,\"participants\":" + std::to_string(all.size() + 1) + ",\"program\":" + programs_json({pp}, 1500) + "}");
    }
}

// ================================================================================================
// Part 5: process histories (child mode `--history k`): the FIRST library calls of a fresh process are made by worker
// threads released from a barrier; the main thread recomputes everything single-threaded only afterwards.
// ================================================================================================
static const char* const HISTORY_NAME[] = {"workers-first subnormal probes", "workers-first large plans", "workers-first throwing calls"};
static const int N_HISTORY = 3;

static int history_main(int h, uint64_t seed, bool thorough) {
    vh::Rng g(seed * 0x9E3779B97F4A7C15ULL + 4242 + uint64_t(h) * 101);
    const std::vector<Shared> noshared;
    const FpEnv pristine = fpenv_now();
    const std::string hist = std::string("\"history\":\"fresh process, ") + HISTORY_NAME[h] + "\",\"history_id\":" + std::to_string(h) + ",\"seed\":" + std::to_string(seed);
    if (pristine != fpenv_default())
        out.fail("C09:fp-environment-changed", "{" + hist + ",\"what\":\"the floating-point environment of the main thread is not the default one when main() starts (static initialisation of the library?)\",\"after\":" +
                                                   fpenv_json(pristine) + ",\"default\":" + fpenv_json(fpenv_default()) + "}");
    const int nt = (h == 1) ? (thorough ? 6 : 4) : (thorough ? 8 : 5);
    std::vector<std::vector<Op>> progs;
    bool same_inputs = false;
    if (h == 0) {
        same_inputs = true;
        const auto pp = probe_program(g, 0, thorough ? 120 : 30);
        for (int t = 0; t < nt; ++t) progs.push_back(pp);
    } else if (h == 1) {
        const Op common = gen_large(g, true, 1 + int(seed % 2));
        for (int t = 0; t < nt; ++t) {
            std::vector<Op> p;
            if (t % 3 == 2) { Op s; s.kind = 'c'; s.a = 60; p.push_back(s); }     // some threads make a small call first
            p.push_back((t % 2 == 0) ? common : gen_large(g, true, 1));
            GenOpt go;
            go.cls = (t % 2) ? IC_MIXED : IC_UNIT;
            for (auto& o : gen_program(g, 3, 0, go)) p.push_back(o);
            p.push_back(gen_large(g, thorough));
            progs.push_back(p);
        }
    } else {
        for (int t = 0; t < nt; ++t) {
            GenOpt go;
            go.cls = g.range(0, N_IC - 1);
            go.fail_pct = 25;
            go.fail_first = (t % 2 == 0);
            go.flavour = (t % 3 == 0) ? 2 : 0;
            progs.push_back(gen_program(g, thorough ? 40 : 20, 0, go));
        }
    }
    const std::string js = "{" + hist + ",\"threads\":" + std::to_string(nt) + ",\"what\":\"ThreadSanitizer report / crash\",\"programs\":" + programs_json(progs, 5000) + "}";
    std::vector<ThreadResult> con(nt), ref(nt);
    vh::watch(thorough ? 3600 : 1500);
    vh::set_current("C09:data-race", js);
    const int r0 = g_tsan_reports;
    {
        SpinBarrier bar(nt);
        std::vector<std::thread> th;
        for (int t = 0; t < nt; ++t)
            th.emplace_back([&, t] {
                RunOpt o;
                o.who = "worker thread " + std::to_string(t) + " of " + std::to_string(nt) + " (created before the first library call of the process; fresh process, " + HISTORY_NAME[h] + ")";
                bar.wait();
                run_program(progs[t], seed, same_inputs ? 0 : t, noshared, con[t], o);
            });
        for (auto& x : th) x.join();
    }
    if (g_tsan_reports != r0) out.fail("C09:data-race", js);
    vh::set_current("C09:crash", js);
    // references afterwards: h = 0 in the main thread itself, otherwise each program alone in a fresh thread; failing calls removed
    for (int t = 0; t < nt; ++t) {
        RunOpt o;
        o.skip_failing = true;
        o.who = (h == 0) ? "main thread, after all worker threads finished" : "fresh thread created by main after all worker threads finished (program " + std::to_string(t) + " alone)";
        if (h == 0) {
            if (t == 0) run_program(progs[0], seed, 0, noshared, ref[0], o);
        } else {
            std::thread x([&, t] { run_program(progs[t], seed, t, noshared, ref[t], o); });
            x.join();
        }
    }
    vh::unwatch();
    vh::clear_current();
    for (int t = 0; t < nt; ++t) {
        Participant p;
        p.who = "worker thread " + std::to_string(t) + " of " + std::to_string(nt) + " (created before the first library call of the process; " + HISTORY_NAME[h] + ")";
        p.R = std::move(con[t]);
        std::vector<Participant*> one{&p};
        compare_participants(std::string("history ") + HISTORY_NAME[h], seed, t, progs[t], noshared, h == 0 ? ref[0] : ref[t],
                             "the single-threaded result computed after all worker threads had finished (failing calls removed)", one);
        if (h != 0) env_report(ref[t].elog);
    }
    if (h == 0) env_report(ref[0].elog);
    if (fpenv_now() != pristine)
        out.fail("C09:fp-environment-changed", "{" + hist + ",\"what\":\"the floating-point environment of the main thread at the end of the run differs from the one at the start\",\"thread\":\"main\",\"before\":" +
                                                   fpenv_json(pristine) + ",\"after\":" + fpenv_json(fpenv_now()) + ",\"changed\":\"" + fpenv_changed(pristine, fpenv_now()) + "\"}");
    out.stat("histories");
    out.stat("history_threads", nt);
    out.stat("env_checks", g_env_checks);
    out.stat("tsan_reports", g_tsan_reports);
    for (auto& kv : g_env_kind) std::printf("E %c %lld %lld\n", kv.first, kv.second.first, kv.second.second);
    out.finish();
    std::printf("DONE\n");
    std::fflush(stdout);
    vh::set_current("C09:data-race", "{" + hist + ",\"what\":\"ThreadSanitizer reported a data race (see stderr_tail)\"}");
    return 0;
}

// parent side: runs `self --history h` and relays its F / S lines
static void part_histories(const std::string& self, uint64_t seed, bool thorough) {
    const int reps = thorough ? 6 : 1;
    for (int rep = 0; rep < reps; ++rep)
        for (int h = 0; h < N_HISTORY; ++h) {
            const uint64_t cseed = seed * 100 + uint64_t(rep);
            const std::string cmd = "'" + self + "' --history " + std::to_string(h) + " --seed " + std::to_string(cseed) + " --tier " + (thorough ? "thorough" : "quick");
            const std::string js = std::string("{\"part\":\"history\",\"history\":\"fresh process, ") + HISTORY_NAME[h] + "\",\"history_id\":" + std::to_string(h) + ",\"seed\":" + std::to_string(cseed) +
                                   ",\"what\":\"the child process crashed / hung / ended without completing\",\"command\":\"" + esc(cmd) + "\"}";
            vh::set_current("C09:crash", js);
            vh::watch(thorough ? 4000 : 1800);
            std::fflush(stdout);
            FILE* f = popen(cmd.c_str(), "r");
            if (!f) { out.stat("history_spawn_failed"); vh::unwatch(); vh::clear_current(); continue; }
            bool done = false;
            int relayed = 0;
            std::string line;
            char buf[16384];
            while (std::fgets(buf, sizeof buf, f)) {
                line += buf;
                if (line.empty() || line.back() != '\n') continue;
                line.pop_back();
                if (line == "DONE") done = true;
                else if (line.rfind("F ", 0) == 0) {
                    const size_t sp = line.find(' ', 2);
                    if (sp != std::string::npos) { out.fail(line.substr(2, sp - 2), line.substr(sp + 1)); ++relayed; }
                } else if (line.rfind("E ", 0) == 0 && line.size() > 4) {
                    long long a = 0, b = 0;
                    if (std::sscanf(line.c_str() + 4, "%lld %lld", &a, &b) == 2) { g_env_kind[line[2]].first += a; g_env_kind[line[2]].second += b; }
                } else if (line.rfind("S ", 0) == 0) {
                    const size_t sp = line.find(' ', 2);
                    if (sp != std::string::npos) {
                        const std::string k = line.substr(2, sp - 2);
                        const long long v = std::atoll(line.c_str() + sp + 1);
                        if (k == "oracle_evaluations") out.n_oracle += v;
                        else if (k == "oracle_failures" || k == "corr_cases") {}
                        else if (k == "env_checks") g_env_checks += v;
                        else out.stat((k.rfind("hist", 0) == 0 ? "" : "history_") + k, v);
                    }
                }
                line.clear();
            }
            const int st = pclose(f);
            vh::unwatch();
            vh::clear_current();
            const int code = WIFEXITED(st) ? WEXITSTATUS(st) : -1;
            out.stat("history_processes");
            if ((!done || code != 0) && relayed == 0)
                out.fail(code == 66 ? "C09:data-race" : "C09:crash",
                         std::string("{\"part\":\"history\",\"history\":\"fresh process, ") + HISTORY_NAME[h] + "\",\"history_id\":" + std::to_string(h) + ",\"seed\":" + std::to_string(cseed) +
                             ",\"what\":\"the child process did not complete cleanly\",\"completed\":" + (done ? "true" : "false") + ",\"wait_status\":" + std::to_string(st) +
                             ",\"exit_code\":" + std::to_string(code) + ",\"signal\":" + std::to_string(WIFSIGNALED(st) ? WTERMSIG(st) : 0) + ",\"command\":\"" + esc(cmd) + "\"}");
        }
}

int main(int argc, char** argv) {
    vh::Args args(argc, argv);
    vh::install_guards();
    int history = -1;
    for (int i = 1; i + 1 < argc; ++i) if (std::string(argv[i]) == "--history") history = std::atoi(argv[i + 1]);
    if (history >= 0) return history_main(history % N_HISTORY, args.seed, args.thorough);

    // nothing below has called the library yet
    const FpEnv pristine = fpenv_now();
    if (pristine != fpenv_default())
        out.fail("C09:fp-environment-changed", "{\"what\":\"the floating-point environment of the main thread is not the default one when main() starts (static initialisation of the library?)\",\"after\":" +
                                                   fpenv_json(pristine) + ",\"default\":" + fpenv_json(fpenv_default()) + "}");
    std::string self;
    {
        std::error_code ec;
        auto p = std::filesystem::read_symlink("/proc/self/exe", ec);
        self = ec ? std::string(argv[0]) : p.string();
    }
    // Part 5 first: this process is still single-threaded
    part_histories(self, args.seed, args.thorough);
    std::fflush(stdout);

    // worker threads that exist before the first library call of this process
    Pool pool(4);
    for (int i = 0; i < pool.size(); ++i) { pool.start(i, [] {}); pool.wait(i); }
    for (int i = 0; i < pool.size(); ++i) if (pool.env0(i) != pristine) out.stat("early_threads_started_with_nondefault_fpenv");

    vh::Rng g(args.seed * 0x9E3779B97F4A7C15ULL + 909);
    const char* repo = std::getenv("VERIF_REPO");
    scan::run(repo && *repo ? repo : "/repo");
    scan::report();
    std::fflush(stdout);

    // the first library calls of this process: the main thread builds the shared plan objects (each constructor is environment-checked)
    std::vector<std::shared_ptr<void>> keep_main;
    std::vector<Shared> shared_main;
    {
        EnvLog el;
        vh::set_current("C09:crash", "{\"part\":\"fpenv\",\"what\":\"constructing the shared plan objects in the main thread\"}");
        shared_main = make_shared_plans(keep_main, el, "main thread (first library calls of the process)");
        vh::clear_current();
        env_report(el);
    }
    {
        vh::Rng ge(args.seed * 0x9E3779B97F4A7C15ULL + 31337);
        part_env(ge, args.seed, args.thorough, pool, shared_main, true);
    }
    std::fflush(stdout);
    part_rng(g, args.thorough);
    std::fflush(stdout);
    part_mix(g, args.seed, args.thorough, shared_main);
    if (fpenv_now() != pristine)
        out.fail("C09:fp-environment-changed", "{\"what\":\"the floating-point environment of the main thread at the end of the run differs from the one at the start\",\"thread\":\"main\",\"before\":" +
                                                   fpenv_json(pristine) + ",\"after\":" + fpenv_json(fpenv_now()) + ",\"changed\":\"" + fpenv_changed(pristine, fpenv_now()) + "\"}");
    out.n_oracle++;
#ifdef C09_TSAN
    out.stat("tsan_build", 1);
#else
    out.stat("tsan_build", 0);
#endif
    out.stat("tsan_reports", g_tsan_reports);
    out.stat("fp_environment_checks", g_env_checks);
    env_corr();
    out.finish();
    // a ThreadSanitizer report that was not attributed above still makes the runtime exit with its
    // exit code at finalisation; the death callback then prints this line
    vh::set_current("C09:data-race", "{\"what\":\"ThreadSanitizer reported a data race (see stderr_tail)\"}");
    return 0;
}
