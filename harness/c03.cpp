// C03 — element-wise array arithmetic, type promotion and value semantics.
//
// Random expression PROGRAMS (token language, see `show`) are interpreted three times:
//   (1) through the REAL overloads of include/dsplib/array.h (one C++ call site per overload, every
//       operand snapshotted before/after: "operands unchanged", "mismatch leaves everything unchanged"),
//   (2) by the property's ORACLE: a scalar interpreter over std::complex<long double> with value
//       semantics (the usual field formulas, promotion real-with-complex -> complex, length rules),
//       tolerance = running bound with 4*eps*scale per arithmetic operation,
//   (3) by the Lean model (Model/ArrayOps.lean) through the CORR line `prog ...`.
// Further CORR tags: `sc` (the cmplx_t scalar operators of types.h, incl. real-on-the-left forms),
// `zpad`, `concat` (utils.h), `mcplx mre mim mconj mcast` (lib/math.cpp).
#include "common.hpp"
#include <complex>
#include <memory>
#include <cfloat>
#include <climits>
using namespace dsplib;
typedef long double LD;
typedef std::complex<LD> CL;

static vh::Out out;
static uint64_t g_seed = 1;

enum { ADD = 0, SUB, MUL, DIV };
static const char* OPN[4] = {"add", "sub", "mul", "div"};

struct Sc {            // scalar operand: kind 0 real_t, 1 int, 2 cmplx_t, 3 std::complex<double>
    int kind = 0;
    double re = 0, im = 0;
    int iv = 0;
    bool cx() const { return kind >= 2; }
};
enum Tag { VAR, LIT, NEG, POS, AA, AS, SA, CAT, MASK, IDX };
struct Expr {
    Tag tag = VAR;
    int op = 0, k = 0;
    Sc s;
    std::vector<Expr> ch;
    std::vector<int> ints;        // mask bits / index list
    bool lcx = false;             // literal: kind
    std::vector<double> data;     // literal: values (re im pairs for complex)
};
enum STag { S_E, S_SET, S_COPY, S_CA, S_CS, S_CATA };
struct Stmt {
    STag tag = S_E;
    int op = 0, k = 0, j = 0;
    Sc s;
    Expr e;
};

// ------------------------------------------------------------------ token language
static std::string show(const Sc& s) {
    switch (s.kind) {
    case 0: return "r " + vh::hx(s.re);
    case 1: return "i " + std::to_string(s.iv);
    case 2: return "c " + vh::hx(s.re) + " " + vh::hx(s.im);
    default: return "z " + vh::hx(s.re) + " " + vh::hx(s.im);
    }
}
static void show(const Expr& e, std::string& o) {
    switch (e.tag) {
    case VAR: o += " v " + std::to_string(e.k); break;
    case LIT: {
        const size_t n = e.lcx ? e.data.size() / 2 : e.data.size();
        o += e.lcx ? " l C " : " l R ";
        o += std::to_string(n);
        for (double d : e.data) { o += " "; o += vh::hx(d); }
        break;
    }
    case NEG: o += " neg"; show(e.ch[0], o); break;
    case POS: o += " pos"; show(e.ch[0], o); break;
    case AA: o += std::string(" aa ") + OPN[e.op]; show(e.ch[0], o); show(e.ch[1], o); break;
    case AS: o += std::string(" as ") + OPN[e.op] + " " + show(e.s); show(e.ch[0], o); break;
    case SA: o += std::string(" sa ") + OPN[e.op] + " " + show(e.s); show(e.ch[0], o); break;
    case CAT: o += " cat"; show(e.ch[0], o); show(e.ch[1], o); break;
    case MASK: o += " mask " + std::to_string(e.ints.size()) + vh::join_ints(e.ints); show(e.ch[0], o); break;
    case IDX: o += " idx " + std::to_string(e.ints.size()) + vh::join_ints(e.ints); show(e.ch[0], o); break;
    }
}
static void show(const Stmt& s, std::string& o) {
    switch (s.tag) {
    case S_E: o += " E"; show(s.e, o); break;
    case S_SET: o += " SET " + std::to_string(s.k); show(s.e, o); break;
    case S_COPY: o += " COPY " + std::to_string(s.k) + " " + std::to_string(s.j); break;
    case S_CA: o += std::string(" CA ") + OPN[s.op] + " " + std::to_string(s.k); show(s.e, o); break;
    case S_CS: o += std::string(" CS ") + OPN[s.op] + " " + std::to_string(s.k) + " " + show(s.s); break;
    case S_CATA: o += " CATA " + std::to_string(s.k); show(s.e, o); break;
    }
}
static int depth(const Expr& e) {
    int d = 0;
    for (auto& c : e.ch) d = std::max(d, depth(c));
    return d + 1;
}

// ------------------------------------------------------------------ which overloads exist (compile)
static bool exists_as(bool acx, int skind, int op) { return !( !acx && skind == 3 && op != MUL); }      // arr_real op std::complex: only `*`
static bool exists_sa(bool acx, int skind, int op) { return !( !acx && skind == 3 && op != MUL); }      // std::complex op arr_real: only `*`
static bool exists_cs(bool acx, int skind) { return acx || skind < 2; }                                // arr_real op= complex scalar: rejected at compile time

// ------------------------------------------------------------------ ORACLE: scalar interpreter, complex<long double>
struct OV {
    bool cx = false;
    std::vector<CL> v;
    std::vector<LD> e;       // running error bound (modulus)
    std::vector<char> ok;    // element still inside the claimed magnitude range
    size_t size() const { return v.size(); }
    void push(const OV& a, size_t i, bool) { v.push_back(a.v[i]); e.push_back(a.e[i]); ok.push_back(a.ok[i]); }
};
struct OErr {};
static const LD E4 = 4 * (LD)DBL_EPSILON;
static bool inrange(const CL& a) {
    const LD m = std::abs(a);
    return m == 0 || (m >= 0.99e-100L && m <= 1.01e100L);
}
struct El { CL v; LD e; bool ok; };
static El obin(int op, const El& a, const El& b) {
    El r;
    r.ok = a.ok && b.ok && inrange(a.v) && inrange(b.v);
    const LD ma = std::abs(a.v), mb = std::abs(b.v);
    switch (op) {
    case ADD: r.v = a.v + b.v; r.e = a.e + b.e + E4 * (ma + mb); break;
    case SUB: r.v = a.v - b.v; r.e = a.e + b.e + E4 * (ma + mb); break;
    case MUL: r.v = a.v * b.v; r.e = ma * b.e + mb * a.e + a.e * b.e + E4 * ma * mb; break;
    default:
        if (mb == 0 || b.e >= mb / 2) { r.ok = false; r.v = CL(0); r.e = 0; }
        else {
            r.v = a.v / b.v;
            const LD q = std::abs(r.v), p = (a.e + q * b.e) / (mb - b.e);
            r.e = p + E4 * (q + p);
        }
    }
    return r;
}
static El el(const OV& a, size_t i) { return {a.v[i], a.e[i], (bool)a.ok[i]}; }
static El el(const Sc& s) { return {s.kind == 1 ? CL((LD)s.iv) : CL((LD)s.re, s.cx() ? (LD)s.im : 0.0L), 0, true}; }
static void put(OV& r, const El& x) { r.v.push_back(x.v); r.e.push_back(x.e); r.ok.push_back(x.ok); }

static OV o_aa(int op, const OV& a, const OV& b) {
    if (a.size() != b.size()) throw OErr{};
    OV r; r.cx = a.cx || b.cx;
    for (size_t i = 0; i < a.size(); ++i) put(r, obin(op, el(a, i), el(b, i)));
    return r;
}
static OV o_as(int op, const OV& a, const Sc& s) {
    OV r; r.cx = a.cx || s.cx();
    for (size_t i = 0; i < a.size(); ++i) put(r, obin(op, el(a, i), el(s)));
    return r;
}
static OV o_sa(int op, const Sc& s, const OV& a) {
    OV r; r.cx = a.cx || s.cx();
    for (size_t i = 0; i < a.size(); ++i) put(r, obin(op, el(s), el(a, i)));
    return r;
}
static OV o_cat(const OV& a, const OV& b) {
    OV r; r.cx = a.cx || b.cx;
    for (size_t i = 0; i < a.size(); ++i) r.push(a, i, true);
    for (size_t i = 0; i < b.size(); ++i) r.push(b, i, true);
    return r;
}
static OV oeval(const Expr& e, const std::vector<OV>& env) {
    switch (e.tag) {
    case VAR: return env[e.k];
    case LIT: {
        OV r; r.cx = e.lcx;
        const size_t n = e.lcx ? e.data.size() / 2 : e.data.size();
        for (size_t i = 0; i < n; ++i) put(r, {e.lcx ? CL(e.data[2 * i], e.data[2 * i + 1]) : CL(e.data[i]), 0, true});
        return r;
    }
    case NEG: { OV r = oeval(e.ch[0], env); for (auto& z : r.v) z = -z; return r; }
    case POS: return oeval(e.ch[0], env);
    case AA: { OV a = oeval(e.ch[0], env), b = oeval(e.ch[1], env); return o_aa(e.op, a, b); }
    case AS: return o_as(e.op, oeval(e.ch[0], env), e.s);
    case SA: return o_sa(e.op, e.s, oeval(e.ch[0], env));
    case CAT: { OV a = oeval(e.ch[0], env), b = oeval(e.ch[1], env); return o_cat(a, b); }
    case MASK: {
        OV a = oeval(e.ch[0], env);
        if (a.size() != e.ints.size()) throw OErr{};
        OV r; r.cx = a.cx;
        for (size_t i = 0; i < a.size(); ++i) if (e.ints[i]) r.push(a, i, true);
        return r;
    }
    default: {
        OV a = oeval(e.ch[0], env);
        for (int j : e.ints) if (j < 0 || j >= (int)a.size()) throw OErr{};
        OV r; r.cx = a.cx;
        for (int j : e.ints) r.push(a, j, true);
        return r;
    }
    }
}
// executes one statement with value semantics; throws OErr (environment untouched)
static OV oexec(const Stmt& s, std::vector<OV>& env) {
    switch (s.tag) {
    case S_E: return oeval(s.e, env);
    case S_SET: { OV v = oeval(s.e, env); env[s.k] = v; return v; }
    case S_COPY: { OV v = env[s.j]; env[s.k] = v; return v; }
    case S_CA: { OV b = oeval(s.e, env); OV v = o_aa(s.op, env[s.k], b); env[s.k] = v; return v; }
    case S_CS: { OV v = o_as(s.op, env[s.k], s.s); env[s.k] = v; return v; }
    default: { OV b = oeval(s.e, env); OV v = o_cat(env[s.k], b); env[s.k] = v; return v; }
    }
}

// ------------------------------------------------------------------ the REAL overloads
struct RV {   // runtime value: a reference to an environment variable (so aliasing is real) or an owned temporary
    bool cx = false;
    const arr_real* r = nullptr;
    const arr_cmplx* c = nullptr;
    std::shared_ptr<arr_real> ro;
    std::shared_ptr<arr_cmplx> co;
    int size() const { return cx ? c->size() : r->size(); }
};
static RV own(arr_real a) { RV v; v.cx = false; v.ro = std::make_shared<arr_real>(std::move(a)); v.r = v.ro.get(); return v; }
static RV own(arr_cmplx a) { RV v; v.cx = true; v.co = std::make_shared<arr_cmplx>(std::move(a)); v.c = v.co.get(); return v; }
static RV refv(const arr_real& a) { RV v; v.cx = false; v.r = &a; return v; }
static RV refv(const arr_cmplx& a) { RV v; v.cx = true; v.c = &a; return v; }
static uint64_t bitsof(double d) { uint64_t u; std::memcpy(&u, &d, 8); return u; }
static std::vector<uint64_t> bits(const RV& v) {
    std::vector<uint64_t> b;
    if (v.cx) for (int i = 0; i < v.c->size(); ++i) { b.push_back(bitsof((*v.c)[i].re)); b.push_back(bitsof((*v.c)[i].im)); }
    else for (int i = 0; i < v.r->size(); ++i) b.push_back(bitsof((*v.r)[i]));
    return b;
}
static std::string showv(const RV& v) { return v.cx ? "C " + vh::hxs(*v.c) : "R " + vh::hxs(*v.r); }

struct Threw {};
static std::string g_ctx;   // json of the program in flight
static void fail(const std::string& key, const std::string& what) {
    out.fail(key, "{\"what\":\"" + what + "\"," + g_ctx + "}");
}

// every call of a library overload goes through here: operands are snapshotted and must be bit-identical afterwards
template<class F>
static RV guarded(const std::string& label, std::initializer_list<const RV*> operands, F f) {
    std::vector<std::vector<uint64_t>> snap;
    for (auto p : operands) snap.push_back(bits(*p));
    RV res;
    bool threw = false;
    try { res = f(); } catch (const std::exception&) { threw = true; }
    size_t i = 0;
    for (auto p : operands) if (bits(*p) != snap[i++]) fail(threw ? "C03:mismatch-modified" : "C03:operand-modified", label);
    out.stat("ov_" + label);
    out.n_oracle++;
    if (threw) { out.stat("ovthrow_" + label); throw Threw{}; }
    return res;
}
static const char* KN(bool cx) { return cx ? "C" : "R"; }
static const char* SKN[4] = {"real", "int", "cmplx", "stdcomplex"};

template<class A, class B> static RV do_aa(int op, const A& a, const B& b) {
    switch (op) { case ADD: return own(a + b); case SUB: return own(a - b); case MUL: return own(a * b); default: return own(a / b); }
}
static RV call_aa(int op, const RV& a, const RV& b) {
    return guarded(std::string("aa_") + KN(a.cx) + KN(b.cx) + "_" + OPN[op], {&a, &b}, [&]() -> RV {
        if (!a.cx && !b.cx) return do_aa(op, *a.r, *b.r);
        if (!a.cx && b.cx) return do_aa(op, *a.r, *b.c);
        if (a.cx && !b.cx) return do_aa(op, *a.c, *b.r);
        return do_aa(op, *a.c, *b.c);
    });
}
template<class A, class S> static RV do_as(int op, const A& a, const S& s) {
    if constexpr (std::is_same_v<A, arr_real> && std::is_same_v<S, std::complex<double>>) {
        if (op != MUL) std::abort();
        return own(a * s);
    } else {
        switch (op) { case ADD: return own(a + s); case SUB: return own(a - s); case MUL: return own(a * s); default: return own(a / s); }
    }
}
template<class A> static RV do_as_k(int op, const A& a, const Sc& s) {
    switch (s.kind) {
    case 0: { const real_t x = s.re; return do_as(op, a, x); }
    case 1: { const int x = s.iv; return do_as(op, a, x); }
    case 2: { const cmplx_t x(s.re, s.im); return do_as(op, a, x); }
    default: { const std::complex<double> x(s.re, s.im); return do_as(op, a, x); }
    }
}
static RV call_as(int op, const RV& a, const Sc& s) {
    return guarded(std::string("as_") + KN(a.cx) + "_" + SKN[s.kind] + "_" + OPN[op], {&a}, [&]() -> RV {
        return a.cx ? do_as_k(op, *a.c, s) : do_as_k(op, *a.r, s);
    });
}
template<class S, class A> static RV do_sa(int op, const S& s, const A& a) {
    if constexpr (std::is_same_v<A, arr_real> && std::is_same_v<S, std::complex<double>>) {
        if (op != MUL) std::abort();
        return own(s * a);
    } else {
        switch (op) { case ADD: return own(s + a); case SUB: return own(s - a); case MUL: return own(s * a); default: return own(s / a); }
    }
}
template<class A> static RV do_sa_k(int op, const Sc& s, const A& a) {
    switch (s.kind) {
    case 0: { const real_t x = s.re; return do_sa(op, x, a); }
    case 1: { const int x = s.iv; return do_sa(op, x, a); }
    case 2: { const cmplx_t x(s.re, s.im); return do_sa(op, x, a); }
    default: { const std::complex<double> x(s.re, s.im); return do_sa(op, x, a); }
    }
}
static RV call_sa(int op, const Sc& s, const RV& a) {
    return guarded(std::string("sa_") + SKN[s.kind] + "_" + KN(a.cx) + "_" + OPN[op], {&a}, [&]() -> RV {
        return a.cx ? do_sa_k(op, s, *a.c) : do_sa_k(op, s, *a.r);
    });
}
static RV call_cat(const RV& a, const RV& b) {
    return guarded(std::string("cat_") + KN(a.cx) + KN(b.cx), {&a, &b}, [&]() -> RV {
        if (!a.cx && !b.cx) return own(*a.r | *b.r);
        if (!a.cx && b.cx) return own(*a.r | *b.c);
        if (a.cx && !b.cx) return own(*a.c | *b.r);
        return own(*a.c | *b.c);
    });
}
// (`-arr_cmplx` was ill-formed before /repo commit 34b0f59: `base_array<T> r{_vec}` selected the initializer_list constructor
// because cmplx_t is constructible from anything; repaired, so both element types go through the real operator-().)
template<class A> static RV do_neg(const A& a) { return own(-a); }
static RV call_neg(const RV& a) {
    return guarded(std::string("neg_") + KN(a.cx), {&a}, [&]() -> RV { return a.cx ? do_neg(*a.c) : do_neg(*a.r); });
}
static RV call_pos(const RV& a) {
    return guarded(std::string("pos_") + KN(a.cx), {&a}, [&]() -> RV { return a.cx ? own(arr_cmplx(+*a.c)) : own(arr_real(+*a.r)); });
}
static RV call_mask(const RV& a, const std::vector<int>& m) {
    std::vector<bool> mb(m.size());
    for (size_t i = 0; i < m.size(); ++i) mb[i] = m[i] != 0;
    return guarded(std::string("mask_") + KN(a.cx), {&a}, [&]() -> RV { return a.cx ? own((*a.c)[mb]) : own((*a.r)[mb]); });
}
static RV call_idx(const RV& a, const std::vector<int>& idx, bool as_arr_int) {
    return guarded(std::string("idx_") + KN(a.cx) + (as_arr_int ? "_arrint" : "_vector"), {&a}, [&]() -> RV {
        if (as_arr_int) { const arr_int ai(idx); return a.cx ? own((*a.c)[ai]) : own((*a.r)[ai]); }
        return a.cx ? own((*a.c)[idx]) : own((*a.r)[idx]);
    });
}

struct Var { bool cx = false; arr_real r; arr_cmplx c; };
static RV refvar(const Var& v) { return v.cx ? refv(v.c) : refv(v.r); }

static RV reval(const Expr& e, std::vector<Var>& env, vh::Rng& aux) {
    switch (e.tag) {
    case VAR: return refvar(env[e.k]);
    case LIT: {
        if (e.lcx) { arr_cmplx a(int(e.data.size() / 2)); for (int i = 0; i < a.size(); ++i) a[i] = cmplx_t(e.data[2 * i], e.data[2 * i + 1]); return own(std::move(a)); }
        arr_real a(int(e.data.size())); for (int i = 0; i < a.size(); ++i) a[i] = e.data[i]; return own(std::move(a));
    }
    case NEG: { RV a = reval(e.ch[0], env, aux); return call_neg(a); }
    case POS: { RV a = reval(e.ch[0], env, aux); return call_pos(a); }
    case AA: { RV a = reval(e.ch[0], env, aux); RV b = reval(e.ch[1], env, aux); return call_aa(e.op, a, b); }
    case AS: { RV a = reval(e.ch[0], env, aux); return call_as(e.op, a, e.s); }
    case SA: { RV a = reval(e.ch[0], env, aux); return call_sa(e.op, e.s, a); }
    case CAT: { RV a = reval(e.ch[0], env, aux); RV b = reval(e.ch[1], env, aux); return call_cat(a, b); }
    case MASK: { RV a = reval(e.ch[0], env, aux); return call_mask(a, e.ints); }
    default: { RV a = reval(e.ch[0], env, aux); return call_idx(a, e.ints, aux.coin()); }
    }
}

template<class A, class B> static void do_ca(int op, A& a, const B& b) {
    switch (op) { case ADD: a += b; break; case SUB: a -= b; break; case MUL: a *= b; break; default: a /= b; }
}
template<class A> static void do_cs_k(int op, A& a, const Sc& s) {
    switch (s.kind) {
    case 0: { const real_t x = s.re; do_ca(op, a, x); break; }
    case 1: { const int x = s.iv; do_ca(op, a, x); break; }
    case 2: if constexpr (std::is_same_v<A, arr_cmplx>) { const cmplx_t x(s.re, s.im); do_ca(op, a, x); } else std::abort(); break;
    default: if constexpr (std::is_same_v<A, arr_cmplx>) { const std::complex<double> x(s.re, s.im); do_ca(op, a, x); } else std::abort(); break;
    }
}
// executes one statement on the real arrays; returns the statement's value; throws Threw if the library threw
static RV rexec(const Stmt& s, std::vector<Var>& env, vh::Rng& aux) {
    Var& t = env[s.k];
    switch (s.tag) {
    case S_E: return reval(s.e, env, aux);
    case S_SET: {
        RV v = reval(s.e, env, aux);
        const bool alias = (v.cx ? (const void*)v.c == (const void*)&t.c : (const void*)v.r == (const void*)&t.r);
        if (v.cx != t.cx) std::abort();
        if (v.ro || v.co) {   // temporary: move assignment
            out.stat(std::string("ov_assign_move_") + KN(t.cx));
            if (t.cx) t.c = std::move(*v.co); else t.r = std::move(*v.ro);
        } else {              // another variable (or itself): copy assignment
            out.stat(std::string(alias ? "ov_assign_self_" : "ov_assign_copy_") + KN(t.cx));
            if (t.cx) t.c = *v.c; else t.r = *v.r;
            if (!alias && t.cx && t.c.size() && t.c.data() == v.c->data()) fail("C03:copy-shares-storage", "assign");
            if (!alias && !t.cx && t.r.size() && t.r.data() == v.r->data()) fail("C03:copy-shares-storage", "assign");
        }
        return refvar(t);
    }
    case S_COPY: {            // copy constructor, then move assignment of the copy
        const Var& src = env[s.j];
        if (src.cx != t.cx) std::abort();
        out.stat(std::string("ov_copy_ctor_") + KN(t.cx));
        const RV sv = refvar(src);
        const auto snap = bits(sv);
        if (t.cx) { arr_cmplx c(src.c); if (c.size() && c.data() == src.c.data()) fail("C03:copy-shares-storage", "ctor"); t.c = std::move(c); }
        else { arr_real c(src.r); if (c.size() && c.data() == src.r.data()) fail("C03:copy-shares-storage", "ctor"); t.r = std::move(c); }
        if (s.j != s.k && bits(refvar(src)) != snap) fail("C03:operand-modified", "copy_ctor");
        return refvar(t);
    }
    case S_CA: {
        RV b = reval(s.e, env, aux);
        const bool alias = (b.cx ? (const void*)b.c == (const void*)&t.c : (const void*)b.r == (const void*)&t.r);
        const RV tv = refvar(t);
        const std::string label = std::string("ca_") + KN(t.cx) + KN(b.cx) + "_" + OPN[s.op] + (alias ? "_alias" : "");
        const auto st = bits(tv), sb = bits(b);
        bool threw = false;
        try {
            if (!t.cx && !b.cx) do_ca(s.op, t.r, *b.r);
            else if (t.cx && !b.cx) do_ca(s.op, t.c, *b.r);
            else if (t.cx && b.cx) do_ca(s.op, t.c, *b.c);
            else std::abort();
        } catch (const std::exception&) { threw = true; }
        out.stat("ov_" + label);
        out.n_oracle++;
        if (!alias && bits(b) != sb) fail(threw ? "C03:mismatch-modified" : "C03:operand-modified", label);
        if (threw) {
            out.stat("ovthrow_" + label);
            if (bits(refvar(t)) != st) fail("C03:mismatch-modified", label);
            throw Threw{};
        }
        return refvar(t);
    }
    case S_CS: {
        const std::string label = std::string("cs_") + KN(t.cx) + "_" + SKN[s.s.kind] + "_" + OPN[s.op];
        out.stat("ov_" + label);
        out.n_oracle++;
        if (t.cx) do_cs_k(s.op, t.c, s.s); else do_cs_k(s.op, t.r, s.s);
        return refvar(t);
    }
    default: {
        RV b = reval(s.e, env, aux);
        const bool alias = (b.cx ? (const void*)b.c == (const void*)&t.c : (const void*)b.r == (const void*)&t.r);
        const std::string label = std::string("cata_") + KN(t.cx) + KN(b.cx) + (alias ? "_alias" : "");
        const auto sb = bits(b);
        out.stat("ov_" + label);
        out.n_oracle++;
        if (!t.cx && !b.cx) t.r |= *b.r;
        else if (t.cx && !b.cx) t.c |= *b.r;
        else if (t.cx && b.cx) t.c |= *b.c;
        else std::abort();
        if (!alias && bits(b) != sb) fail("C03:operand-modified", label);
        return refvar(t);
    }
    }
}

// ------------------------------------------------------------------ comparison implementation vs oracle
static long long g_claimed = 0, g_unclaimed = 0;
static LD g_worst = 0;   // max observed |impl-ref| / bound over claimed elements with a non-zero bound
static bool compare(const RV& got, const OV& want, const std::string& where) {
    if (got.cx != want.cx) { fail("C03:result-kind", where); return false; }
    if ((size_t)got.size() != want.size()) { fail("C03:result-length", where + " got " + std::to_string(got.size()) + " want " + std::to_string(want.size())); return false; }
    for (size_t i = 0; i < want.size(); ++i) {
        if (!want.ok[i]) { ++g_unclaimed; continue; }
        ++g_claimed;
        const CL g = got.cx ? CL((*got.c)[int(i)].re, (*got.c)[int(i)].im) : CL((*got.r)[int(i)], 0);
        const LD d = std::abs(g - want.v[i]);
        const LD tol = want.e[i] + 1e-18L * std::abs(want.v[i]);
        if (!(d <= tol)) {
            char b[256];
            std::snprintf(b, sizeof b, "%s elem %zu got (%.17g,%.17g) want (%.21Lg,%.21Lg) bound %.3Lg", where.c_str(), i, (double)g.real(), (double)g.imag(),
                          want.v[i].real(), want.v[i].imag(), tol);
            fail("C03:value", b);
            return false;
        }
        if (want.e[i] > 0 && d / want.e[i] > g_worst) g_worst = d / want.e[i];
    }
    return true;
}

// ------------------------------------------------------------------ generator
struct Gen {
    vh::Rng& rng;
    int mode = 0;                 // 0 moderate magnitudes, 1 wide (1e-100 .. 1e100)
    std::vector<bool> vcx;        // kinds of the variables
    std::vector<int> vlen;        // current lengths
    bool broke = false;           // a deliberate length/index violation was planted

    double value() {
        const int c = int(rng.next() % 100);
        if (c < 7) return 0.0;
        if (c < 12) return -0.0;
        if (c < 16) return rng.coin() ? 1.0 : -1.0;
        if (c < 21) return double(rng.range(-9, 9));
        if (mode == 0) return rng.gauss() * std::pow(10.0, rng.range(-3, 3));
        if (c < 26) return (rng.coin() ? 1 : -1) * 1e100;
        if (c < 31) return (rng.coin() ? 1 : -1) * 1e-100;
        return (rng.coin() ? 1 : -1) * (1 + 8.9 * rng.unit()) * std::pow(10.0, rng.range(-100, 99));
    }
    Sc scalar(bool allow_cx) {
        Sc s;
        const int c = int(rng.next() % 100);
        s.kind = !allow_cx ? (c < 60 ? 0 : 1) : (c < 30 ? 0 : c < 50 ? 1 : c < 85 ? 2 : 3);
        s.re = value(); s.im = value();
        if (s.kind < 2) s.im = 0;
        s.iv = (rng.next() % 8 == 0) ? (rng.coin() ? INT_MAX : -1000003) : rng.range(-6, 6);
        return s;
    }
    Expr literal(int n, bool cx) {
        Expr e; e.tag = LIT; e.lcx = cx;
        e.data.resize(cx ? 2 * n : n);
        for (auto& d : e.data) d = value();
        return e;
    }
    bool kindOf(const Expr& e) const {
        switch (e.tag) {
        case VAR: return vcx[e.k];
        case LIT: return e.lcx;
        case AA: case CAT: return kindOf(e.ch[0]) || kindOf(e.ch[1]);
        case AS: case SA: return kindOf(e.ch[0]) || e.s.cx();
        default: return kindOf(e.ch[0]);
        }
    }
    int other_len(int L) {
        switch (rng.next() % 5) {
        case 0: return L + 1;
        case 1: return L > 0 ? L - 1 : 2;
        case 2: return L == 0 ? 1 : 0;
        case 3: return L == 1 ? 3 : 1;
        default: { int x = rng.range(0, 2 * L + 3); return x == L ? L + 2 : x; }
        }
    }
    Expr leaf(int L, bool realOnly) {
        std::vector<int> cand;
        for (size_t k = 0; k < vcx.size(); ++k) if (vlen[k] == L && !(realOnly && vcx[k])) cand.push_back(int(k));
        if (!cand.empty() && (rng.next() % 100 < 80 || L > 200)) { Expr e; e.tag = VAR; e.k = cand[rng.next() % cand.size()]; return e; }
        return literal(L, realOnly ? false : rng.coin());
    }
    // an expression of static length L (unless a violation is planted) and nesting depth <= d
    Expr gen(int d, int L, bool realOnly, int breakPct) {
        if (d <= 1) return leaf(L, realOnly);
        const int c = int(rng.next() % 100);
        Expr e;
        auto sub = [&](int Lc) { return gen(d - 1, Lc, realOnly, breakPct); };
        auto subAny = [&](int Lc) { return gen(rng.range(1, d - 1), Lc, realOnly, breakPct); };
        if (c < 36) {
            e.tag = AA; e.op = int(rng.next() % 4);
            int Lb = L;
            if (int(rng.next() % 100) < breakPct) { Lb = other_len(L); broke = true; }
            Expr a = sub(L), b = subAny(Lb);
            if (rng.coin()) std::swap(a, b);
            e.ch = {a, b};
        } else if (c < 52) {
            e.tag = AS; e.op = int(rng.next() % 4); e.ch = {sub(L)};
            do { e.s = scalar(!realOnly); } while (!exists_as(kindOf(e.ch[0]), e.s.kind, e.op));
        } else if (c < 68) {
            e.tag = SA; e.op = int(rng.next() % 4); e.ch = {sub(L)};
            do { e.s = scalar(!realOnly); } while (!exists_sa(kindOf(e.ch[0]), e.s.kind, e.op));
        } else if (c < 74) { e.tag = NEG; e.ch = {sub(L)}; }
        else if (c < 76) { e.tag = POS; e.ch = {sub(L)}; }
        else if (c < 85) {
            e.tag = CAT;
            const int L1 = rng.range(0, L);
            Expr a = sub(L1), b = subAny(L - L1);
            e.ch = {a, b};
        } else if (c < 92) {
            e.tag = MASK;
            const int m = L + rng.range(0, std::min(L + 2, 8));
            e.ints.assign(m, 0);
            // exactly L ones at random positions (partial Fisher-Yates)
            std::vector<int> pos(m);
            for (int i = 0; i < m; ++i) pos[i] = i;
            for (int i = 0; i < L; ++i) { const int j = i + int(rng.next() % uint64_t(m - i)); std::swap(pos[i], pos[j]); e.ints[pos[i]] = 1; }
            int mc = m;
            if (int(rng.next() % 100) < breakPct) { mc = rng.coin() ? m + 1 : (m > 0 ? m - 1 : 1); broke = true; }
            e.ch = {sub(mc)};
        } else if (c < 99) {
            e.tag = IDX;
            const int m = (L == 0) ? rng.range(0, 3) : rng.range(1, L + 3);
            e.ints.resize(L);
            for (auto& j : e.ints) j = m > 0 ? int(rng.next() % uint64_t(m)) : 0;
            if (L > 0 && rng.coin()) { e.ints[0] = rng.coin() ? 0 : m - 1; e.ints[L - 1] = rng.coin() ? m - 1 : 0; }   // boundaries
            if (L > 0 && int(rng.next() % 100) < breakPct) {
                const int w = int(rng.next() % uint64_t(L));
                const int bad[6] = {m, -1, m + 5, -m - 1, INT_MAX, INT_MIN};
                e.ints[w] = bad[rng.next() % 6];
                broke = true;
            }
            e.ch = {sub(m)};
        } else return leaf(L, realOnly);
        return e;
    }
};

struct Program {
    std::vector<Var> vars;
    std::vector<Stmt> stmts;
};

static void run_program(vh::Rng& rng, int L, int mode, int maxDepth, int maxStmts, bool emit_corr, long long pindex) {
    Gen g{rng};
    g.mode = mode;
    const int nv = rng.range(2, 4);
    std::vector<Var> env(nv);
    std::vector<OV> oenv(nv);
    std::string lhs = "prog " + std::to_string(nv);
    for (int k = 0; k < nv; ++k) {
        const bool cx = (k == 0) ? false : (k == 1) ? true : rng.coin();
        const int n = (int(rng.next() % 100) < 80) ? L : g.other_len(L);
        g.vcx.push_back(cx); g.vlen.push_back(n);
        env[k].cx = cx; oenv[k].cx = cx;
        if (cx) { env[k].c = arr_cmplx(n); for (int i = 0; i < n; ++i) { env[k].c[i] = cmplx_t(g.value(), g.value()); oenv[k].v.push_back(CL(env[k].c[i].re, env[k].c[i].im)); } }
        else { env[k].r = arr_real(n); for (int i = 0; i < n; ++i) { env[k].r[i] = g.value(); oenv[k].v.push_back(CL(env[k].r[i])); } }
        oenv[k].e.assign(n, 0); oenv[k].ok.assign(n, 1);
        lhs += " " + showv(refvar(env[k]));
    }
    const int ns = rng.range(1, maxStmts);
    std::string body, rhs;
    char ctx[200];
    std::snprintf(ctx, sizeof ctx, "\"seed\":%llu,\"program\":%lld,\"L\":%d,\"mode\":%d", (unsigned long long)g_seed, pindex, L, mode);
    vh::Rng aux(rng.next());
    for (int si = 0; si < ns; ++si) {
        Stmt s;
        g.broke = false;
        const int c = int(rng.next() % 100);
        const int d = rng.range(1, (c >= 52) ? maxDepth - 1 : maxDepth);   // compound forms add one level
        const int breakPct = (rng.next() % 100 < 25) ? 12 : 0;   // a quarter of the statements may plant a violation
        s.k = rng.range(0, nv - 1);
        if (c < 28) { s.tag = S_E; s.e = g.gen(d, (rng.next() % 4) ? L : g.vlen[s.k], false, breakPct); }
        else if (c < 46) {
            s.tag = S_SET; s.e = g.gen(d, (rng.next() % 4) ? L : g.other_len(L), !g.vcx[s.k], breakPct);
            if (g.kindOf(s.e) != g.vcx[s.k]) {   // complex variable, expression came out real: pick a real variable
                std::vector<int> cand; for (int k = 0; k < nv; ++k) if (!g.vcx[k]) cand.push_back(k);
                if (cand.empty()) s.tag = S_E; else s.k = cand[rng.next() % cand.size()];
            }
        } else if (c < 52) {
            s.tag = S_COPY; std::vector<int> cand; for (int k = 0; k < nv; ++k) if (g.vcx[k] == g.vcx[s.k]) cand.push_back(k);
            s.j = cand[rng.next() % cand.size()];
        } else if (c < 70) {
            s.tag = S_CA; s.op = int(rng.next() % 4);
            int Lr = g.vlen[s.k];
            if (rng.next() % 100 < 6) { Lr = g.other_len(Lr); g.broke = true; }
            s.e = g.gen(d, Lr, !g.vcx[s.k], breakPct);
        } else if (c < 78) {   // aliasing: a op= a, also through an expression mentioning a
            s.tag = S_CA; s.op = int(rng.next() % 4);
            if (rng.coin()) { s.e.tag = VAR; s.e.k = s.k; }
            else { Expr v; v.tag = VAR; v.k = s.k; s.e.tag = AA; s.e.op = int(rng.next() % 4); s.e.ch = {v, v}; }
        } else if (c < 88) {
            s.tag = S_CS; s.op = int(rng.next() % 4);
            do { s.s = g.scalar(g.vcx[s.k]); } while (!exists_cs(g.vcx[s.k], s.s.kind));
        } else if (c < 95) { s.tag = S_CATA; s.e = g.gen(d, rng.range(0, L + 2), !g.vcx[s.k], breakPct); }
        else { s.tag = S_CATA; s.e.tag = VAR; s.e.k = s.k; }   // a |= a
        show(s, body);
        out.stat("depth_" + std::to_string(s.tag == S_COPY || s.tag == S_CS ? 1 : depth(s.e) + (s.tag == S_E || s.tag == S_SET ? 0 : 1)));
        // ---- oracle (value semantics)
        bool oerr = false;
        OV want;
        std::vector<OV> oenv_before = oenv;
        try { want = oexec(s, oenv); } catch (const OErr&) { oerr = true; oenv = oenv_before; }
        // ---- the real overloads
        std::string js = std::string("{") + ctx + ",\"stmt\":" + std::to_string(si) + ",\"text\":\"" + (lhs.size() + body.size() < 3000 ? lhs + " " + std::to_string(ns) + body : std::string("(long)")) + "\"}";
        vh::set_current("C03:crash", js);
        g_ctx = std::string(ctx) + ",\"stmt\":" + std::to_string(si) + ",\"text\":\"" + (lhs.size() + body.size() < 3000 ? lhs + " ..." + body : std::string("(long)")) + "\"";
        std::vector<std::vector<uint64_t>> before;
        for (int k = 0; k < nv; ++k) before.push_back(bits(refvar(env[k])));
        bool threw = false;
        RV got;
        vh::watch(60);
        try { got = rexec(s, env, aux); } catch (const Threw&) { threw = true; }
        vh::unwatch();
        vh::clear_current();
        const std::string where = "stmt " + std::to_string(si);
        if (threw && !oerr) fail("C03:throws-valid", where);
        if (!threw && oerr) fail("C03:mismatch-accepted", where);
        out.stat(oerr ? "stmt_err" : "stmt_ok");
        if (oerr && !g.broke) out.stat("stmt_err_unplanned");
        if (!threw && !oerr) compare(got, want, where);
        rhs += threw ? " ERR" : " " + showv(got);
        // environment: bystanders bit-identical, a failed statement changes nothing, target = oracle's
        const bool mutating = (s.tag != S_E) && !threw;
        for (int k = 0; k < nv; ++k) {
            const bool same = bits(refvar(env[k])) == before[k];
            if ((!mutating || k != s.k) && !same) fail(threw ? "C03:mismatch-modified" : "C03:bystander-modified", where + " var " + std::to_string(k));
            if (!threw && !oerr) compare(refvar(env[k]), oenv[k], where + " env var " + std::to_string(k));
        }
        if (!threw) for (int k = 0; k < nv; ++k) g.vlen[k] = refvar(env[k]).size();
    }
    rhs += " ENV";
    for (int k = 0; k < nv; ++k) rhs += " " + showv(refvar(env[k]));
    if (emit_corr) {
        out.corr(lhs + " " + std::to_string(ns) + body, rhs.substr(1));
        if (L <= 6 && mode == 0) out.sample("{\"program\":\"" + lhs + " " + std::to_string(ns) + body + "\",\"result\":\"" + rhs.substr(1) + "\"}");
    }
    out.stat(mode ? "programs_wide" : "programs_moderate");
    out.stat(L <= 64 ? "programs_len_0_64" : "programs_len_65_10000");
}

// ------------------------------------------------------------------ scalar operators of types.h
static std::string showc(const cmplx_t& z) { return vh::hx(z.re) + " " + vh::hx(z.im); }
static void check_sc(const char* what, const cmplx_t& got, const CL& want, LD scale, bool claimed) {
    out.n_oracle++;
    if (!claimed) return;
    const LD d = std::abs(CL(got.re, got.im) - want);
    if (!(d <= E4 * scale + 1e-18L * std::abs(want))) {
        char b[200];
        std::snprintf(b, sizeof b, "%s got (%.17g,%.17g) want (%.21Lg,%.21Lg)", what, got.re, got.im, want.real(), want.imag());
        out.fail("C03:scalar-op", std::string("{\"what\":\"") + b + "\"}");
    }
}
static void scalar_cases(vh::Rng& rng, int count) {
    Gen g{rng};
    for (int it = 0; it < count; ++it) {
        g.mode = (it % 3 == 2) ? 1 : 0;
        const cmplx_t a(g.value(), g.value()), b(g.value(), g.value());
        const real_t x = g.value();
        const int n = rng.range(-7, 7);
        const CL A(a.re, a.im), B(b.re, b.im), X(x), N((LD)n);
        const bool ra = inrange(A), rb = inrange(B), rx = inrange(X);
        const LD ma = std::abs(A), mb = std::abs(B), mx = std::abs(X), mn = std::abs(N);
        for (int op = 0; op < 4; ++op) {
            cmplx_t r, q;
            CL w; LD sc;
            auto ref = [&](const CL& u, const CL& v, LD mu, LD mv) {
                switch (op) { case ADD: w = u + v; sc = mu + mv; break; case SUB: w = u - v; sc = mu + mv; break; case MUL: w = u * v; sc = mu * mv; break; default: w = (mv == 0) ? CL(0) : u / v; sc = (mv == 0) ? 0 : mu / mv; }
            };
            // cmplx op cmplx, and compound
            switch (op) { case ADD: r = a + b; q = a; q += b; break; case SUB: r = a - b; q = a; q -= b; break; case MUL: r = a * b; q = a; q *= b; break; default: r = a / b; q = a; q /= b; }
            ref(A, B, ma, mb);
            check_sc("cc", r, w, sc, ra && rb && !(op == DIV && mb == 0));
            out.corr(std::string("sc cc ") + OPN[op] + " " + showc(a) + " " + showc(b), showc(r));
            out.corr(std::string("sc cca ") + OPN[op] + " " + showc(a) + " " + showc(b), showc(q));
            // cmplx op real, and compound
            switch (op) { case ADD: r = a + x; q = a; q += x; break; case SUB: r = a - x; q = a; q -= x; break; case MUL: r = a * x; q = a; q *= x; break; default: r = a / x; q = a; q /= x; }
            ref(A, X, ma, mx);
            check_sc("cr", r, w, sc, ra && rx && !(op == DIV && mx == 0));
            check_sc("cra", q, w, sc, ra && rx && !(op == DIV && mx == 0));
            out.corr(std::string("sc cr ") + OPN[op] + " " + showc(a) + " " + vh::hx(x), showc(r));
            out.corr(std::string("sc cra ") + OPN[op] + " " + showc(a) + " " + vh::hx(x), showc(q));
            // real op cmplx  (left-oriented forms)
            switch (op) { case ADD: r = x + b; break; case SUB: r = x - b; break; case MUL: r = x * b; break; default: r = x / b; }
            ref(X, B, mx, mb);
            check_sc("rc", r, w, sc, rx && rb && !(op == DIV && mb == 0));
            out.corr(std::string("sc rc ") + OPN[op] + " " + vh::hx(x) + " " + showc(b), showc(r));
            // int op cmplx
            switch (op) { case ADD: r = n + b; break; case SUB: r = n - b; break; case MUL: r = n * b; break; default: r = n / b; }
            ref(N, B, mn, mb);
            check_sc("ic", r, w, sc, rb && !(op == DIV && mb == 0));
            out.corr(std::string("sc ic ") + OPN[op] + " " + std::to_string(n) + " " + showc(b), showc(r));
        }
        out.corr("sc neg " + showc(a), showc(-a));
        out.corr("sc conj " + showc(a), showc(a.conj()));
        out.corr("sc abs2 " + showc(a), vh::hx(a.abs2()));
        check_sc("neg", -a, -A, 0, true);
        check_sc("conj", a.conj(), std::conj(A), 0, true);
        out.stat("scalar_cases");
    }
}

// ------------------------------------------------------------------ utils.h / math.cpp array builders
template<class T> static base_array<T> rand_arr(Gen& g, int n) {
    base_array<T> a(n);
    for (int i = 0; i < n; ++i) { if constexpr (std::is_same_v<T, cmplx_t>) a[i] = cmplx_t(g.value(), g.value()); else a[i] = g.value(); }
    return a;
}
template<class T> static bool same_bits(const base_array<T>& a, const base_array<T>& b) {
    return bits(refv(a)) == bits(refv(b));
}
template<class T> static void builder_cases(Gen& g, vh::Rng& rng, int n) {
    const char* K = std::is_same_v<T, cmplx_t> ? "C" : "R";
    // zeropad: exact prefix + zeros, throws when the target is shorter
    const base_array<T> x = rand_arr<T>(g, n);
    for (int m : {n - 1, n, n + 1, n + rng.range(2, 9), 0, -1}) {
        std::string res;
        out.n_oracle++;
        out.stat("zeropad_cases");
        try {
            const auto y = zeropad(x, m);
            res = std::string(K) + " " + vh::hxs(y);
            bool good = (m >= n) && y.size() == m;
            if (good) {
                base_array<T> want(m);
                for (int i = 0; i < n; ++i) want[i] = x[i];
                good = same_bits(want, y);
            }
            if (!good) out.fail("C03:zeropad", "{\"n\":" + std::to_string(n) + ",\"m\":" + std::to_string(m) + "}");
        } catch (const std::exception&) {
            res = "ERR";
            if (m >= n) out.fail("C03:zeropad", "{\"n\":" + std::to_string(n) + ",\"m\":" + std::to_string(m) + ",\"threw\":1}");
        }
        out.corr(std::string("zpad ") + K + " " + vh::hxs(x) + " " + std::to_string(m), res);
    }
    // concatenate of 2..5 arrays
    const int k = rng.range(2, 5);
    std::vector<base_array<T>> parts;
    std::string lhs = std::string("concat ") + std::to_string(k);
    base_array<T> want;
    {
        std::vector<T> all;
        for (int j = 0; j < k; ++j) {
            parts.push_back(rand_arr<T>(g, (rng.next() % 4 == 0) ? 0 : rng.range(0, n + 1)));
            lhs += std::string(" ") + K + " " + vh::hxs(parts.back());
            for (int i = 0; i < parts.back().size(); ++i) all.push_back(parts.back()[i]);
        }
        want = base_array<T>(all);
    }
    base_array<T> y;
    switch (k) {
    case 2: y = concatenate(parts[0], parts[1]); break;
    case 3: y = concatenate(parts[0], parts[1], parts[2]); break;
    case 4: y = concatenate(parts[0], parts[1], parts[2], parts[3]); break;
    default: y = concatenate(parts[0], parts[1], parts[2], parts[3], parts[4]);
    }
    out.n_oracle++;
    out.stat("concatenate_cases");
    if (!same_bits(want, y)) out.fail("C03:concatenate", "{\"k\":" + std::to_string(k) + ",\"n\":" + std::to_string(n) + "}");
    out.corr(lhs, std::string(K) + " " + vh::hxs(y));
}
static void math_cases(Gen& g, vh::Rng& rng, int n) {
    const arr_real re = rand_arr<real_t>(g, n);
    const int n2 = (rng.next() % 5 == 0) ? g.other_len(n) : n;
    const arr_real im = rand_arr<real_t>(g, n2);
    std::string res;
    out.n_oracle += 5;
    out.stat("math_cases");
    try {
        const arr_cmplx z = complex(re, im);
        res = "C " + vh::hxs(z);
        bool good = (n == n2) && z.size() == n;
        for (int i = 0; good && i < n; ++i) good = bitsof(z[i].re) == bitsof(re[i]) && bitsof(z[i].im) == bitsof(im[i]);
        if (!good) out.fail("C03:complex-builder", "{\"n\":" + std::to_string(n) + ",\"n2\":" + std::to_string(n2) + "}");
    } catch (const std::exception&) {
        res = "ERR";
        if (n == n2) out.fail("C03:complex-builder", "{\"n\":" + std::to_string(n) + ",\"threw\":1}");
    }
    out.corr("mcplx R " + vh::hxs(re) + " R " + vh::hxs(im), res);
    const arr_cmplx z = rand_arr<cmplx_t>(g, n);
    const arr_real zr = real(z), zi = imag(z);
    const arr_cmplx zc = conj(z), zz = complex(re);
    bool good = zr.size() == n && zi.size() == n && zc.size() == n && zz.size() == n;
    for (int i = 0; good && i < n; ++i)
        good = bitsof(zr[i]) == bitsof(z[i].re) && bitsof(zi[i]) == bitsof(z[i].im) && bitsof(zc[i].re) == bitsof(z[i].re) && bitsof(zc[i].im) == bitsof(-z[i].im) &&
               bitsof(zz[i].re) == bitsof(re[i]) && bitsof(zz[i].im) == bitsof(0.0);
    if (!good) out.fail("C03:real-imag-conj", "{\"n\":" + std::to_string(n) + "}");
    out.corr("mre C " + vh::hxs(z), "R " + vh::hxs(zr));
    out.corr("mim C " + vh::hxs(z), "R " + vh::hxs(zi));
    out.corr("mconj C " + vh::hxs(z), "C " + vh::hxs(zc));
    out.corr("mcast R " + vh::hxs(re), "C " + vh::hxs(zz));
}

static int big_len(vh::Rng& rng) {   // log-uniform in 65 .. 10000
    const double l = std::log(65.0) + rng.unit() * (std::log(10000.0) - std::log(65.0));
    int n = int(std::exp(l));
    if (rng.next() % 16 == 0) n = 10000;
    return std::min(10000, std::max(65, n));
}

int main(int argc, char** argv) {
    vh::Args a(argc, argv);
    vh::install_guards();
    g_seed = a.seed;
    vh::Rng rng(a.seed);
    long long pindex = 0;
    // every length 0..64
    const int perLen = a.thorough ? 120 : 14;
    for (int L = 0; L <= 64; ++L)
        for (int r = 0; r < perLen; ++r) {
            const int mode = (r % 4 == 3) ? 1 : 0;
            run_program(rng, L, mode, mode ? 3 : 6, 6, !a.thorough || r % 3 == 0, pindex++);   // thorough: every third program also goes through CORR
        }
    // lengths sampled up to 1e4: a few through CORR, many through the oracle only
    const int bigCorr = a.thorough ? 16 : 8, bigOracle = a.thorough ? 1500 : 150;
    for (int r = 0; r < bigCorr; ++r) run_program(rng, big_len(rng), (r % 4 == 3) ? 1 : 0, 4, 3, true, pindex++);
    for (int r = 0; r < bigOracle; ++r) run_program(rng, big_len(rng), (r % 4 == 3) ? 1 : 0, 6, 5, false, pindex++);
    // scalar operators, builders
    scalar_cases(rng, a.thorough ? 5000 : 2000);
    {
        Gen g{rng};
        const int reps = a.thorough ? 4 : 2;
        for (int rep = 0; rep < reps; ++rep)
            for (int n = 0; n <= 64; ++n) {
                g.mode = (n + rep) % 3 == 2;
                builder_cases<real_t>(g, rng, n);
                builder_cases<cmplx_t>(g, rng, n);
                math_cases(g, rng, n);
            }
        for (int r = 0; r < (a.thorough ? 5 : 2); ++r) {
            const int n = big_len(rng);
            builder_cases<real_t>(g, rng, n);
            builder_cases<cmplx_t>(g, rng, n);
            math_cases(g, rng, n);
        }
    }
    out.stats["elements_claimed"] = g_claimed;
    out.stats["elements_outside_claimed_range"] = g_unclaimed;
    out.stats["worst_error_over_bound_ppm"] = (long long)(g_worst * 1e6L);
    out.finish();
    return 0;
}
