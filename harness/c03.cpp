// C03 — element-wise array arithmetic, type promotion and value semantics.
//
// Random expression PROGRAMS (token language, see `show`) are interpreted three times:
//   (1) through the REAL overloads of include/dsplib/array.h (one C++ call site per overload, every
//       operand snapshotted before/after: "operands unchanged", "mismatch leaves everything unchanged"),
//   (2) by the property's ORACLE: a scalar interpreter over std::complex<long double> with value
//       semantics (the usual field formulas, promotion real-with-complex -> complex, length rules),
//       tolerance = running bound with 4*eps*scale per arithmetic operation,
//   (3) by the Lean model (Model/ArrayOps.lean) through the CORR line `prog ...`.
// In (1) the interpreter hands owned intermediates (inner results, literals) to the next overload as RVALUES half of the time, so
// overloads taking temporaries are reached; every result in the CORR lines carries a sign-of-zero token (`z:+-.`), because
// check.py's numeric comparison of float tokens cannot tell -0 from +0.
// Section FORMS: 135 COMPILED C++ expressions whose intermediates are genuine temporaries (CORR tag `form`), compared bit for
// bit with the step-by-step evaluation through named arrays and consumed in every prvalue idiom (lifetime / ownership of results).
// Section PROMOTION: every mixed real/complex/int operator form (array or scalar on either side, compound forms, int arrays, `|`)
// on operands full of signed zeros, exact cancellations and zero products, compared BIT FOR BIT with the field formula of types.h
// evaluated by the harness on the promoted operands and with the same operator after an explicit promotion through the library
// (oracle key C03:promotion-value; the cases also go to the model as one-statement `prog` lines).
// Further CORR tags: `sc` (the cmplx_t scalar operators of types.h, incl. real-on-the-left forms),
// `zpad`, `concat` (utils.h), `mcplx mre mim mconj mcast` (lib/math.cpp).
#include "common.hpp"
#include <complex>
#include <memory>
#include <cfloat>
#include <climits>
#include <chrono>
using namespace dsplib;
typedef long double LD;
typedef std::complex<LD> CL;

static vh::Out out;
static uint64_t g_seed = 1;

enum { ADD = 0, SUB, MUL, DIV };
static const char* OPN[4] = {"add", "sub", "mul", "div"};

struct Sc {            // scalar operand: kind 0 real_t, 1 int, 2 cmplx_t, 3 std::complex<double>
    int kind = 0;
    double re = 0, im = 0;
    int iv = 0;
    bool cx() const { return kind >= 2; }
};
enum Tag { VAR, LIT, NEG, POS, AA, AS, SA, CAT, MASK, IDX };
struct Expr {
    Tag tag = VAR;
    int op = 0, k = 0;
    Sc s;
    std::vector<Expr> ch;
    std::vector<int> ints;        // mask bits / index list
    bool lcx = false;             // literal: kind
    std::vector<double> data;     // literal: values (re im pairs for complex)
};
enum STag { S_E, S_SET, S_COPY, S_CA, S_CS, S_CATA };
struct Stmt {
    STag tag = S_E;
    int op = 0, k = 0, j = 0;
    Sc s;
    Expr e;
};

// ------------------------------------------------------------------ token language
static std::string show(const Sc& s) {
    switch (s.kind) {
    case 0: return "r " + vh::hx(s.re);
    case 1: return "i " + std::to_string(s.iv);
    case 2: return "c " + vh::hx(s.re) + " " + vh::hx(s.im);
    default: return "z " + vh::hx(s.re) + " " + vh::hx(s.im);
    }
}
static void show(const Expr& e, std::string& o) {
    switch (e.tag) {
    case VAR: o += " v " + std::to_string(e.k); break;
    case LIT: {
        const size_t n = e.lcx ? e.data.size() / 2 : e.data.size();
        o += e.lcx ? " l C " : " l R ";
        o += std::to_string(n);
        for (double d : e.data) { o += " "; o += vh::hx(d); }
        break;
    }
    case NEG: o += " neg"; show(e.ch[0], o); break;
    case POS: o += " pos"; show(e.ch[0], o); break;
    case AA: o += std::string(" aa ") + OPN[e.op]; show(e.ch[0], o); show(e.ch[1], o); break;
    case AS: o += std::string(" as ") + OPN[e.op] + " " + show(e.s); show(e.ch[0], o); break;
    case SA: o += std::string(" sa ") + OPN[e.op] + " " + show(e.s); show(e.ch[0], o); break;
    case CAT: o += " cat"; show(e.ch[0], o); show(e.ch[1], o); break;
    case MASK: o += " mask " + std::to_string(e.ints.size()) + vh::join_ints(e.ints); show(e.ch[0], o); break;
    case IDX: o += " idx " + std::to_string(e.ints.size()) + vh::join_ints(e.ints); show(e.ch[0], o); break;
    }
}
static void show(const Stmt& s, std::string& o) {
    switch (s.tag) {
    case S_E: o += " E"; show(s.e, o); break;
    case S_SET: o += " SET " + std::to_string(s.k); show(s.e, o); break;
    case S_COPY: o += " COPY " + std::to_string(s.k) + " " + std::to_string(s.j); break;
    case S_CA: o += std::string(" CA ") + OPN[s.op] + " " + std::to_string(s.k); show(s.e, o); break;
    case S_CS: o += std::string(" CS ") + OPN[s.op] + " " + std::to_string(s.k) + " " + show(s.s); break;
    case S_CATA: o += " CATA " + std::to_string(s.k); show(s.e, o); break;
    }
}
static int depth(const Expr& e) {
    int d = 0;
    for (auto& c : e.ch) d = std::max(d, depth(c));
    return d + 1;
}

// ------------------------------------------------------------------ which overloads exist (compile)
static bool exists_as(bool acx, int skind, int op) { return !( !acx && skind == 3 && op != MUL); }      // arr_real op std::complex: only `*`
static bool exists_sa(bool acx, int skind, int op) { return !( !acx && skind == 3 && op != MUL); }      // std::complex op arr_real: only `*`
static bool exists_cs(bool acx, int skind) { return acx || skind < 2; }                                // arr_real op= complex scalar: rejected at compile time

// ------------------------------------------------------------------ ORACLE: scalar interpreter, complex<long double>
struct OV {
    bool cx = false;
    std::vector<CL> v;
    std::vector<LD> e;       // running error bound (modulus)
    std::vector<char> ok;    // element still inside the claimed magnitude range
    size_t size() const { return v.size(); }
    void push(const OV& a, size_t i, bool) { v.push_back(a.v[i]); e.push_back(a.e[i]); ok.push_back(a.ok[i]); }
};
struct OErr {};
static const LD E4 = 4 * (LD)DBL_EPSILON;
static bool inrange(const CL& a) {
    const LD m = std::abs(a);
    return m == 0 || (m >= 0.99e-100L && m <= 1.01e100L);
}
struct El { CL v; LD e; bool ok; };
static El obin(int op, const El& a, const El& b) {
    El r;
    r.ok = a.ok && b.ok && inrange(a.v) && inrange(b.v);
    const LD ma = std::abs(a.v), mb = std::abs(b.v);
    switch (op) {
    case ADD: r.v = a.v + b.v; r.e = a.e + b.e + E4 * (ma + mb); break;
    case SUB: r.v = a.v - b.v; r.e = a.e + b.e + E4 * (ma + mb); break;
    case MUL: r.v = a.v * b.v; r.e = ma * b.e + mb * a.e + a.e * b.e + E4 * ma * mb; break;
    default:
        if (mb == 0 || b.e >= mb / 2) { r.ok = false; r.v = CL(0); r.e = 0; }
        else {
            r.v = a.v / b.v;
            const LD q = std::abs(r.v), p = (a.e + q * b.e) / (mb - b.e);
            r.e = p + E4 * (q + p);
        }
    }
    return r;
}
static El el(const OV& a, size_t i) { return {a.v[i], a.e[i], (bool)a.ok[i]}; }
static El el(const Sc& s) { return {s.kind == 1 ? CL((LD)s.iv) : CL((LD)s.re, s.cx() ? (LD)s.im : 0.0L), 0, true}; }
static void put(OV& r, const El& x) { r.v.push_back(x.v); r.e.push_back(x.e); r.ok.push_back(x.ok); }

static OV o_aa(int op, const OV& a, const OV& b) {
    if (a.size() != b.size()) throw OErr{};
    OV r; r.cx = a.cx || b.cx;
    for (size_t i = 0; i < a.size(); ++i) put(r, obin(op, el(a, i), el(b, i)));
    return r;
}
static OV o_as(int op, const OV& a, const Sc& s) {
    OV r; r.cx = a.cx || s.cx();
    for (size_t i = 0; i < a.size(); ++i) put(r, obin(op, el(a, i), el(s)));
    return r;
}
static OV o_sa(int op, const Sc& s, const OV& a) {
    OV r; r.cx = a.cx || s.cx();
    for (size_t i = 0; i < a.size(); ++i) put(r, obin(op, el(s), el(a, i)));
    return r;
}
static OV o_cat(const OV& a, const OV& b) {
    OV r; r.cx = a.cx || b.cx;
    for (size_t i = 0; i < a.size(); ++i) r.push(a, i, true);
    for (size_t i = 0; i < b.size(); ++i) r.push(b, i, true);
    return r;
}
static OV oeval(const Expr& e, const std::vector<OV>& env) {
    switch (e.tag) {
    case VAR: return env[e.k];
    case LIT: {
        OV r; r.cx = e.lcx;
        const size_t n = e.lcx ? e.data.size() / 2 : e.data.size();
        for (size_t i = 0; i < n; ++i) put(r, {e.lcx ? CL(e.data[2 * i], e.data[2 * i + 1]) : CL(e.data[i]), 0, true});
        return r;
    }
    case NEG: { OV r = oeval(e.ch[0], env); for (auto& z : r.v) z = -z; return r; }
    case POS: return oeval(e.ch[0], env);
    case AA: { OV a = oeval(e.ch[0], env), b = oeval(e.ch[1], env); return o_aa(e.op, a, b); }
    case AS: return o_as(e.op, oeval(e.ch[0], env), e.s);
    case SA: return o_sa(e.op, e.s, oeval(e.ch[0], env));
    case CAT: { OV a = oeval(e.ch[0], env), b = oeval(e.ch[1], env); return o_cat(a, b); }
    case MASK: {
        OV a = oeval(e.ch[0], env);
        if (a.size() != e.ints.size()) throw OErr{};
        OV r; r.cx = a.cx;
        for (size_t i = 0; i < a.size(); ++i) if (e.ints[i]) r.push(a, i, true);
        return r;
    }
    default: {
        OV a = oeval(e.ch[0], env);
        for (int j : e.ints) if (j < 0 || j >= (int)a.size()) throw OErr{};
        OV r; r.cx = a.cx;
        for (int j : e.ints) r.push(a, j, true);
        return r;
    }
    }
}
// executes one statement with value semantics; throws OErr (environment untouched)
static OV oexec(const Stmt& s, std::vector<OV>& env) {
    switch (s.tag) {
    case S_E: return oeval(s.e, env);
    case S_SET: { OV v = oeval(s.e, env); env[s.k] = v; return v; }
    case S_COPY: { OV v = env[s.j]; env[s.k] = v; return v; }
    case S_CA: { OV b = oeval(s.e, env); OV v = o_aa(s.op, env[s.k], b); env[s.k] = v; return v; }
    case S_CS: { OV v = o_as(s.op, env[s.k], s.s); env[s.k] = v; return v; }
    default: { OV b = oeval(s.e, env); OV v = o_cat(env[s.k], b); env[s.k] = v; return v; }
    }
}

// ------------------------------------------------------------------ the REAL overloads
struct RV {   // runtime value: a reference to an environment variable (so aliasing is real) or an owned temporary
    bool cx = false;
    const arr_real* r = nullptr;
    const arr_cmplx* c = nullptr;
    std::shared_ptr<arr_real> ro;
    std::shared_ptr<arr_cmplx> co;
    bool mv = false;              // owned intermediate that is handed to the next overload as an RVALUE (std::move)
    bool owned() const { return ro || co; }
    int size() const { return cx ? c->size() : r->size(); }
};
static bool g_allow_mv = true;    // false: every operand is passed as a named lvalue (the step-by-step reference of the FORMS section)
static void mark(RV& v, vh::Rng& aux) { if (g_allow_mv && v.owned() && aux.coin()) v.mv = true; }
// calls f with the array of v in the value category chosen for it: `const arr&` (named operand) or `arr&&` (temporary)
template<class F> static RV disp(const RV& v, F&& f) {
    if (v.cx) { if (v.mv) return f(std::move(*v.co)); return f(static_cast<const arr_cmplx&>(*v.c)); }
    if (v.mv) return f(std::move(*v.ro));
    return f(static_cast<const arr_real&>(*v.r));
}
#define FWD(x) std::forward<decltype(x)>(x)
static RV own(arr_real a) { RV v; v.cx = false; v.ro = std::make_shared<arr_real>(std::move(a)); v.r = v.ro.get(); return v; }
static RV own(arr_cmplx a) { RV v; v.cx = true; v.co = std::make_shared<arr_cmplx>(std::move(a)); v.c = v.co.get(); return v; }
static RV refv(const arr_real& a) { RV v; v.cx = false; v.r = &a; return v; }
static RV refv(const arr_cmplx& a) { RV v; v.cx = true; v.c = &a; return v; }
static uint64_t bitsof(double d) { uint64_t u; std::memcpy(&u, &d, 8); return u; }
static std::vector<uint64_t> bits(const RV& v) {
    std::vector<uint64_t> b;
    if (v.cx) for (int i = 0; i < v.c->size(); ++i) { b.push_back(bitsof((*v.c)[i].re)); b.push_back(bitsof((*v.c)[i].im)); }
    else for (int i = 0; i < v.r->size(); ++i) b.push_back(bitsof((*v.r)[i]));
    return b;
}
static std::string showv(const RV& v) { return v.cx ? "C " + vh::hxs(*v.c) : "R " + vh::hxs(*v.r); }
// result values carry a sign-of-zero token (one char per component: + for +0, - for -0, . otherwise): check.py compares
// float tokens numerically, so -0 == +0 there; this token is compared as a string
static char zch(double d) { return d == 0 ? (std::signbit(d) ? '-' : '+') : '.'; }
static std::string showvz(const RV& v) {
    std::string z = " z:";
    if (v.cx) for (int i = 0; i < v.c->size(); ++i) { z += zch((*v.c)[i].re); z += zch((*v.c)[i].im); }
    else for (int i = 0; i < v.r->size(); ++i) z += zch((*v.r)[i]);
    return showv(v) + z;
}

struct Threw {};
static std::string g_ctx;   // json of the program in flight
static void fail(const std::string& key, const std::string& what) {
    out.fail(key, "{\"what\":\"" + what + "\"," + g_ctx + "}");
}

// every call of a library overload goes through here: operands are snapshotted and must be bit-identical afterwards
template<class F>
static RV guarded(const std::string& label, std::initializer_list<const RV*> operands, F f) {
    std::vector<std::vector<uint64_t>> snap;
    for (auto p : operands) snap.push_back(bits(*p));
    RV res;
    bool threw = false;
    try { res = f(); } catch (const std::exception&) { threw = true; }
    size_t i = 0;
    bool anymv = false;
    for (auto p : operands) {   // an operand given away as an rvalue may be consumed; named operands must be bit-identical
        if (p->mv) { anymv = true; ++i; continue; }
        if (bits(*p) != snap[i++]) fail(threw ? "C03:mismatch-modified" : "C03:operand-modified", label);
    }
    out.stat("ov_" + label);
    if (anymv) out.stat("rvalue_operand_calls");
    out.n_oracle++;
    if (threw) { out.stat("ovthrow_" + label); throw Threw{}; }
    return res;
}
static const char* KN(bool cx) { return cx ? "C" : "R"; }
static const char* SKN[4] = {"real", "int", "cmplx", "stdcomplex"};

// (operands arrive as `const arr&` or as `arr&&`, see disp: overloads taking temporaries are reached with real rvalues)
template<class A, class B> static RV do_aa(int op, A&& a, B&& b) {
    switch (op) { case ADD: return own(FWD(a) + FWD(b)); case SUB: return own(FWD(a) - FWD(b)); case MUL: return own(FWD(a) * FWD(b)); default: return own(FWD(a) / FWD(b)); }
}
static RV call_aa(int op, const RV& a, const RV& b) {
    return guarded(std::string("aa_") + KN(a.cx) + KN(b.cx) + "_" + OPN[op], {&a, &b}, [&]() -> RV {
        return disp(a, [&](auto&& x) -> RV { return disp(b, [&](auto&& y) -> RV { return do_aa(op, FWD(x), FWD(y)); }); });
    });
}
template<class A, class S> static RV do_as(int op, A&& a, const S& s) {
    if constexpr (std::is_same_v<std::decay_t<A>, arr_real> && std::is_same_v<S, std::complex<double>>) {
        if (op != MUL) std::abort();
        return own(FWD(a) * s);
    } else {
        switch (op) { case ADD: return own(FWD(a) + s); case SUB: return own(FWD(a) - s); case MUL: return own(FWD(a) * s); default: return own(FWD(a) / s); }
    }
}
template<class A> static RV do_as_k(int op, A&& a, const Sc& s) {
    switch (s.kind) {
    case 0: { const real_t x = s.re; return do_as(op, FWD(a), x); }
    case 1: { const int x = s.iv; return do_as(op, FWD(a), x); }
    case 2: { const cmplx_t x(s.re, s.im); return do_as(op, FWD(a), x); }
    default: { const std::complex<double> x(s.re, s.im); return do_as(op, FWD(a), x); }
    }
}
static RV call_as(int op, const RV& a, const Sc& s) {
    return guarded(std::string("as_") + KN(a.cx) + "_" + SKN[s.kind] + "_" + OPN[op], {&a}, [&]() -> RV {
        return disp(a, [&](auto&& x) -> RV { return do_as_k(op, FWD(x), s); });
    });
}
template<class S, class A> static RV do_sa(int op, const S& s, A&& a) {
    if constexpr (std::is_same_v<std::decay_t<A>, arr_real> && std::is_same_v<S, std::complex<double>>) {
        if (op != MUL) std::abort();
        return own(s * FWD(a));
    } else {
        switch (op) { case ADD: return own(s + FWD(a)); case SUB: return own(s - FWD(a)); case MUL: return own(s * FWD(a)); default: return own(s / FWD(a)); }
    }
}
template<class A> static RV do_sa_k(int op, const Sc& s, A&& a) {
    switch (s.kind) {
    case 0: { const real_t x = s.re; return do_sa(op, x, FWD(a)); }
    case 1: { const int x = s.iv; return do_sa(op, x, FWD(a)); }
    case 2: { const cmplx_t x(s.re, s.im); return do_sa(op, x, FWD(a)); }
    default: { const std::complex<double> x(s.re, s.im); return do_sa(op, x, FWD(a)); }
    }
}
static RV call_sa(int op, const Sc& s, const RV& a) {
    return guarded(std::string("sa_") + SKN[s.kind] + "_" + KN(a.cx) + "_" + OPN[op], {&a}, [&]() -> RV {
        return disp(a, [&](auto&& x) -> RV { return do_sa_k(op, s, FWD(x)); });
    });
}
static RV call_cat(const RV& a, const RV& b) {
    return guarded(std::string("cat_") + KN(a.cx) + KN(b.cx), {&a, &b}, [&]() -> RV {
        return disp(a, [&](auto&& x) -> RV { return disp(b, [&](auto&& y) -> RV { return own(FWD(x) | FWD(y)); }); });
    });
}
// (`-arr_cmplx` was ill-formed before /repo commit 34b0f59: `base_array<T> r{_vec}` selected the initializer_list constructor
// because cmplx_t is constructible from anything; repaired, so both element types go through the real operator-().)
static RV call_neg(const RV& a) {
    return guarded(std::string("neg_") + KN(a.cx), {&a}, [&]() -> RV { return disp(a, [&](auto&& x) -> RV { return own(-FWD(x)); }); });
}
static RV call_pos(const RV& a) {   // unary plus returns a reference to its operand: copied inside the same full expression
    return guarded(std::string("pos_") + KN(a.cx), {&a}, [&]() -> RV {
        return disp(a, [&](auto&& x) -> RV { return own(std::decay_t<decltype(x)>(+FWD(x))); });
    });
}
static RV call_mask(const RV& a, const std::vector<int>& m) {
    std::vector<bool> mb(m.size());
    for (size_t i = 0; i < m.size(); ++i) mb[i] = m[i] != 0;
    return guarded(std::string("mask_") + KN(a.cx), {&a}, [&]() -> RV { return disp(a, [&](auto&& x) -> RV { return own(FWD(x)[mb]); }); });
}
static RV call_idx(const RV& a, const std::vector<int>& idx, bool as_arr_int) {
    return guarded(std::string("idx_") + KN(a.cx) + (as_arr_int ? "_arrint" : "_vector"), {&a}, [&]() -> RV {
        if (as_arr_int) { const arr_int ai(idx); return disp(a, [&](auto&& x) -> RV { return own(FWD(x)[ai]); }); }
        return disp(a, [&](auto&& x) -> RV { return own(FWD(x)[idx]); });
    });
}

struct Var { bool cx = false; arr_real r; arr_cmplx c; };
static bool same_bits_rv(const RV& v, const std::vector<uint64_t>& b) { return bits(v) == b; }
static RV refvar(const Var& v) { return v.cx ? refv(v.c) : refv(v.r); }

static RV reval(const Expr& e, std::vector<Var>& env, vh::Rng& aux) {
    switch (e.tag) {
    case VAR: return refvar(env[e.k]);
    case LIT: {
        if (e.lcx) { arr_cmplx a(int(e.data.size() / 2)); for (int i = 0; i < a.size(); ++i) a[i] = cmplx_t(e.data[2 * i], e.data[2 * i + 1]); return own(std::move(a)); }
        arr_real a(int(e.data.size())); for (int i = 0; i < a.size(); ++i) a[i] = e.data[i]; return own(std::move(a));
    }
    // intermediates (owned results, literals) are handed on as rvalues half of the time: `a - (b * c)` reaches the overloads
    // with the value categories a C++ expression has; variables always stay named lvalues
    case NEG: { RV a = reval(e.ch[0], env, aux); mark(a, aux); return call_neg(a); }
    case POS: { RV a = reval(e.ch[0], env, aux); mark(a, aux); return call_pos(a); }
    case AA: { RV a = reval(e.ch[0], env, aux); RV b = reval(e.ch[1], env, aux); mark(a, aux); mark(b, aux); return call_aa(e.op, a, b); }
    case AS: { RV a = reval(e.ch[0], env, aux); mark(a, aux); return call_as(e.op, a, e.s); }
    case SA: { RV a = reval(e.ch[0], env, aux); mark(a, aux); return call_sa(e.op, e.s, a); }
    case CAT: { RV a = reval(e.ch[0], env, aux); RV b = reval(e.ch[1], env, aux); mark(a, aux); mark(b, aux); return call_cat(a, b); }
    case MASK: { RV a = reval(e.ch[0], env, aux); mark(a, aux); return call_mask(a, e.ints); }
    default: { RV a = reval(e.ch[0], env, aux); mark(a, aux); return call_idx(a, e.ints, aux.coin()); }
    }
}

template<class A, class B> static void do_ca(int op, A& a, B&& b) {
    switch (op) { case ADD: a += FWD(b); break; case SUB: a -= FWD(b); break; case MUL: a *= FWD(b); break; default: a /= FWD(b); }
}
template<class A> static void do_cs_k(int op, A& a, const Sc& s) {
    switch (s.kind) {
    case 0: { const real_t x = s.re; do_ca(op, a, x); break; }
    case 1: { const int x = s.iv; do_ca(op, a, x); break; }
    case 2: if constexpr (std::is_same_v<A, arr_cmplx>) { const cmplx_t x(s.re, s.im); do_ca(op, a, x); } else std::abort(); break;
    default: if constexpr (std::is_same_v<A, arr_cmplx>) { const std::complex<double> x(s.re, s.im); do_ca(op, a, x); } else std::abort(); break;
    }
}
// executes one statement on the real arrays; returns the statement's value; throws Threw if the library threw
static RV rexec(const Stmt& s, std::vector<Var>& env, vh::Rng& aux) {
    Var& t = env[s.k];
    switch (s.tag) {
    case S_E: return reval(s.e, env, aux);
    case S_SET: {
        RV v = reval(s.e, env, aux);
        const bool alias = (v.cx ? (const void*)v.c == (const void*)&t.c : (const void*)v.r == (const void*)&t.r);
        if (v.cx != t.cx) std::abort();
        if (v.ro || v.co) {   // temporary: move assignment
            out.stat(std::string("ov_assign_move_") + KN(t.cx));
            if (t.cx) t.c = std::move(*v.co); else t.r = std::move(*v.ro);
        } else {              // another variable (or itself): copy assignment
            out.stat(std::string(alias ? "ov_assign_self_" : "ov_assign_copy_") + KN(t.cx));
            if (t.cx) t.c = *v.c; else t.r = *v.r;
            if (!alias && t.cx && t.c.size() && t.c.data() == v.c->data()) fail("C03:copy-shares-storage", "assign");
            if (!alias && !t.cx && t.r.size() && t.r.data() == v.r->data()) fail("C03:copy-shares-storage", "assign");
        }
        return refvar(t);
    }
    case S_COPY: {            // copy constructor, then move assignment of the copy
        const Var& src = env[s.j];
        if (src.cx != t.cx) std::abort();
        out.stat(std::string("ov_copy_ctor_") + KN(t.cx));
        const RV sv = refvar(src);
        const auto snap = bits(sv);
        if (aux.coin()) {     // copies made by a container: std::vector<arr>(3, prototype)
            out.stat(std::string("ov_copy_vector_fill_") + KN(t.cx));
            if (t.cx) {
                std::vector<arr_cmplx> vv(3, src.c);
                if (vv[1].size() && (vv[1].data() == src.c.data() || vv[1].data() == vv[0].data() || vv[1].data() == vv[2].data())) fail("C03:copy-shares-storage", "vector(n, proto)");
                if (vv[0].size()) { vv[0][0] = cmplx_t(-777, -777); vv[2] *= 3.0; }   // the siblings are written, the one taken must not notice
                if (!same_bits_rv(refv(vv[1]), snap)) fail("C03:copy-shares-storage", "vector(n, proto) sibling written");
                t.c = std::move(vv[1]);
            } else {
                std::vector<arr_real> vv(3, src.r);
                if (vv[1].size() && (vv[1].data() == src.r.data() || vv[1].data() == vv[0].data() || vv[1].data() == vv[2].data())) fail("C03:copy-shares-storage", "vector(n, proto)");
                if (vv[0].size()) { vv[0][0] = -777; vv[2] *= 3.0; }
                if (!same_bits_rv(refv(vv[1]), snap)) fail("C03:copy-shares-storage", "vector(n, proto) sibling written");
                t.r = std::move(vv[1]);
            }
        } else if (t.cx) { arr_cmplx c(src.c); if (c.size() && c.data() == src.c.data()) fail("C03:copy-shares-storage", "ctor"); t.c = std::move(c); }
        else { arr_real c(src.r); if (c.size() && c.data() == src.r.data()) fail("C03:copy-shares-storage", "ctor"); t.r = std::move(c); }
        if (s.j != s.k && bits(refvar(src)) != snap) fail("C03:operand-modified", "copy_ctor");
        return refvar(t);
    }
    case S_CA: {
        RV b = reval(s.e, env, aux);
        mark(b, aux);
        const bool alias = (b.cx ? (const void*)b.c == (const void*)&t.c : (const void*)b.r == (const void*)&t.r);
        const RV tv = refvar(t);
        const std::string label = std::string("ca_") + KN(t.cx) + KN(b.cx) + "_" + OPN[s.op] + (alias ? "_alias" : "");
        const auto st = bits(tv), sb = bits(b);
        bool threw = false;
        try {
            if (!t.cx && b.cx) std::abort();
            disp(b, [&](auto&& y) -> RV { if (t.cx) do_ca(s.op, t.c, FWD(y)); else if constexpr (std::is_same_v<std::decay_t<decltype(y)>, arr_real>) do_ca(s.op, t.r, FWD(y)); return RV(); });
        } catch (const std::exception&) { threw = true; }
        out.stat("ov_" + label);
        if (b.mv) out.stat("rvalue_operand_calls");
        out.n_oracle++;
        if (!alias && !b.mv && bits(b) != sb) fail(threw ? "C03:mismatch-modified" : "C03:operand-modified", label);
        if (threw) {
            out.stat("ovthrow_" + label);
            if (bits(refvar(t)) != st) fail("C03:mismatch-modified", label);
            throw Threw{};
        }
        return refvar(t);
    }
    case S_CS: {
        const std::string label = std::string("cs_") + KN(t.cx) + "_" + SKN[s.s.kind] + "_" + OPN[s.op];
        out.stat("ov_" + label);
        out.n_oracle++;
        if (t.cx) do_cs_k(s.op, t.c, s.s); else do_cs_k(s.op, t.r, s.s);
        return refvar(t);
    }
    default: {
        RV b = reval(s.e, env, aux);
        mark(b, aux);
        const bool alias = (b.cx ? (const void*)b.c == (const void*)&t.c : (const void*)b.r == (const void*)&t.r);
        const std::string label = std::string("cata_") + KN(t.cx) + KN(b.cx) + (alias ? "_alias" : "");
        const auto sb = bits(b);
        out.stat("ov_" + label);
        if (b.mv) out.stat("rvalue_operand_calls");
        out.n_oracle++;
        if (!t.cx && b.cx) std::abort();
        disp(b, [&](auto&& y) -> RV { if (t.cx) t.c |= FWD(y); else if constexpr (std::is_same_v<std::decay_t<decltype(y)>, arr_real>) t.r |= FWD(y); return RV(); });
        if (!alias && !b.mv && bits(b) != sb) fail("C03:operand-modified", label);
        return refvar(t);
    }
    }
}

// ------------------------------------------------------------------ comparison implementation vs oracle
static long long g_claimed = 0, g_unclaimed = 0;
static LD g_worst = 0;   // max observed |impl-ref| / bound over claimed elements with a non-zero bound
static bool compare(const RV& got, const OV& want, const std::string& where) {
    if (got.cx != want.cx) { fail("C03:result-kind", where); return false; }
    if ((size_t)got.size() != want.size()) { fail("C03:result-length", where + " got " + std::to_string(got.size()) + " want " + std::to_string(want.size())); return false; }
    for (size_t i = 0; i < want.size(); ++i) {
        if (!want.ok[i]) { ++g_unclaimed; continue; }
        ++g_claimed;
        const CL g = got.cx ? CL((*got.c)[int(i)].re, (*got.c)[int(i)].im) : CL((*got.r)[int(i)], 0);
        const LD d = std::abs(g - want.v[i]);
        const LD tol = want.e[i] + 1e-18L * std::abs(want.v[i]);
        if (!(d <= tol)) {
            char b[256];
            std::snprintf(b, sizeof b, "%s elem %zu got (%.17g,%.17g) want (%.21Lg,%.21Lg) bound %.3Lg", where.c_str(), i, (double)g.real(), (double)g.imag(),
                          want.v[i].real(), want.v[i].imag(), tol);
            fail("C03:value", b);
            return false;
        }
        if (want.e[i] > 0 && d / want.e[i] > g_worst) g_worst = d / want.e[i];
    }
    return true;
}

// ------------------------------------------------------------------ generator
struct Gen {
    vh::Rng& rng;
    int mode = 0;                 // 0 moderate magnitudes, 1 wide (1e-100 .. 1e100)
    std::vector<bool> vcx;        // kinds of the variables
    std::vector<int> vlen;        // current lengths
    bool broke = false;           // a deliberate length/index violation was planted

    double value() {
        const int c = int(rng.next() % 100);
        if (c < 7) return 0.0;
        if (c < 12) return -0.0;
        if (c < 16) return rng.coin() ? 1.0 : -1.0;
        if (c < 21) return double(rng.range(-9, 9));
        if (mode == 0) {
            if (c < 24) return (rng.coin() ? 1 : -1) * std::ldexp(1.0, rng.range(-12, 12));   // exact powers of two
            return rng.gauss() * std::pow(10.0, rng.range(-3, 3));
        }
        if (c < 26) return (rng.coin() ? 1 : -1) * 1e100;
        if (c < 31) return (rng.coin() ? 1 : -1) * 1e-100;
        if (c < 34) return (rng.coin() ? 1 : -1) * std::ldexp(1.0, rng.range(-332, 332));     // exact powers of two over the whole claimed range
        if (c < 36) {   // absolute scale classes; the ones beyond 1e-100..1e100 (denormals included) are outside the oracle's claim, CORR still compares them bit for bit
            static const double S[] = {1e-300, 1e-17, 1e-8, 1e8, 1e17, 1e300, 4.9406564584124654e-324, 1.1125369292536007e-308, 2.2250738585072014e-308, 1.7976931348623157e308};
            return (rng.coin() ? 1 : -1) * S[rng.next() % 10];
        }
        return (rng.coin() ? 1 : -1) * (1 + 8.9 * rng.unit()) * std::pow(10.0, rng.range(-100, 99));
    }
    Sc scalar(bool allow_cx) {
        Sc s;
        const int c = int(rng.next() % 100);
        s.kind = !allow_cx ? (c < 60 ? 0 : 1) : (c < 30 ? 0 : c < 50 ? 1 : c < 85 ? 2 : 3);
        s.re = value(); s.im = value();
        if (s.kind < 2) s.im = 0;
        s.iv = (rng.next() % 8 == 0) ? (rng.coin() ? INT_MAX : -1000003) : rng.range(-6, 6);
        return s;
    }
    Expr literal(int n, bool cx) {
        Expr e; e.tag = LIT; e.lcx = cx;
        e.data.resize(cx ? 2 * n : n);
        for (auto& d : e.data) d = value();
        return e;
    }
    bool kindOf(const Expr& e) const {
        switch (e.tag) {
        case VAR: return vcx[e.k];
        case LIT: return e.lcx;
        case AA: case CAT: return kindOf(e.ch[0]) || kindOf(e.ch[1]);
        case AS: case SA: return kindOf(e.ch[0]) || e.s.cx();
        default: return kindOf(e.ch[0]);
        }
    }
    int other_len(int L) {
        switch (rng.next() % 5) {
        case 0: return L + 1;
        case 1: return L > 0 ? L - 1 : 2;
        case 2: return L == 0 ? 1 : 0;
        case 3: return L == 1 ? 3 : 1;
        default: { int x = rng.range(0, 2 * L + 3); return x == L ? L + 2 : x; }
        }
    }
    Expr leaf(int L, bool realOnly) {
        std::vector<int> cand;
        for (size_t k = 0; k < vcx.size(); ++k) if (vlen[k] == L && !(realOnly && vcx[k])) cand.push_back(int(k));
        if (!cand.empty() && (rng.next() % 100 < 80 || L > 200)) { Expr e; e.tag = VAR; e.k = cand[rng.next() % cand.size()]; return e; }
        return literal(L, realOnly ? false : rng.coin());
    }
    // an expression of static length L (unless a violation is planted) and nesting depth <= d
    Expr gen(int d, int L, bool realOnly, int breakPct) {
        if (d <= 1) return leaf(L, realOnly);
        const int c = int(rng.next() % 100);
        Expr e;
        auto sub = [&](int Lc) { return gen(d - 1, Lc, realOnly, breakPct); };
        auto subAny = [&](int Lc) { return gen(rng.range(1, d - 1), Lc, realOnly, breakPct); };
        if (c < 36) {
            e.tag = AA; e.op = int(rng.next() % 4);
            int Lb = L;
            if (int(rng.next() % 100) < breakPct) { Lb = other_len(L); broke = true; }
            Expr a = sub(L), b = subAny(Lb);
            if (rng.coin()) std::swap(a, b);
            e.ch = {a, b};
        } else if (c < 52) {
            e.tag = AS; e.op = int(rng.next() % 4); e.ch = {sub(L)};
            do { e.s = scalar(!realOnly); } while (!exists_as(kindOf(e.ch[0]), e.s.kind, e.op));
        } else if (c < 68) {
            e.tag = SA; e.op = int(rng.next() % 4); e.ch = {sub(L)};
            do { e.s = scalar(!realOnly); } while (!exists_sa(kindOf(e.ch[0]), e.s.kind, e.op));
        } else if (c < 74) { e.tag = NEG; e.ch = {sub(L)}; }
        else if (c < 76) { e.tag = POS; e.ch = {sub(L)}; }
        else if (c < 85) {
            e.tag = CAT;
            const int L1 = rng.range(0, L);
            Expr a = sub(L1), b = subAny(L - L1);
            e.ch = {a, b};
        } else if (c < 92) {
            e.tag = MASK;
            const int m = L + rng.range(0, std::min(L + 2, 8));
            e.ints.assign(m, 0);
            // exactly L ones at random positions (partial Fisher-Yates)
            std::vector<int> pos(m);
            for (int i = 0; i < m; ++i) pos[i] = i;
            for (int i = 0; i < L; ++i) { const int j = i + int(rng.next() % uint64_t(m - i)); std::swap(pos[i], pos[j]); e.ints[pos[i]] = 1; }
            int mc = m;
            if (int(rng.next() % 100) < breakPct) { mc = rng.coin() ? m + 1 : (m > 0 ? m - 1 : 1); broke = true; }
            e.ch = {sub(mc)};
        } else if (c < 99) {
            e.tag = IDX;
            const int m = (L == 0) ? rng.range(0, 3) : rng.range(1, L + 3);
            e.ints.resize(L);
            for (auto& j : e.ints) j = m > 0 ? int(rng.next() % uint64_t(m)) : 0;
            if (L > 0 && rng.coin()) { e.ints[0] = rng.coin() ? 0 : m - 1; e.ints[L - 1] = rng.coin() ? m - 1 : 0; }   // boundaries
            if (L > 0 && int(rng.next() % 100) < breakPct) {
                const int w = int(rng.next() % uint64_t(L));
                const int bad[6] = {m, -1, m + 5, -m - 1, INT_MAX, INT_MIN};
                e.ints[w] = bad[rng.next() % 6];
                broke = true;
            }
            e.ch = {sub(m)};
        } else return leaf(L, realOnly);
        return e;
    }
};

struct Program {
    std::vector<Var> vars;
    std::vector<Stmt> stmts;
};

static void run_program(vh::Rng& rng, int L, int mode, int maxDepth, int maxStmts, bool emit_corr, long long pindex) {
    Gen g{rng};
    g.mode = mode;
    const int nv = rng.range(2, 4);
    std::vector<Var> env(nv);
    std::vector<OV> oenv(nv);
    std::string lhs = "prog " + std::to_string(nv);
    for (int k = 0; k < nv; ++k) {
        const bool cx = (k == 0) ? false : (k == 1) ? true : rng.coin();
        const int n = (int(rng.next() % 100) < 80) ? L : g.other_len(L);
        g.vcx.push_back(cx); g.vlen.push_back(n);
        env[k].cx = cx; oenv[k].cx = cx;
        if (cx) { env[k].c = arr_cmplx(n); for (int i = 0; i < n; ++i) { env[k].c[i] = cmplx_t(g.value(), g.value()); oenv[k].v.push_back(CL(env[k].c[i].re, env[k].c[i].im)); } }
        else { env[k].r = arr_real(n); for (int i = 0; i < n; ++i) { env[k].r[i] = g.value(); oenv[k].v.push_back(CL(env[k].r[i])); } }
        oenv[k].e.assign(n, 0); oenv[k].ok.assign(n, 1);
        lhs += " " + showv(refvar(env[k]));
    }
    const int ns = rng.range(1, maxStmts);
    std::string body, rhs;
    char ctx[200];
    std::snprintf(ctx, sizeof ctx, "\"seed\":%llu,\"program\":%lld,\"L\":%d,\"mode\":%d", (unsigned long long)g_seed, pindex, L, mode);
    vh::Rng aux(rng.next());
    for (int si = 0; si < ns; ++si) {
        Stmt s;
        g.broke = false;
        const int c = int(rng.next() % 100);
        const int d = rng.range(1, (c >= 52) ? maxDepth - 1 : maxDepth);   // compound forms add one level
        const int breakPct = (rng.next() % 100 < 25) ? 12 : 0;   // a quarter of the statements may plant a violation
        s.k = rng.range(0, nv - 1);
        if (c < 28) { s.tag = S_E; s.e = g.gen(d, (rng.next() % 4) ? L : g.vlen[s.k], false, breakPct); }
        else if (c < 46) {
            s.tag = S_SET; s.e = g.gen(d, (rng.next() % 4) ? L : g.other_len(L), !g.vcx[s.k], breakPct);
            if (g.kindOf(s.e) != g.vcx[s.k]) {   // complex variable, expression came out real: pick a real variable
                std::vector<int> cand; for (int k = 0; k < nv; ++k) if (!g.vcx[k]) cand.push_back(k);
                if (cand.empty()) s.tag = S_E; else s.k = cand[rng.next() % cand.size()];
            }
        } else if (c < 52) {
            s.tag = S_COPY; std::vector<int> cand; for (int k = 0; k < nv; ++k) if (g.vcx[k] == g.vcx[s.k]) cand.push_back(k);
            s.j = cand[rng.next() % cand.size()];
        } else if (c < 70) {
            s.tag = S_CA; s.op = int(rng.next() % 4);
            int Lr = g.vlen[s.k];
            if (rng.next() % 100 < 6) { Lr = g.other_len(Lr); g.broke = true; }
            s.e = g.gen(d, Lr, !g.vcx[s.k], breakPct);
        } else if (c < 78) {   // aliasing: a op= a, also through an expression mentioning a
            s.tag = S_CA; s.op = int(rng.next() % 4);
            if (rng.coin()) { s.e.tag = VAR; s.e.k = s.k; }
            else { Expr v; v.tag = VAR; v.k = s.k; s.e.tag = AA; s.e.op = int(rng.next() % 4); s.e.ch = {v, v}; }
        } else if (c < 88) {
            s.tag = S_CS; s.op = int(rng.next() % 4);
            do { s.s = g.scalar(g.vcx[s.k]); } while (!exists_cs(g.vcx[s.k], s.s.kind));
        } else if (c < 95) { s.tag = S_CATA; s.e = g.gen(d, rng.range(0, L + 2), !g.vcx[s.k], breakPct); }
        else { s.tag = S_CATA; s.e.tag = VAR; s.e.k = s.k; }   // a |= a
        show(s, body);
        out.stat("depth_" + std::to_string(s.tag == S_COPY || s.tag == S_CS ? 1 : depth(s.e) + (s.tag == S_E || s.tag == S_SET ? 0 : 1)));
        // ---- oracle (value semantics)
        bool oerr = false;
        OV want;
        std::vector<OV> oenv_before = oenv;
        try { want = oexec(s, oenv); } catch (const OErr&) { oerr = true; oenv = oenv_before; }
        // ---- the real overloads
        std::string js = std::string("{") + ctx + ",\"stmt\":" + std::to_string(si) + ",\"text\":\"" + (lhs.size() + body.size() < 3000 ? lhs + " " + std::to_string(ns) + body : std::string("(long)")) + "\"}";
        vh::set_current("C03:crash", js);
        g_ctx = std::string(ctx) + ",\"stmt\":" + std::to_string(si) + ",\"text\":\"" + (lhs.size() + body.size() < 3000 ? lhs + " ..." + body : std::string("(long)")) + "\"";
        std::vector<std::vector<uint64_t>> before;
        for (int k = 0; k < nv; ++k) before.push_back(bits(refvar(env[k])));
        bool threw = false;
        RV got;
        vh::watch(60);
        try { got = rexec(s, env, aux); } catch (const Threw&) { threw = true; }
        vh::unwatch();
        vh::clear_current();
        const std::string where = "stmt " + std::to_string(si);
        if (threw && !oerr) fail("C03:throws-valid", where);
        if (!threw && oerr) fail("C03:mismatch-accepted", where);
        out.stat(oerr ? "stmt_err" : "stmt_ok");
        if (oerr && !g.broke) out.stat("stmt_err_unplanned");
        if (!threw && !oerr) compare(got, want, where);
        rhs += threw ? " ERR" : " " + showvz(got);
        // environment: bystanders bit-identical, a failed statement changes nothing, target = oracle's
        const bool mutating = (s.tag != S_E) && !threw;
        for (int k = 0; k < nv; ++k) {
            const bool same = bits(refvar(env[k])) == before[k];
            if ((!mutating || k != s.k) && !same) fail(threw ? "C03:mismatch-modified" : "C03:bystander-modified", where + " var " + std::to_string(k));
            if (!threw && !oerr) compare(refvar(env[k]), oenv[k], where + " env var " + std::to_string(k));
        }
        if (!threw) for (int k = 0; k < nv; ++k) g.vlen[k] = refvar(env[k]).size();
    }
    rhs += " ENV";
    for (int k = 0; k < nv; ++k) rhs += " " + showvz(refvar(env[k]));
    if (emit_corr) {
        out.corr(lhs + " " + std::to_string(ns) + body, rhs.substr(1));
        if (L <= 6 && mode == 0) out.sample("{\"program\":\"" + lhs + " " + std::to_string(ns) + body + "\",\"result\":\"" + rhs.substr(1) + "\"}");
    }
    out.stat(mode ? "programs_wide" : "programs_moderate");
    out.stat(L <= 64 ? "programs_len_0_64" : L <= 10000 ? "programs_len_65_10000" : "programs_len_65536_196700");
}

// ------------------------------------------------------------------ compiled expression FORMS with C++ temporaries
// The random programs above reach the overloads through an interpreter. Here every expression is a piece of COMPILED C++ whose
// intermediates are genuine temporaries (prvalues of nested operator calls, `tmp(x)` = a prvalue copy of a named operand), for
// every operator with the temporary on the left, on the right and on both sides, nested two and three deep, scalar on either side
// of a temporary, unary minus, concatenation and selection of temporaries, compound forms with a temporary right operand.
// The SAME source text is instantiated twice: with the real arrays, and with `Sym` operands whose operators record the expression
// tree. The tree is evaluated (1) step by step through NAMED arrays (lvalue overloads only, g_allow_mv = false), (2) by the
// long double oracle, (3) by the Lean model through the CORR tag `form`. The compiled expression must agree with (1) BIT FOR BIT
// (sign of zero included; NaN = NaN) in every consumption idiom of a prvalue: copy-initialisation, `const auto&`, `auto&&`,
// range-for, by-const-reference argument of a function that allocates and computes before it reads, reference member of an
// aggregate, `decltype(auto)`-style return. Between binding and reading, arrays of the same size are allocated, filled and
// sent through library operators, so a result that does not own its storage shows up as a changed value (and as an ASan report).
// (~1200 instantiated probe functions: not optimised, otherwise the sanitizer build of this file takes a quarter of an hour; the
// library's operator templates they call are defined in array.h and are compiled as usual)
#ifdef __clang__
#pragma clang optimize off
#endif
struct Aux { std::vector<bool> m, md; std::vector<int> ix, ibad; arr_int ia; };
template<class X> static X tmp(const X& x) { return x; }   // prvalue copy of a named operand

struct Sym {
    Expr e;
    Sym operator[](const std::vector<bool>& m) const { Sym r; r.e.tag = MASK; for (bool b : m) r.e.ints.push_back(b ? 1 : 0); r.e.ch = {e}; return r; }
    Sym operator[](const std::vector<int>& ix) const { Sym r; r.e.tag = IDX; r.e.ints = ix; r.e.ch = {e}; return r; }
    Sym operator[](const arr_int& ia) const { Sym r; r.e.tag = IDX; for (int i = 0; i < ia.size(); ++i) r.e.ints.push_back(ia[i]); r.e.ch = {e}; return r; }
};
static Sym symvar(int k) { Sym s; s.e.tag = VAR; s.e.k = k; return s; }
static Sc mksc(real_t x) { Sc s; s.kind = 0; s.re = x; return s; }
static Sc mksc(int x) { Sc s; s.kind = 1; s.iv = x; s.re = x; return s; }
static Sc mksc(const cmplx_t& z) { Sc s; s.kind = 2; s.re = z.re; s.im = z.im; return s; }
static Sc mksc(const std::complex<double>& z) { Sc s; s.kind = 3; s.re = z.real(); s.im = z.imag(); return s; }
template<class S> constexpr bool is_sck = std::is_same_v<S, real_t> || std::is_same_v<S, int> || std::is_same_v<S, cmplx_t> || std::is_same_v<S, std::complex<double>>;
static Sym sym_aa(int op, const Sym& a, const Sym& b) { Sym r; r.e.tag = AA; r.e.op = op; r.e.ch = {a.e, b.e}; return r; }
static Sym sym_as(int op, const Sym& a, const Sc& s) { Sym r; r.e.tag = AS; r.e.op = op; r.e.s = s; r.e.ch = {a.e}; return r; }
static Sym sym_sa(int op, const Sc& s, const Sym& a) { Sym r; r.e.tag = SA; r.e.op = op; r.e.s = s; r.e.ch = {a.e}; return r; }
#define SYM_OPS(OPSYM, OPC) \
    [[maybe_unused]] static Sym operator OPSYM(const Sym& a, const Sym& b) { return sym_aa(OPC, a, b); } \
    template<class S, class = std::enable_if_t<is_sck<S>>> static Sym operator OPSYM(const Sym& a, const S& s) { return sym_as(OPC, a, mksc(s)); } \
    template<class S, class = std::enable_if_t<is_sck<S>>> static Sym operator OPSYM(const S& s, const Sym& a) { return sym_sa(OPC, mksc(s), a); }
SYM_OPS(+, ADD) SYM_OPS(-, SUB) SYM_OPS(*, MUL) SYM_OPS(/, DIV)
[[maybe_unused]] static Sym operator-(const Sym& a) { Sym r; r.e.tag = NEG; r.e.ch = {a.e}; return r; }
[[maybe_unused]] static Sym operator+(const Sym& a) { Sym r; r.e.tag = POS; r.e.ch = {a.e}; return r; }
[[maybe_unused]] static Sym operator|(const Sym& a, const Sym& b) { Sym r; r.e.tag = CAT; r.e.ch = {a.e, b.e}; return r; }

static bool same_word(uint64_t a, uint64_t b) {
    if (a == b) return true;
    double x, y; std::memcpy(&x, &a, 8); std::memcpy(&y, &b, 8);
    return std::isnan(x) && std::isnan(y);
}
static std::string jbits(const RV& v, size_t cap = 8) {
    std::string s = v.cx ? "{\"kind\":\"C\",\"v\":[" : "{\"kind\":\"R\",\"v\":[";
    const auto b = bits(v);
    for (size_t i = 0; i < b.size() && i < cap * (v.cx ? 2 : 1); ++i) { double d; std::memcpy(&d, &b[i], 8); if (i) s += ","; s += "\"" + vh::jnum(d) + (d == 0 && std::signbit(d) && vh::jnum(d)[0] != '-' ? "(-0)" : "") + "\""; }
    return s + "]}";
}

template<class RT> struct Holder { const RT& r; };

struct Probe {
    std::string form, text, kinds, probe, operands_json;
    int L = 0;
    long long index = 0;
    bool ref_threw = false, ref_cx = false;
    std::vector<uint64_t> ref;              // the step-by-step result through named arrays (bits)
    int ref_n = 0;                          // its element count
    std::vector<RV> ops;                    // the named operands of the compiled expression
    std::vector<std::vector<uint64_t>> snap;
    std::vector<arr_real> junk_r;
    std::vector<arr_cmplx> junk_c;
    std::vector<uint64_t> rf;
    bool have_direct = false, direct_threw = false;
    std::string direct_txt;                 // showvz of the copy-initialised result (impl side of the CORR line)
    std::vector<uint64_t> direct;           // its bits: the baseline of the lifetime idioms (a wrong VALUE is reported once, by "value")
    bool isvalue() const { return probe == "value" || probe == "compound"; }
    bool vs_direct() const { return !isvalue() && have_direct && !direct_threw; }
    const std::vector<uint64_t>& base() const { return vs_direct() ? direct : ref; }
    const char* basename() const { return vs_direct() ? "the copy-initialised result of the same expression" : "step by step through named arrays"; }
    std::shared_ptr<arr_real> keep_r;       // compound forms: final value of the target
    std::shared_ptr<arr_cmplx> keep_c;
    bool active = false;

    std::string json(const std::string& what) const {
        return "{\"what\":\"" + what + "\",\"form\":\"" + form + "\",\"expr\":\"" + text + "\",\"kinds\":\"" + kinds + "\",\"probe\":\"" + probe + "\",\"L\":" + std::to_string(L) +
               ",\"seed\":" + std::to_string((unsigned long long)g_seed) + ",\"index\":" + std::to_string(index) + operands_json + "}";
    }
    void failp(const std::string& key, const std::string& what) { out.fail(key, json(what)); out.stat("form_failures"); }
    const char* lifekey() const { return isvalue() ? "C03:temporary-value" : "C03:temporary-lifetime"; }
    void begin(const char* p) {
        end();
        probe = p;
        active = true;
        vh::set_current(lifekey(), json("crash / sanitizer report / hang while this idiom consumed the expression"));
        vh::watch(60);
        out.stat(std::string("probe_") + p);
    }
    void end() {
        if (!active) return;
        active = false;
        vh::unwatch();
        vh::clear_current();
        junk_r.clear(); junk_c.clear();
        for (size_t i = 0; i < ops.size(); ++i) if (bits(ops[i]) != snap[i]) failp(ref_threw ? "C03:mismatch-modified" : "C03:operand-modified", "named operand " + std::to_string(i) + " changed");
    }
    // unrelated work of the program between binding a result and reading it
    void churn() {
        const int n = ref_n;
        for (int k = 0; k < 3; ++k) {
            arr_real x(n); for (auto& v : x) v = -777.0 - k;
            arr_cmplx z(n); for (auto& v : z) v = cmplx_t(-888.0 - k, -999.0);
            junk_r.push_back(std::move(x)); junk_c.push_back(std::move(z));
        }
        junk_r.push_back(2.0 * (junk_r[0] + junk_r[1]));
        junk_r.push_back(junk_r[0] - (junk_r[1] * junk_r[2]));
        junk_r.push_back((-junk_r[0]) | (junk_r[1] / 3));
        junk_c.push_back(cmplx_t(0, 1) * (junk_c[0] - junk_c[1]));
        junk_c.push_back(junk_c[0] - (junk_c[1] * junk_r[2]));
        junk_c.push_back((-junk_c[2]) | (2 * junk_c[1]));
    }
    void threw() {
        out.n_oracle++;
        if (isvalue()) { have_direct = true; direct_threw = true; }
        if (!ref_threw) failp("C03:throws-valid", "the compiled expression threw, the step-by-step evaluation through named arrays did not");
    }
    void cmp(const RV& v, const std::string& how) {
        out.n_oracle++;
        if (ref_threw) { failp("C03:mismatch-accepted", how + ": accepted, the step-by-step evaluation through named arrays threw"); return; }
        if (v.cx != ref_cx) { failp("C03:result-kind", how); return; }
        const auto b = bits(v);
        const auto& rb = base();
        if (b.size() != rb.size()) { failp(lifekey(), how + ": length " + std::to_string(v.size()) + ", " + basename() + " " + std::to_string(rb.size() / (v.cx ? 2 : 1))); return; }
        for (size_t i = 0; i < b.size(); ++i)
            if (!same_word(b[i], rb[i])) {
                double g, w; std::memcpy(&g, &b[i], 8); std::memcpy(&w, &rb[i], 8);
                char buf[400];
                std::snprintf(buf, sizeof buf, "%s: component %zu (element %zu) is %.17g [%016llx], %s: %.17g [%016llx]", how.c_str(), i, v.cx ? i / 2 : i, g,
                              (unsigned long long)b[i], basename(), w, (unsigned long long)rb[i]);
                failp(lifekey(), buf);
                return;
            }
    }
    template<class R> void got(const R& r) {
        const RV v = refv(r);
        cmp(v, "result");
        if (isvalue() && !have_direct) { direct_txt = showvz(v); direct = bits(v); have_direct = true; }
    }
    template<class R> void got2(const R& r, const R& r2) {
        cmp(refv(r), "first of two live results");
        cmp(refv(r2), "second of two live results");
        if (r.size() && r.data() == r2.data()) failp("C03:temporary-lifetime", "two live results of the same expression share storage");
    }
    template<class R> void sink(const R& r) { churn(); got(r); }
    void rf_elem(const real_t& v) { rf.push_back(bitsof(v)); }
    void rf_elem(const cmplx_t& v) { rf.push_back(bitsof(v.re)); rf.push_back(bitsof(v.im)); }
    void rf_done(bool cx) {
        out.n_oracle++;
        if (ref_threw) { failp("C03:mismatch-accepted", "range-for accepted"); return; }
        if (cx != ref_cx) { failp("C03:result-kind", "range-for"); return; }
        const auto& rb = base();
        if (rf.size() != rb.size()) { failp("C03:temporary-lifetime", "range-for visited " + std::to_string(rf.size() / (cx ? 2 : 1)) + " elements, " + basename() + " has " + std::to_string(rb.size() / (cx ? 2 : 1))); return; }
        for (size_t i = 0; i < rf.size(); ++i)
            if (!same_word(rf[i], rb[i])) {
                double g, w; std::memcpy(&g, &rf[i], 8); std::memcpy(&w, &rb[i], 8);
                char buf[400];
                std::snprintf(buf, sizeof buf, "range-for: component %zu is %.17g [%016llx], %s: %.17g [%016llx]", i, g, (unsigned long long)rf[i], basename(), w, (unsigned long long)rb[i]);
                failp("C03:temporary-lifetime", buf);
                return;
            }
    }
    template<class A> void unchanged(const A& a, const A& a0) {
        if (bits(refv(a)) != bits(refv(a0))) failp("C03:mismatch-modified", "target of the rejected compound form changed");
    }
    void keep(const arr_real& a) { keep_r = std::make_shared<arr_real>(a); }
    void keep(const arr_cmplx& a) { keep_c = std::make_shared<arr_cmplx>(a); }
    void static_ref(bool is_ref) {
        out.n_oracle++;
        if (is_ref) failp("C03:result-not-owned", "the operator expression is not a prvalue: its type is a reference, the result does not own its storage");
    }
};

// one form: `ev` (SFINAE-friendly; also builds the tree with Sym operands and is the decltype(auto)-style return probe) + the probes.
// FORM: every consumption idiom. FORML ("light", for the deeper / derived forms whose top-level operators repeat those of the
// FORM ones): copy-initialisation, const auto& and range-for. ARITY = number of array operands used (a | a,b | a,b,c): selects the
// operand-kind combinations that are instantiated.
#define FORM_HEAD(NAME, ARITY, EXPR) \
        static constexpr int stag = S_E, opc = 0, arity = ARITY; \
        static const char* name() { return #NAME; } \
        static const char* text() { return #EXPR; } \
        template<class A, class B, class C, class D, class S> \
        static auto ev(const A& a, const B& b, const C& c, const D& d, const S& s, const Aux& q) -> decltype(EXPR) { (void)a; (void)b; (void)c; (void)d; (void)s; (void)q; return EXPR; } \
        template<class RT, class A> static constexpr bool kind_ok() { return true; }
#define FORM(NAME, ARITY, EXPR) \
    struct F_##NAME { \
        FORM_HEAD(NAME, ARITY, EXPR) \
        template<class A, class B, class C, class D, class S> \
        static void probes(const A& a, const B& b, const C& c, const D& d, const S& s, const Aux& q, Probe& P) { \
            (void)a; (void)b; (void)c; (void)d; (void)s; (void)q; \
            typedef std::decay_t<decltype(EXPR)> RT; \
            try { \
                P.begin("value"); P.static_ref(std::is_reference_v<decltype(EXPR)>); { RT r = EXPR; P.got(r); } \
                P.begin("constref"); { const auto& r = EXPR; P.churn(); P.got(r); const auto& r2 = EXPR; P.churn(); P.got2(r, r2); } \
                P.begin("autorr"); { auto&& r = EXPR; P.churn(); P.got(r); } \
                P.begin("rangefor"); { P.rf.clear(); size_t k = 0; for (const auto& v : EXPR) { if (k++ == 0) P.churn(); P.rf_elem(v); } P.rf_done(std::is_same_v<RT, arr_cmplx>); } \
                P.begin("sink"); P.sink(EXPR); \
                P.begin("member"); { const Holder<RT> h{EXPR}; P.churn(); P.got(h.r); } \
                P.begin("return"); { auto&& r = ev(a, b, c, d, s, q); P.churn(); P.got(r); } \
            } catch (const std::exception&) { P.threw(); } \
            P.end(); \
        } \
    };
#define FORML(NAME, ARITY, EXPR) \
    struct F_##NAME { \
        FORM_HEAD(NAME, ARITY, EXPR) \
        template<class A, class B, class C, class D, class S> \
        static void probes(const A& a, const B& b, const C& c, const D& d, const S& s, const Aux& q, Probe& P) { \
            (void)a; (void)b; (void)c; (void)d; (void)s; (void)q; \
            typedef std::decay_t<decltype(EXPR)> RT; \
            try { \
                P.begin("value"); P.static_ref(std::is_reference_v<decltype(EXPR)>); { RT r = EXPR; P.got(r); } \
                P.begin("constref"); { const auto& r = EXPR; P.churn(); P.got(r); } \
                P.begin("rangefor"); { P.rf.clear(); size_t k = 0; for (const auto& v : EXPR) { if (k++ == 0) P.churn(); P.rf_elem(v); } P.rf_done(std::is_same_v<RT, arr_cmplx>); } \
            } catch (const std::exception&) { P.threw(); } \
            P.end(); \
        } \
    };
// compound form `a OP EXPR` on a named copy of a (EXPR may mention a: aliasing through a temporary)
#define FORMCA(NAME, ARITY, STAG, OPC, OP, EXPR) \
    struct F_##NAME { \
        static constexpr int stag = STAG, opc = OPC, arity = ARITY; \
        static const char* name() { return #NAME; } \
        static const char* text() { return "a " #OP " " #EXPR; } \
        template<class A, class B, class C, class D, class S> \
        static auto ev(const A& a, const B& b, const C& c, const D& d, const S& s, const Aux& q) -> decltype(EXPR) { (void)a; (void)b; (void)c; (void)d; (void)s; (void)q; return EXPR; } \
        template<class RT, class A> static constexpr bool kind_ok() { return std::is_same_v<A, arr_cmplx> || std::is_same_v<RT, arr_real>; } \
        template<class A, class B, class C, class D, class S> \
        static void probes(const A& a0, const B& b, const C& c, const D& d, const S& s, const Aux& q, Probe& P) { \
            (void)b; (void)c; (void)d; (void)s; (void)q; \
            P.begin("compound"); \
            { A a = a0; try { a OP EXPR; P.got(a); P.keep(a); } catch (const std::exception&) { P.threw(); P.unchanged(a, a0); } } \
            P.end(); \
        } \
    };

// X = all idioms, Y = light
#define BINF(X, Y, N, OP) \
    X(N##_lt, 2, a OP tmp(b)) X(N##_tl, 2, tmp(a) OP b) X(N##_tt, 2, tmp(a) OP tmp(b)) X(N##_n2r, 3, a OP (b * c)) X(N##_n2l, 3, (a * c) OP b) \
    Y(N##_n2b, 3, (a + b) OP (b * c)) Y(N##_n2s, 3, (a - b) OP (c - b)) Y(N##_n2m, 3, a * (b OP c)) Y(N##_n2d, 3, (a OP b) / c)
#define ARR_FORMS(X, Y) \
    BINF(X, Y, add, +) BINF(X, Y, sub, -) BINF(X, Y, mul, *) BINF(X, Y, div, /) \
    Y(d3_a, 3, a - ((b * c) - (a + b))) Y(d3_b, 3, ((a + b) * (b - c)) / (c + tmp(a))) Y(d3_c, 3, a + (b - (c * (a / tmp(b))))) \
    Y(d3_d, 3, -(a - (b * c)) + (tmp(c) - b)) Y(d3_e, 3, (a - (b * c)) - ((c * b) - a)) Y(d3_f, 3, ((a - b) - (b - a)) * (c - tmp(c))) \
    Y(d3_g, 3, (a * (b - tmp(b))) - (c * (a - tmp(a)))) Y(d3_h, 3, a / ((b - c) + (c - b))) Y(d3_i, 2, (tmp(a) - a) - (tmp(b) - b)) \
    X(neg_t, 1, -tmp(a)) X(neg_add, 2, -(a + b)) Y(neg_sub, 2, -(a - b)) Y(sub_neg, 2, a - (-b)) Y(neg_neg, 1, -(-tmp(a))) Y(pos_in, 3, (+(a - b)) - c) Y(pos_in2, 2, a - (+tmp(b))) \
    X(cat_lt, 2, a | tmp(b)) X(cat_tl, 2, tmp(a) | b) X(cat_tt, 2, tmp(a) | tmp(b)) Y(cat_n, 3, (a - b) | (b * c)) Y(cat_sub, 2, (a | b) - (tmp(b) | a)) Y(neg_cat, 2, -(a | tmp(b))) Y(cat3, 3, (a | b) | (c | tmp(a))) \
    X(mask_t, 1, tmp(a)[q.m]) X(mask_sub, 2, (a - b)[q.m]) X(idx_mul, 2, (a * b)[q.ix]) X(idxa_t, 1, tmp(a)[q.ia]) Y(idxa_sub, 2, (a - tmp(b))[q.ia]) Y(mask_both, 3, (a - b)[q.m] - tmp(c)[q.m]) \
    Y(sel_cat, 3, a[q.m] | (b - c)[q.ix]) Y(neg_idx, 2, -((a + b)[q.ix])) \
    Y(err_sub, 1, a - tmp(d)) Y(err_mul, 2, tmp(d) * b) Y(err_div, 3, (a + b) / (c | d)) Y(err_mask, 1, tmp(a)[q.md]) Y(err_idx, 2, (a - b)[q.ibad]) Y(err_in, 3, a - ((b * d) - c))
#define SCF(X, Y, N, OP) \
    X(N##_st, 1, s OP tmp(a)) X(N##_ts, 1, tmp(a) OP s) X(N##_sn, 2, s OP (a + b)) X(N##_ns, 2, (a - b) OP s) Y(N##_sneg, 1, s OP (-a)) Y(N##_s2, 2, s OP (s * (a - b)))
#define SC_FORMS(X, Y) \
    SCF(X, Y, sadd, +) SCF(X, Y, ssub, -) SCF(X, Y, smul, *) SCF(X, Y, sdiv, /) \
    Y(sc_a, 2, (s * tmp(a)) - (tmp(b) * s)) Y(sc_b, 2, s - (s * (a - b))) Y(sc_c, 2, (s + a) - (b + s)) Y(sc_d, 2, s / (s - (a * b))) Y(sc_e, 2, (s * (a - b)) * s) \
    Y(sc_f, 2, -(s * (a + b))) Y(sc_g, 2, (s * (a + b)) | (tmp(a) * s)) Y(sc_h, 2, (s * (a - b))[q.m]) Y(sc_i, 2, a - (s * b)) Y(sc_j, 1, (a * s) - (s * a)) Y(sc_k, 1, s * (s * (s * tmp(a))))
#define ZM_FORMS(X, Y) \
    X(zm_st, 1, s * tmp(a)) X(zm_ts, 1, tmp(a) * s) X(zm_sn, 2, s * (a + b)) X(zm_ns, 2, (a - b) * s) Y(zm_n, 2, (s * tmp(a)) - (b * s))
#define CAF(X, N, OPC, OP) \
    X(N##_t, 2, S_CA, OPC, OP, tmp(b)) X(N##_n, 3, S_CA, OPC, OP, (b * c)) X(N##_al, 2, S_CA, OPC, OP, (a - tmp(b))) X(N##_al2, 3, S_CA, OPC, OP, (a * (c - a)))
#define CA_FORMS(X, Y) \
    CAF(X, cadd, ADD, +=) CAF(X, csub, SUB, -=) CAF(X, cmul, MUL, *=) CAF(X, cdiv, DIV, /=) \
    X(ca_err, 1, S_CA, SUB, -=, tmp(d)) X(ca_err2, 2, S_CA, MUL, *=, (b | d)) \
    X(cata_t, 2, S_CATA, 0, |=, tmp(b)) X(cata_n, 3, S_CATA, 0, |=, (b - c)) X(cata_al, 1, S_CATA, 0, |=, (a | tmp(a))) X(cata_al2, 1, S_CATA, 0, |=, -a)
ARR_FORMS(FORM, FORML) SC_FORMS(FORM, FORML) ZM_FORMS(FORM, FORML) CA_FORMS(FORMCA, FORMCA)
template<class... Fs> struct TL {};
struct FNone {};
#define TLN(N, ...) , F_##N
typedef TL<FNone ARR_FORMS(TLN, TLN)> ArrForms;
typedef TL<FNone SC_FORMS(TLN, TLN)> ScForms;
typedef TL<FNone ZM_FORMS(TLN, TLN)> ZmForms;
typedef TL<FNone CA_FORMS(TLN, TLN)> CaForms;

template<class F, class A, class B, class C, class D, class S, class = void> struct FormValid : std::false_type {};
template<class F, class A, class B, class C, class D, class S>
struct FormValid<F, A, B, C, D, S,
                 std::void_t<decltype(F::ev(std::declval<const A&>(), std::declval<const B&>(), std::declval<const C&>(), std::declval<const D&>(), std::declval<const S&>(), std::declval<const Aux&>()))>>
  : std::true_type {};

// ---- type-erased table of the instantiated forms: everything that does not need the static types lives in run_entry (one copy)
struct ScVal {   // one scalar in its four static types
    int kind = 0; real_t r = 0; int i = 0; cmplx_t c; std::complex<double> z;
    template<class S> const S& get() const {
        if constexpr (std::is_same_v<S, real_t>) return r; else if constexpr (std::is_same_v<S, int>) return i; else if constexpr (std::is_same_v<S, cmplx_t>) return c; else return z;
    }
    Sc sc() const { return kind == 0 ? mksc(r) : kind == 1 ? mksc(i) : kind == 2 ? mksc(c) : mksc(z); }
};
template<class X> static const X& varget(const Var& v) { if constexpr (std::is_same_v<X, arr_cmplx>) return v.c; else return v.r; }
typedef void (*ProbeFn)(const std::vector<Var>&, const ScVal&, const Aux&, Probe&);
typedef Expr (*TreeFn)(const ScVal&, const Aux&);
struct FormEntry {
    const char *name = "", *text = "";
    int stag = 0, opc = 0, arity = 3;
    TreeFn tree[4] = {nullptr, nullptr, nullptr, nullptr};        // by scalar kind
    ProbeFn probe[8][4] = {};                                     // [4*A + 2*B + C][scalar kind]; nullptr: not instantiated
    bool not_compilable[8][4] = {};
};
template<class F, class A, class B, class C, class S> static void probe_thunk(const std::vector<Var>& v, const ScVal& s, const Aux& q, Probe& P) {
    F::probes(varget<A>(v[0]), varget<B>(v[1]), varget<C>(v[2]), varget<A>(v[3]), s.get<S>(), q, P);
}
template<class F, class S> static Expr tree_thunk(const ScVal& s, const Aux& q) { return F::ev(symvar(0), symvar(1), symvar(2), symvar(3), s.get<S>(), q).e; }
template<class S> constexpr int skind_of() { return std::is_same_v<S, real_t> ? 0 : std::is_same_v<S, int> ? 1 : std::is_same_v<S, cmplx_t> ? 2 : 3; }
template<class F, class A, class B, class C, class S> static void add_combo(FormEntry& e) {
    constexpr int ki = 4 * std::is_same_v<A, arr_cmplx> + 2 * std::is_same_v<B, arr_cmplx> + std::is_same_v<C, arr_cmplx>;
    constexpr int si = skind_of<S>();
    if constexpr (F::arity < 3 && std::is_same_v<C, arr_cmplx>) return;       // c unused: one kind is enough
    else if constexpr (F::arity < 2 && std::is_same_v<B, arr_cmplx>) return;
    else if constexpr (!FormValid<F, A, B, C, A, S>::value) e.not_compilable[ki][si] = true;
    else if constexpr (!F::template kind_ok<std::decay_t<decltype(F::ev(std::declval<const A&>(), std::declval<const B&>(), std::declval<const C&>(), std::declval<const A&>(), std::declval<const S&>(), std::declval<const Aux&>()))>, A>()) return;
    else { e.probe[ki][si] = &probe_thunk<F, A, B, C, S>; e.tree[si] = &tree_thunk<F, S>; }
}
template<class F, class S, bool needComplexArrays> static void add_kinds(FormEntry& e) {   // needComplexArrays: arr_real op std::complex exists only for `*`
    if constexpr (!needComplexArrays) {
        add_combo<F, arr_real, arr_real, arr_real, S>(e); add_combo<F, arr_real, arr_real, arr_cmplx, S>(e);
        add_combo<F, arr_real, arr_cmplx, arr_real, S>(e); add_combo<F, arr_real, arr_cmplx, arr_cmplx, S>(e);
        add_combo<F, arr_cmplx, arr_real, arr_real, S>(e); add_combo<F, arr_cmplx, arr_real, arr_cmplx, S>(e);
        add_combo<F, arr_cmplx, arr_cmplx, arr_cmplx, S>(e);
    }
    if constexpr (needComplexArrays && F::arity == 1) add_combo<F, arr_cmplx, arr_real, arr_real, S>(e);
    else add_combo<F, arr_cmplx, arr_cmplx, arr_real, S>(e);
}
template<class F> static FormEntry base_entry() { FormEntry e; e.name = F::name(); e.text = F::text(); e.stag = F::stag; e.opc = F::opc; e.arity = F::arity; return e; }
template<class... Fs> static void table_arr(TL<FNone, Fs...>, std::vector<FormEntry>& t) { ([&] { FormEntry e = base_entry<Fs>(); add_kinds<Fs, real_t, false>(e); t.push_back(e); }(), ...); }
template<class... Fs> static void table_sc(TL<FNone, Fs...>, std::vector<FormEntry>& t) {
    ([&] { FormEntry e = base_entry<Fs>(); add_kinds<Fs, real_t, false>(e); add_kinds<Fs, int, false>(e); add_kinds<Fs, cmplx_t, false>(e); add_kinds<Fs, std::complex<double>, true>(e); t.push_back(e); }(), ...);
}
template<class... Fs> static void table_zm(TL<FNone, Fs...>, std::vector<FormEntry>& t) {
    ([&] { FormEntry e = base_entry<Fs>(); add_combo<Fs, arr_real, arr_real, arr_real, std::complex<double>>(e); add_combo<Fs, arr_real, arr_cmplx, arr_real, std::complex<double>>(e);
           add_combo<Fs, arr_cmplx, arr_real, arr_real, std::complex<double>>(e); t.push_back(e); }(), ...);
}

// operand generator: components correlated so that exact cancellations, signed zeros and equal elements occur in every array
struct FormGen {
    vh::Rng& rng;
    Gen g;
    long long index = 0;
    explicit FormGen(vh::Rng& r) : rng(r), g{r} {}
    double zero() { return rng.coin() ? 0.0 : -0.0; }
    double pal() {
        static const double P[] = {1.0, -1.0, 2.0, 0.5, -3.0, 4.0, 0.0, -0.0};
        const int c = int(rng.next() % 12);
        return c < 8 ? P[c] : g.value();
    }
    void triple(double sv, double& x, double& y, double& z) {
        const int p = int(rng.next() % 100);
        const double v = g.value();
        if (p < 22) { x = v; y = v; z = rng.coin() ? 1.0 : v; }                                        // a == b (and b*1 == a)
        else if (p < 32) { x = zero(); y = zero(); z = rng.coin() ? zero() : g.value(); }               // signed zeros
        else if (p < 42) { const int q = rng.range(-5, 5), r = rng.range(-5, 5); y = q; z = r; x = double(q) * r; }   // a == b*c exactly
        else if (p < 50) { x = v; y = -v; z = rng.coin() ? v : -v; }                                    // a == -b
        else if (p < 58) { x = y = z = v; }
        else if (p < 70) { x = sv; y = rng.coin() ? sv : zero(); z = rng.coin() ? 1.0 : sv; }           // equals the scalar operand
        else if (p < 76) { x = v; y = v; z = zero(); }
        else { x = v; y = g.value(); z = g.value(); }
    }
    static void put(Var& v, int i, double re, double im) { if (v.cx) v.c[i] = cmplx_t(re, im); else v.r[i] = re; }
    static void alloc(Var& v, bool cx, int n) { v.cx = cx; v.r = arr_real(cx ? 0 : n); v.c = arr_cmplx(cx ? n : 0); }
    std::vector<Var> operands(int L, int ki, double sre, double sim) {
        std::vector<Var> v(4);
        alloc(v[0], ki & 4, L); alloc(v[1], ki & 2, L); alloc(v[2], ki & 1, L);
        const bool realvalued = rng.next() % 4 == 0;   // complex arrays holding (x, +-0)
        for (int i = 0; i < L; ++i) {
            double xr, yr, zr, xi, yi, zi;
            triple(sre, xr, yr, zr);
            triple(sim, xi, yi, zi);
            if (realvalued) { xi = zero(); yi = zero(); zi = zero(); }
            put(v[0], i, xr, xi); put(v[1], i, yr, yi); put(v[2], i, zr, zi);
        }
        const int Ld = g.other_len(L);
        alloc(v[3], ki & 4, Ld);
        for (int i = 0; i < Ld; ++i) put(v[3], i, g.value(), g.value());
        return v;
    }
    ScVal scalar(int kind) {
        ScVal s; s.kind = kind;
        static const int P[] = {1, -1, 0, 2, -3};
        const int c = int(rng.next() % 8);
        s.i = c < 5 ? P[c] : rng.range(-6, 6);
        s.r = pal();
        const double re = pal(), im = (rng.next() % 3 == 0) ? zero() : pal();
        s.c = cmplx_t(re, im); s.z = std::complex<double>(re, im);
        return s;
    }
    Aux aux(int L) {
        Aux q;
        q.m.resize(L); for (int i = 0; i < L; ++i) q.m[i] = rng.coin();
        const int Ld = g.other_len(L);
        q.md.resize(Ld); for (int i = 0; i < Ld; ++i) q.md[i] = rng.coin();
        const int n = L == 0 ? 0 : rng.range(0, L + 2);
        q.ix.resize(n); for (auto& j : q.ix) j = int(rng.next() % uint64_t(L));
        q.ibad = q.ix;
        if (q.ibad.empty()) q.ibad.push_back(L); else { const int bad[4] = {L, -1, L + 7, INT_MIN}; q.ibad[rng.next() % q.ibad.size()] = bad[rng.next() % 4]; }
        q.ia = arr_int(q.ix);
        return q;
    }
};
static OV mkov(const Var& v) {
    OV o; o.cx = v.cx;
    const int n = v.cx ? v.c.size() : v.r.size();
    for (int i = 0; i < n; ++i) o.v.push_back(v.cx ? CL(v.c[i].re, v.c[i].im) : CL(v.r[i]));
    o.e.assign(n, 0); o.ok.assign(n, 1);
    return o;
}

static void run_entry(const FormEntry& fe, int ki, int si, bool uses_scalar, FormGen& fg, int L, bool emit_corr) {
    const std::string kinds = std::string(ki & 4 ? "C" : "R") + (ki & 2 ? "C" : "R") + (ki & 1 ? "C" : "R") + (uses_scalar ? std::string("_") + SKN[si] : std::string());
    if (fe.not_compilable[ki][si]) { out.stat(std::string("form_not_compilable_") + fe.name + "_" + kinds); return; }
    if (!fe.probe[ki][si]) return;
    // ---- named operands
    const ScVal s = fg.scalar(si);
    const Sc ss = s.sc();
    const std::vector<Var> ops = fg.operands(L, ki, ss.kind == 1 ? double(ss.iv) : ss.re, ss.im);
    const Aux q = fg.aux(L);
    // ---- the expression tree (same source text, symbolic operands)
    Stmt st;
    st.tag = (STag)fe.stag; st.op = fe.opc; st.k = 0;
    st.e = fe.tree[si](s, q);
    std::vector<Var> env = ops;
    std::vector<OV> oenv;
    std::string lhs = std::string("form ") + fe.name + " " + kinds + " 4";
    for (auto& v : env) { oenv.push_back(mkov(v)); if (emit_corr) lhs += " " + showv(refvar(v)); }
    std::string body;
    show(st, body);
    lhs += " 1" + body;
    Probe P;
    P.form = fe.name; P.text = fe.text; P.kinds = kinds; P.L = L; P.index = fg.index++;
    if (L <= 6) {
        P.operands_json = ",\"a\":" + jbits(refvar(ops[0])) + ",\"b\":" + jbits(refvar(ops[1])) + ",\"c\":" + jbits(refvar(ops[2])) + ",\"d\":" + jbits(refvar(ops[3]));
        if (uses_scalar) P.operands_json += ",\"s\":\"" + show(ss) + "\"";
    }
    P.operands_json += ",\"tree\":\"" + (body.size() < 1500 ? body : std::string("(long)")) + "\"";
    g_ctx = "\"form\":\"" + P.form + "\",\"expr\":\"" + P.text + "\",\"kinds\":\"" + kinds + "\",\"L\":" + std::to_string(L) + ",\"seed\":" + std::to_string((unsigned long long)g_seed) +
            ",\"index\":" + std::to_string(P.index) + P.operands_json;
    // ---- (1) step by step through named arrays (lvalue overloads only), (2) long double oracle
    vh::Rng aux(fg.rng.next());
    bool oerr = false;
    OV want;
    try { want = oexec(st, oenv); } catch (const OErr&) { oerr = true; }
    g_allow_mv = false;
    vh::set_current("C03:crash", "{" + g_ctx + "}");
    RV steps;
    try { steps = rexec(st, env, aux); } catch (const Threw&) { P.ref_threw = true; }
    vh::clear_current();
    g_allow_mv = true;
    if (P.ref_threw && !oerr) fail("C03:throws-valid", "form, step by step");
    if (!P.ref_threw && oerr) fail("C03:mismatch-accepted", "form, step by step");
    if (!P.ref_threw && !oerr) compare(steps, want, "form, step by step");
    if (!P.ref_threw) { P.ref = bits(steps); P.ref_cx = steps.cx; P.ref_n = steps.size(); }
    // ---- (3) the compiled expression with its temporaries, in every consumption idiom
    for (auto& o : ops) { P.ops.push_back(refvar(o)); P.snap.push_back(bits(P.ops.back())); }
    fe.probe[ki][si](ops, s, q, P);
    out.stat(P.ref_threw ? "forms_rejected" : "forms_ok");
    out.stat(std::string("formkind_") + kinds);
    out.stat(std::string("formdepth_") + std::to_string(depth(st.e) + (st.tag == S_E ? 0 : 1)));
    // ---- CORR: the model evaluates the tree; the implementation side is the COMPILED expression's result
    if (P.have_direct && emit_corr) {
        std::string rhs = P.direct_threw ? "ERR" : P.direct_txt;
        rhs += " ENV";
        for (int k = 0; k < 4; ++k) {
            if (k == 0 && st.tag != S_E && !P.direct_threw) rhs += " " + (P.keep_c ? showvz(refv(*P.keep_c)) : showvz(refv(*P.keep_r)));
            else rhs += " " + showvz(P.ops[k]);
        }
        out.corr(lhs, rhs);
        if (L >= 2 && L <= 4) out.sample("{\"form\":\"" + P.text + "\",\"kinds\":\"" + kinds + "\",\"case\":\"" + lhs + "\",\"result\":\"" + rhs + "\"}");
    }
}
struct FormTables { std::vector<FormEntry> arr, sc; };
static const FormTables& form_tables() {
    static FormTables t;
    if (t.arr.empty()) { table_arr(ArrForms{}, t.arr); table_arr(CaForms{}, t.arr); table_sc(ScForms{}, t.sc); table_zm(ZmForms{}, t.sc); }
    return t;
}
static void forms_round(FormGen& fg, int L, int mode, bool emit_corr) {
    fg.g.mode = mode;
    const FormTables& t = form_tables();
    for (auto& fe : t.arr) for (int ki = 0; ki < 8; ++ki) run_entry(fe, ki, 0, false, fg, L, emit_corr);
    for (auto& fe : t.sc) for (int ki = 0; ki < 8; ++ki) for (int si = 0; si < 4; ++si) run_entry(fe, ki, si, true, fg, L, emit_corr);
    out.stat("form_rounds");
}
template<class T> static void builder_forms(FormGen& fg, int L);
// ---- array builders of utils.h / math.cpp applied to temporaries (not in the token language: the step-by-step side is written out)
#define BFORM(TEXT, EXPR, ...) \
    { \
        Probe P; P.form = "builder"; P.text = TEXT; P.kinds = kinds; P.L = L; P.index = fg.index++; \
        P.operands_json = L <= 6 ? ",\"a\":" + jbits(refv(a)) + ",\"b\":" + jbits(refv(b)) + ",\"c\":" + jbits(refv(c)) : std::string(); \
        P.ops = {refv(a), refv(b), refv(c)}; for (auto& o : P.ops) P.snap.push_back(bits(o)); \
        try { const auto ref = [&]() { __VA_ARGS__ }(); const RV rv = refv(ref); P.ref = bits(rv); P.ref_cx = rv.cx; P.ref_n = rv.size(); } catch (const std::exception&) { P.ref_threw = true; } \
        typedef std::decay_t<decltype(EXPR)> RT; \
        try { \
            P.begin("value"); P.static_ref(std::is_reference_v<decltype(EXPR)>); { RT r = EXPR; P.got(r); } \
            P.begin("constref"); { const auto& r = EXPR; P.churn(); P.got(r); } \
            P.begin("autorr"); { auto&& r = EXPR; P.churn(); P.got(r); } \
            P.begin("rangefor"); { P.rf.clear(); size_t k = 0; for (const auto& v : EXPR) { if (k++ == 0) P.churn(); P.rf_elem(v); } P.rf_done(std::is_same_v<RT, arr_cmplx>); } \
        } catch (const std::exception&) { P.threw(); } \
        P.end(); \
        out.stat("builder_forms"); \
    }
template<class T> static void builder_forms(FormGen& fg, int L) {
    typedef base_array<T> A;
    constexpr bool cx = std::is_same_v<T, cmplx_t>;
    const std::string kinds = cx ? "C" : "R";
    const std::vector<Var> ops = fg.operands(L, cx ? 7 : 0, 1.0, 0.0);
    const A &a = varget<A>(ops[0]), &b = varget<A>(ops[1]), &c = varget<A>(ops[2]);
    const int pad = fg.rng.range(0, 5);
    BFORM("concatenate(a - b, b * c)", concatenate(a - b, b * c), const A t1 = a - b; const A t2 = b * c; const A r = concatenate(t1, t2); return r;)
    BFORM("concatenate(tmp(a), -b, a - c)", concatenate(tmp(a), -b, a - c), const A t1 = a; const A t2 = -b; const A t3 = a - c; const A r = concatenate(t1, t2, t3); return r;)
    BFORM("zeropad(a - b, L + pad)", zeropad(a - b, L + pad), const A t1 = a - b; const A r = zeropad(t1, L + pad); return r;)
    BFORM("zeropad(tmp(a), L) - b", zeropad(tmp(a), L) - b, const A t1 = a; const A t2 = zeropad(t1, L); const A r = t2 - b; return r;)
    BFORM("zeropad(a * c, L - 1)", zeropad(a * c, L - 1), const A t1 = a * c; const A r = zeropad(t1, L - 1); return r;)
    BFORM("a - zeropad(b[q], L)", a - zeropad(b[std::vector<int>{}], L), const A t1 = b[std::vector<int>{}]; const A t2 = zeropad(t1, L); const A r = a - t2; return r;)
    if constexpr (cx) {
        BFORM("real(a - b)", real(a - b), const A t1 = a - b; const arr_real r = real(t1); return r;)
        BFORM("imag(tmp(a)) - real(b - a)", imag(tmp(a)) - real(b - a), const A t1 = a; const arr_real t2 = imag(t1); const A t3 = b - a; const arr_real t4 = real(t3); const arr_real r = t2 - t4; return r;)
        BFORM("conj(a - b)", conj(a - b), const A t1 = a - b; const A r = conj(t1); return r;)
        BFORM("a - conj(conj(tmp(a)))", a - conj(conj(tmp(a))), const A t1 = a; const A t2 = conj(t1); const A t3 = conj(t2); const A r = a - t3; return r;)
        BFORM("complex(real(a - b), imag(tmp(c)))", complex(real(a - b), imag(tmp(c))), const A t1 = a - b; const arr_real t2 = real(t1); const arr_real t3 = imag(c); const A r = complex(t2, t3); return r;)
    } else {
        BFORM("complex(a - b, tmp(c))", complex(a - b, tmp(c)), const A t1 = a - b; const A t2 = c; const arr_cmplx r = complex(t1, t2); return r;)
        BFORM("complex(tmp(a)) - complex(b, c)", complex(tmp(a)) - complex(b, c), const A t1 = a; const arr_cmplx t2 = complex(t1); const arr_cmplx t3 = complex(b, c); const arr_cmplx r = t2 - t3; return r;)
        BFORM("complex(a - b, zeropad(c, L + 1))", complex(a - b, zeropad(c, L + 1)), const A t1 = a - b; const A t2 = zeropad(c, L + 1); const arr_cmplx r = complex(t1, t2); return r;)
        BFORM("conj(a - b) - (a - b)", conj(a - b) - (a - b), const A t1 = a - b; const A t2 = conj(t1); const A r = t2 - t1; return r;)
    }
}
#ifdef __clang__
#pragma clang optimize on
#endif

// ------------------------------------------------------------------ scalar operators of types.h
static std::string showc(const cmplx_t& z) { return vh::hx(z.re) + " " + vh::hx(z.im); }
static void check_sc(const char* what, const cmplx_t& got, const CL& want, LD scale, bool claimed) {
    out.n_oracle++;
    if (!claimed) return;
    const LD d = std::abs(CL(got.re, got.im) - want);
    if (!(d <= E4 * scale + 1e-18L * std::abs(want))) {
        char b[200];
        std::snprintf(b, sizeof b, "%s got (%.17g,%.17g) want (%.21Lg,%.21Lg)", what, got.re, got.im, want.real(), want.imag());
        out.fail("C03:scalar-op", std::string("{\"what\":\"") + b + "\"}");
    }
}
static void scalar_cases(vh::Rng& rng, int count) {
    Gen g{rng};
    for (int it = 0; it < count; ++it) {
        g.mode = (it % 3 == 2) ? 1 : 0;
        const cmplx_t a(g.value(), g.value()), b(g.value(), g.value());
        const real_t x = g.value();
        const int n = rng.range(-7, 7);
        const CL A(a.re, a.im), B(b.re, b.im), X(x), N((LD)n);
        const bool ra = inrange(A), rb = inrange(B), rx = inrange(X);
        const LD ma = std::abs(A), mb = std::abs(B), mx = std::abs(X), mn = std::abs(N);
        for (int op = 0; op < 4; ++op) {
            cmplx_t r, q;
            CL w; LD sc;
            auto ref = [&](const CL& u, const CL& v, LD mu, LD mv) {
                switch (op) { case ADD: w = u + v; sc = mu + mv; break; case SUB: w = u - v; sc = mu + mv; break; case MUL: w = u * v; sc = mu * mv; break; default: w = (mv == 0) ? CL(0) : u / v; sc = (mv == 0) ? 0 : mu / mv; }
            };
            // cmplx op cmplx, and compound
            switch (op) { case ADD: r = a + b; q = a; q += b; break; case SUB: r = a - b; q = a; q -= b; break; case MUL: r = a * b; q = a; q *= b; break; default: r = a / b; q = a; q /= b; }
            ref(A, B, ma, mb);
            check_sc("cc", r, w, sc, ra && rb && !(op == DIV && mb == 0));
            out.corr(std::string("sc cc ") + OPN[op] + " " + showc(a) + " " + showc(b), showc(r));
            out.corr(std::string("sc cca ") + OPN[op] + " " + showc(a) + " " + showc(b), showc(q));
            // cmplx op real, and compound
            switch (op) { case ADD: r = a + x; q = a; q += x; break; case SUB: r = a - x; q = a; q -= x; break; case MUL: r = a * x; q = a; q *= x; break; default: r = a / x; q = a; q /= x; }
            ref(A, X, ma, mx);
            check_sc("cr", r, w, sc, ra && rx && !(op == DIV && mx == 0));
            check_sc("cra", q, w, sc, ra && rx && !(op == DIV && mx == 0));
            out.corr(std::string("sc cr ") + OPN[op] + " " + showc(a) + " " + vh::hx(x), showc(r));
            out.corr(std::string("sc cra ") + OPN[op] + " " + showc(a) + " " + vh::hx(x), showc(q));
            // real op cmplx  (left-oriented forms)
            switch (op) { case ADD: r = x + b; break; case SUB: r = x - b; break; case MUL: r = x * b; break; default: r = x / b; }
            ref(X, B, mx, mb);
            check_sc("rc", r, w, sc, rx && rb && !(op == DIV && mb == 0));
            out.corr(std::string("sc rc ") + OPN[op] + " " + vh::hx(x) + " " + showc(b), showc(r));
            // int op cmplx
            switch (op) { case ADD: r = n + b; break; case SUB: r = n - b; break; case MUL: r = n * b; break; default: r = n / b; }
            ref(N, B, mn, mb);
            check_sc("ic", r, w, sc, rb && !(op == DIV && mb == 0));
            out.corr(std::string("sc ic ") + OPN[op] + " " + std::to_string(n) + " " + showc(b), showc(r));
        }
        out.corr("sc neg " + showc(a), showc(-a));
        out.corr("sc conj " + showc(a), showc(a.conj()));
        out.corr("sc abs2 " + showc(a), vh::hx(a.abs2()));
        check_sc("neg", -a, -A, 0, true);
        check_sc("conj", a.conj(), std::conj(A), 0, true);
        out.stat("scalar_cases");
    }
}

// ------------------------------------------------------------------ utils.h / math.cpp array builders
template<class T> static base_array<T> rand_arr(Gen& g, int n) {
    base_array<T> a(n);
    for (int i = 0; i < n; ++i) { if constexpr (std::is_same_v<T, cmplx_t>) a[i] = cmplx_t(g.value(), g.value()); else a[i] = g.value(); }
    return a;
}
template<class T> static bool same_bits(const base_array<T>& a, const base_array<T>& b) {
    return bits(refv(a)) == bits(refv(b));
}
template<class T> static void builder_cases(Gen& g, vh::Rng& rng, int n) {
    const char* K = std::is_same_v<T, cmplx_t> ? "C" : "R";
    // zeropad: exact prefix + zeros, throws when the target is shorter
    const base_array<T> x = rand_arr<T>(g, n);
    for (int m : {n - 1, n, n + 1, n + rng.range(2, 9), 0, -1}) {
        std::string res;
        out.n_oracle++;
        out.stat("zeropad_cases");
        try {
            const auto y = zeropad(x, m);
            res = std::string(K) + " " + vh::hxs(y);
            bool good = (m >= n) && y.size() == m;
            if (good) {
                base_array<T> want(m);
                for (int i = 0; i < n; ++i) want[i] = x[i];
                good = same_bits(want, y);
            }
            if (!good) out.fail("C03:zeropad", "{\"n\":" + std::to_string(n) + ",\"m\":" + std::to_string(m) + "}");
        } catch (const std::exception&) {
            res = "ERR";
            if (m >= n) out.fail("C03:zeropad", "{\"n\":" + std::to_string(n) + ",\"m\":" + std::to_string(m) + ",\"threw\":1}");
        }
        out.corr(std::string("zpad ") + K + " " + vh::hxs(x) + " " + std::to_string(m), res);
    }
    // concatenate of 2..5 arrays
    const int k = rng.range(2, 5);
    std::vector<base_array<T>> parts;
    std::string lhs = std::string("concat ") + std::to_string(k);
    base_array<T> want;
    {
        std::vector<T> all;
        for (int j = 0; j < k; ++j) {
            parts.push_back(rand_arr<T>(g, (rng.next() % 4 == 0) ? 0 : rng.range(0, n + 1)));
            lhs += std::string(" ") + K + " " + vh::hxs(parts.back());
            for (int i = 0; i < parts.back().size(); ++i) all.push_back(parts.back()[i]);
        }
        want = base_array<T>(all);
    }
    base_array<T> y;
    switch (k) {
    case 2: y = concatenate(parts[0], parts[1]); break;
    case 3: y = concatenate(parts[0], parts[1], parts[2]); break;
    case 4: y = concatenate(parts[0], parts[1], parts[2], parts[3]); break;
    default: y = concatenate(parts[0], parts[1], parts[2], parts[3], parts[4]);
    }
    out.n_oracle++;
    out.stat("concatenate_cases");
    if (!same_bits(want, y)) out.fail("C03:concatenate", "{\"k\":" + std::to_string(k) + ",\"n\":" + std::to_string(n) + "}");
    out.corr(lhs, std::string(K) + " " + vh::hxs(y));
}
static void math_cases(Gen& g, vh::Rng& rng, int n) {
    const arr_real re = rand_arr<real_t>(g, n);
    const int n2 = (rng.next() % 5 == 0) ? g.other_len(n) : n;
    const arr_real im = rand_arr<real_t>(g, n2);
    std::string res;
    out.n_oracle += 5;
    out.stat("math_cases");
    try {
        const arr_cmplx z = complex(re, im);
        res = "C " + vh::hxs(z);
        bool good = (n == n2) && z.size() == n;
        for (int i = 0; good && i < n; ++i) good = bitsof(z[i].re) == bitsof(re[i]) && bitsof(z[i].im) == bitsof(im[i]);
        if (!good) out.fail("C03:complex-builder", "{\"n\":" + std::to_string(n) + ",\"n2\":" + std::to_string(n2) + "}");
    } catch (const std::exception&) {
        res = "ERR";
        if (n == n2) out.fail("C03:complex-builder", "{\"n\":" + std::to_string(n) + ",\"threw\":1}");
    }
    out.corr("mcplx R " + vh::hxs(re) + " R " + vh::hxs(im), res);
    const arr_cmplx z = rand_arr<cmplx_t>(g, n);
    const arr_real zr = real(z), zi = imag(z);
    const arr_cmplx zc = conj(z), zz = complex(re);
    bool good = zr.size() == n && zi.size() == n && zc.size() == n && zz.size() == n;
    for (int i = 0; good && i < n; ++i)
        good = bitsof(zr[i]) == bitsof(z[i].re) && bitsof(zi[i]) == bitsof(z[i].im) && bitsof(zc[i].re) == bitsof(z[i].re) && bitsof(zc[i].im) == bitsof(-z[i].im) &&
               bitsof(zz[i].re) == bitsof(re[i]) && bitsof(zz[i].im) == bitsof(0.0);
    if (!good) out.fail("C03:real-imag-conj", "{\"n\":" + std::to_string(n) + "}");
    out.corr("mre C " + vh::hxs(z), "R " + vh::hxs(zr));
    out.corr("mim C " + vh::hxs(z), "R " + vh::hxs(zi));
    out.corr("mconj C " + vh::hxs(z), "C " + vh::hxs(zc));
    out.corr("mcast R " + vh::hxs(re), "C " + vh::hxs(zz));
}

static int big_len(vh::Rng& rng) {   // log-uniform in 65 .. 10000
    const double l = std::log(65.0) + rng.unit() * (std::log(10000.0) - std::log(65.0));
    int n = int(std::exp(l));
    if (rng.next() % 16 == 0) n = 10000;
    return std::min(10000, std::max(65, n));
}

// ------------------------------------------------------------------ PROMOTION of the real / int operand in mixed operator forms
// Clause "real-with-complex promoting to complex under the usual field formulas", over a value domain that contains -0, exact
// cancellations and zero products. The tolerance-based interpreter above cannot tell -0 from +0 (and is blind wherever the result
// is an exact zero), so here the FORMULA is pinned, bit for bit (sign of zero included, NaN = NaN), for every mixed operator form:
//   (a) against the harness's own evaluation, in double arithmetic, of the formula the form stands for, written out below exactly
//       as include/dsplib/types.h defines it: FULL = `cmplx_t op cmplx_t` on the PROMOTED operands (x -> (x, +0), int n -> (double(n), +0));
//       MIXED = `cmplx_t op real_t` (complex operand on the left, real operand on the right: the dedicated mixed operators, as
//       std::complex has them); REAL = `double op double` after int -> real_t;
//   (b) against an independent path through the library: the same operator applied after an EXPLICIT promotion of the real / int
//       operand (`complex(arr)`, `cmplx_t{x, 0}`, `arr_real(arr_int)`, `real_t(n)`): bit-identical for FULL / REAL forms; for MIXED
//       forms the promoted path is a different (also usual) formula, equal as a VALUE for + - * (it may differ in the sign of a zero:
//       counted in the statistics `promo_mixed_zero_sign_differs_*`) and within 4 eps for / (inside the claimed magnitude range).
// Which class a form belongs to is the overload resolution of array.h / types.h on the unchanged tree:
//   real array  op complex scalar / complex array, real or int scalar op complex array, int array op complex      -> FULL
//   complex scalar + - * real (int) array                                                                        -> FULL (the - loop `R(lhs) - rhs[i]`
//                                                           is cmplx_t - real_t = (re - x, im), bit-identical to (re - x, im - 0))
//   complex array op real / int array or scalar (also compound), complex scalar / real (int) array                -> MIXED
//   real / int array with real / int scalar or array                                                             -> REAL
// Every case with a token-language counterpart is also sent to the Lean model (CORR tag `prog`, one statement).
namespace promo {
enum Cls { FULL = 0, MIXED, REAL };
static const char* CLSN[3] = {"cmplx_t op cmplx_t on the promoted operands", "cmplx_t op real_t", "real_t op real_t"};
struct Opd { bool cx; double re, im; };
struct Src {   // one operand of a form: an array (element i) or a scalar (broadcast)
    const arr_real* r = nullptr; const arr_cmplx* c = nullptr; const arr_int* n = nullptr;
    Opd s{false, 0.0, 0.0};
    Opd at(int i) const {
        if (r) return {false, (*r)[i], 0.0};
        if (c) return {true, (*c)[i].re, (*c)[i].im};
        if (n) return {false, double((*n)[i]), 0.0};
        return s;
    }
};
static Src A(const arr_real& a) { Src s; s.r = &a; return s; }
static Src A(const arr_cmplx& a) { Src s; s.c = &a; return s; }
static Src A(const arr_int& a) { Src s; s.n = &a; return s; }
static Src KR(real_t x) { Src s; s.s = {false, x, 0.0}; return s; }
static Src KI(int k) { Src s; s.s = {false, double(k), 0.0}; return s; }
static Src KC(const cmplx_t& z) { Src s; s.s = {true, z.re, z.im}; return s; }

// ---- the formulas of include/dsplib/types.h, written out (the property fixes the formula, not merely the real value)
// cmplx_t::operator+,-,*,/(const cmplx_t&):  {re + r.re, im + r.im}   {re - r.re, im - r.im}
//   {(re * r.re) - (im * r.im), (re * r.im) + (im * r.re)}
//   {((re * r.re) + (im * r.im)) / r.abs2(), ((r.re * im) - (re * r.im)) / r.abs2()},  abs2 = re * re + im * im
static void f_cc(int op, double ar, double ai, double br, double bi, double& re, double& im) {
    switch (op) {
    case ADD: re = ar + br; im = ai + bi; break;
    case SUB: re = ar - br; im = ai - bi; break;
    case MUL: re = (ar * br) - (ai * bi); im = (ar * bi) + (ai * br); break;
    default: { const double n2 = br * br + bi * bi; re = ((ar * br) + (ai * bi)) / n2; im = ((br * ai) - (ar * bi)) / n2; }
    }
}
// cmplx_t::operator+,-,*,/(const real_t&):  {re + x, im}  {re - x, im}  {re * x, im * x}  {re / x, im / x}
static void f_cr(int op, double ar, double ai, double x, double& re, double& im) {
    switch (op) {
    case ADD: re = ar + x; im = ai; break;
    case SUB: re = ar - x; im = ai; break;
    case MUL: re = ar * x; im = ai * x; break;
    default: re = ar / x; im = ai / x;
    }
}
static double f_rr(int op, double x, double y) {
    switch (op) { case ADD: return x + y; case SUB: return x - y; case MUL: return x * y; default: return x / y; }
}
static bool sameD(double a, double b) { return same_word(bitsof(a), bitsof(b)); }
static std::string pv(bool cx, double re, double im) {
    char b[160];
    if (cx) std::snprintf(b, sizeof b, "(%.17g,%.17g) [%016llx %016llx]", re, im, (unsigned long long)bitsof(re), (unsigned long long)bitsof(im));
    else std::snprintf(b, sizeof b, "%.17g [%016llx]", re, (unsigned long long)bitsof(re));
    return b;
}
static bool claimed(double d) { const double m = std::fabs(d); return m == 0 || (m >= 0.99e-100 && m <= 1.01e100); }

struct Round {
    const arr_real& xr; const arr_cmplx& zc;
    int L; long long id; bool emit; const char* gen;
};
template<class X> static double cre(const X& v) { if constexpr (std::is_same_v<X, cmplx_t>) return v.re; else return v; }
template<class X> static double cim(const X& v) { if constexpr (std::is_same_v<X, cmplx_t>) return v.im; else return 0.0; }

// got: the mixed operator form; via: the same operator after an explicit promotion of the real / int operand (library path)
template<class G, class V>
static void judge(const Round& R, const char* form, const std::string& expr, int op, Cls cls, const Src& a, const Src& b, const G& got, const V& via,
                  const std::string& via_text, const std::string& stmt, int target = -1) {
    constexpr bool gcx = std::is_same_v<G, arr_cmplx>;
    constexpr bool vcx = std::is_same_v<V, arr_cmplx>;
    out.n_oracle++;
    out.stat(std::string("promo_form_") + form);
    out.stat("promo_cases");
    auto witness = [&](const std::string& what, int i, const std::string& extra) {
        std::string j = "{\"what\":\"" + what + "\",\"form\":\"" + form + "\",\"expr\":\"" + expr + "\",\"op\":\"" + OPN[op] + "\",\"formula\":\"" + CLSN[cls] + "\"";
        if (i >= 0) {
            const Opd x = a.at(i), y = b.at(i);
            j += ",\"elem\":" + std::to_string(i) + ",\"lhs\":\"" + pv(x.cx, x.re, x.im) + "\",\"rhs\":\"" + pv(y.cx, y.re, y.im) + "\"";
        }
        j += extra + ",\"L\":" + std::to_string(R.L) + ",\"generator\":\"" + R.gen + "\",\"round\":" + std::to_string(R.id) + ",\"seed\":" + std::to_string((unsigned long long)g_seed) + "}";
        return j;
    };
    if (gcx != (cls != REAL)) { out.fail("C03:result-kind", witness("mixed form: result element type", -1, "")); return; }
    if (got.size() != R.L) { out.fail("C03:result-length", witness("mixed form: result length " + std::to_string(got.size()), -1, "")); return; }
    // (a) the field formula on the promoted operands, evaluated here in double arithmetic
    for (int i = 0; i < R.L; ++i) {
        const Opd x = a.at(i), y = b.at(i);
        double wr = 0, wi = 0;
        if (cls == FULL) f_cc(op, x.re, x.cx ? x.im : 0.0, y.re, y.cx ? y.im : 0.0, wr, wi);
        else if (cls == MIXED) f_cr(op, x.re, x.im, y.re, wr, wi);
        else wr = f_rr(op, x.re, y.re);
        const double gr = cre(got[i]), gi = cim(got[i]);
        if (gr == 0) out.stat("promo_zero_components");
        if (gcx && gi == 0) out.stat("promo_zero_components");
        if (!sameD(gr, wr) || (gcx && !sameD(gi, wi))) {
            out.fail("C03:promotion-value", witness("the result is not bit-identical (sign of zero included) to the field formula evaluated on the promoted operands", i,
                                                    ",\"got\":\"" + pv(gcx, gr, gi) + "\",\"want\":\"" + pv(gcx, wr, wi) + "\""));
            return;
        }
    }
    out.stat("promo_elements", R.L);
    // (b) the same operator after an explicit promotion of the real / int operand: an independent path through the library
    if (via.size() != R.L) { out.fail("C03:promotion-value", witness("explicitly promoted path " + via_text + ": length " + std::to_string(via.size()), -1, "")); return; }
    for (int i = 0; i < R.L; ++i) {
        const double gr = cre(got[i]), gi = cim(got[i]), vr = cre(via[i]), vi = cim(via[i]);
        bool good;
        if (cls != MIXED) good = (gcx == vcx) && sameD(gr, vr) && sameD(gi, vi);
        else {
            const Opd x = a.at(i), y = b.at(i);
            if (op != DIV) {
                good = (gr == vr || (std::isnan(gr) && std::isnan(vr))) && (gi == vi || (std::isnan(gi) && std::isnan(vi)));
                if (good && (!sameD(gr, vr) || !sameD(gi, vi))) out.stat(std::string("promo_mixed_zero_sign_differs_") + OPN[op]);
            } else if (y.re != 0 && claimed(x.re) && claimed(x.im) && claimed(y.re)) {
                const double t = 4 * DBL_EPSILON;
                good = std::fabs(gr - vr) <= t * std::fabs(gr) && std::fabs(gi - vi) <= t * std::fabs(gi);
                if (good && (!sameD(gr, vr) || !sameD(gi, vi))) out.stat("promo_mixed_div_rounding_or_sign_differs");
            } else { good = true; out.stat("promo_mixed_div_unclaimed"); }
        }
        if (!good) {
            out.fail("C03:promotion-value", witness(std::string("the mixed form disagrees with the same operator applied after an explicit promotion of the real operand, ") + via_text +
                                                        (cls == MIXED ? " (as a value)" : " (bit for bit, sign of zero included)"), i,
                                                    ",\"got\":\"" + pv(gcx, gr, gi) + "\",\"promoted_path\":\"" + pv(vcx, vr, vi) + "\""));
            return;
        }
    }
    if (R.emit && !stmt.empty()) {
        const RV g = refv(got), x = refv(R.xr), z = refv(R.zc);
        out.corr("prog 2 " + showv(x) + " " + showv(z) + " 1" + stmt, showvz(g) + " ENV " + showvz(target == 0 ? g : x) + " " + showvz(target == 1 ? g : z));
        out.stat("promo_corr_cases");
    }
}
template<class X, class Y> static auto bop(int op, const X& a, const Y& b) -> decltype(a * b) {
    switch (op) { case ADD: return a + b; case SUB: return a - b; case MUL: return a * b; default: return a / b; }
}
template<class X, class Y> static X cop(int op, X t, const Y& b) {   // t is a copy: `t op= b`
    switch (op) { case ADD: t += b; break; case SUB: t -= b; break; case MUL: t *= b; break; default: t /= b; }
    return t;
}
// pure element moves with promotion: `real | complex`, `complex | real`, `complex |= real`
static void judge_cat(const Round& R, const char* form, const arr_cmplx& got, const arr_cmplx& via, bool real_first, const std::string& stmt, int target = -1) {
    out.n_oracle++;
    out.stat(std::string("promo_form_") + form);
    out.stat("promo_cases");
    bool good = got.size() == 2 * R.L && via.size() == 2 * R.L;
    for (int i = 0; good && i < 2 * R.L; ++i) {
        const bool fromreal = real_first ? i < R.L : i >= R.L;
        const int k = i < R.L ? i : i - R.L;
        const double wr = fromreal ? R.xr[k] : R.zc[k].re, wi = fromreal ? 0.0 : R.zc[k].im;
        good = sameD(got[i].re, wr) && sameD(got[i].im, wi) && sameD(via[i].re, wr) && sameD(via[i].im, wi);
        if (!good) out.fail("C03:promotion-value", std::string("{\"what\":\"concatenation of a real with a complex array: element is not the promoted (x, +0) / the complex element, bit for bit\",\"form\":\"") + form +
                                                       "\",\"elem\":" + std::to_string(i) + ",\"got\":\"" + pv(true, got[i].re, got[i].im) + "\",\"promoted_path\":\"" + pv(true, via[i].re, via[i].im) + "\",\"want\":\"" + pv(true, wr, wi) +
                                                       "\",\"L\":" + std::to_string(R.L) + ",\"generator\":\"" + R.gen + "\",\"round\":" + std::to_string(R.id) + ",\"seed\":" + std::to_string((unsigned long long)g_seed) + "}");
    }
    if (!good && (got.size() != 2 * R.L || via.size() != 2 * R.L)) out.fail("C03:result-length", std::string("{\"what\":\"concatenation real/complex\",\"form\":\"") + form + "\"}");
    if (good && R.emit) {
        const RV g = refv(got), x = refv(R.xr), z = refv(R.zc);
        out.corr("prog 2 " + showv(x) + " " + showv(z) + " 1" + stmt, showvz(g) + " ENV " + showvz(x) + " " + showvz(target == 1 ? g : z));
        out.stat("promo_corr_cases");
    }
}

// all mixed forms on one set of operands: xr (real), zc (complex), ni (int) of equal length, complex scalar s, real scalar x, int scalar n
static void round_forms(const Round& R, const arr_int& ni, const cmplx_t& s, real_t x, int n) {
    const arr_real& xr = R.xr;
    const arr_cmplx& zc = R.zc;
    const std::complex<double> sz(s.re, s.im);
    char ctx[256];
    std::snprintf(ctx, sizeof ctx, "{\"what\":\"promotion forms\",\"generator\":\"%s\",\"round\":%lld,\"L\":%d,\"seed\":%llu}", R.gen, R.id, R.L, (unsigned long long)g_seed);
    vh::set_current("C03:crash", ctx);
    vh::watch(120);
    // ---- the explicit promotions themselves
    const arr_cmplx pxr = complex(xr);       // math.cpp complex(arr_real) -> array_cast<cmplx_t>
    const arr_real rni = arr_real(ni);       // converting constructor int -> real_t
    const arr_cmplx pni = complex(rni);
    const cmplx_t px{x, 0}, pn{real_t(n), 0};
    const real_t rn = real_t(n);
    {
        out.n_oracle++;
        bool good = pxr.size() == R.L && rni.size() == R.L && pni.size() == R.L && sameD(px.im, 0.0) && sameD(pn.im, 0.0) && sameD(pn.re, double(n));
        for (int i = 0; good && i < R.L; ++i)
            good = sameD(pxr[i].re, xr[i]) && sameD(pxr[i].im, 0.0) && sameD(rni[i], double(ni[i])) && sameD(pni[i].re, double(ni[i])) && sameD(pni[i].im, 0.0);
        if (!good) out.fail("C03:promotion-value", std::string("{\"what\":\"explicit promotion complex(arr_real) / arr_real(arr_int) / cmplx_t{x, 0} is not (x, +0) bit for bit\",\"ctx\":") + ctx + "}");
    }
    const std::string tc = "c " + vh::hx(s.re) + " " + vh::hx(s.im), tz = "z " + vh::hx(s.re) + " " + vh::hx(s.im), tr = "r " + vh::hx(x), ti = "i " + std::to_string(n);
    for (int op = 0; op < 4; ++op) {
        const std::string o = OPN[op];
        const Cls left_c = (op == DIV) ? MIXED : FULL;   // complex scalar on the left of a real / int array
        // real array with a complex scalar (right, left), with a complex array
        judge(R, "R_op_c", "xr op s", op, FULL, A(xr), KC(s), bop(op, xr, s), bop(op, pxr, s), "complex(xr) op s", " E as " + o + " " + tc + " v 0");
        judge(R, "c_op_R", "s op xr", op, left_c, KC(s), A(xr), bop(op, s, xr), bop(op, s, pxr), "s op complex(xr)", " E sa " + o + " " + tc + " v 0");
        judge(R, "R_op_C", "xr op zc", op, FULL, A(xr), A(zc), bop(op, xr, zc), bop(op, pxr, zc), "complex(xr) op zc", " E aa " + o + " v 0 v 1");
        if (op == MUL) {
            judge(R, "R_mul_z", "xr * std::complex", op, FULL, A(xr), KC(s), xr * sz, pxr * sz, "complex(xr) * std::complex", " E as mul " + tz + " v 0");
            judge(R, "z_mul_R", "std::complex * xr", op, FULL, KC(s), A(xr), sz * xr, sz * pxr, "std::complex * complex(xr)", " E sa mul " + tz + " v 0");
        }
        // complex array with a real array / real scalar / int scalar on the right (the dedicated mixed operators), also compound
        judge(R, "C_op_R", "zc op xr", op, MIXED, A(zc), A(xr), bop(op, zc, xr), bop(op, zc, pxr), "zc op complex(xr)", " E aa " + o + " v 1 v 0");
        judge(R, "C_op_r", "zc op x", op, MIXED, A(zc), KR(x), bop(op, zc, x), bop(op, zc, px), "zc op cmplx_t{x, 0}", " E as " + o + " " + tr + " v 1");
        judge(R, "C_op_i", "zc op n", op, MIXED, A(zc), KI(n), bop(op, zc, n), bop(op, zc, pn), "zc op cmplx_t{n, 0}", " E as " + o + " " + ti + " v 1");
        judge(R, "C_ca_R", "zc op= xr", op, MIXED, A(zc), A(xr), cop(op, zc, xr), bop(op, zc, pxr), "zc op complex(xr)", " CA " + o + " 1 v 0", 1);
        judge(R, "C_cs_r", "zc op= x", op, MIXED, A(zc), KR(x), cop(op, zc, x), bop(op, zc, px), "zc op cmplx_t{x, 0}", " CS " + o + " 1 " + tr, 1);
        judge(R, "C_cs_i", "zc op= n", op, MIXED, A(zc), KI(n), cop(op, zc, n), bop(op, zc, pn), "zc op cmplx_t{n, 0}", " CS " + o + " 1 " + ti, 1);
        // real / int scalar on the left of a complex array
        judge(R, "r_op_C", "x op zc", op, FULL, KR(x), A(zc), bop(op, x, zc), bop(op, px, zc), "cmplx_t{x, 0} op zc", " E sa " + o + " " + tr + " v 1");
        judge(R, "i_op_C", "n op zc", op, FULL, KI(n), A(zc), bop(op, n, zc), bop(op, pn, zc), "cmplx_t{n, 0} op zc", " E sa " + o + " " + ti + " v 1");
        // int scalar with a real array
        judge(R, "R_op_i", "xr op n", op, REAL, A(xr), KI(n), bop(op, xr, n), bop(op, xr, rn), "xr op real_t(n)", " E as " + o + " " + ti + " v 0");
        judge(R, "i_op_R", "n op xr", op, REAL, KI(n), A(xr), bop(op, n, xr), bop(op, rn, xr), "real_t(n) op xr", " E sa " + o + " " + ti + " v 0");
        judge(R, "R_cs_i", "xr op= n", op, REAL, A(xr), KI(n), cop(op, xr, n), bop(op, xr, rn), "xr op real_t(n)", " CS " + o + " 0 " + ti, 0);
        // complex with complex (cmplx_t, std::complex converted field by field): the written-out formula against the library
        judge(R, "C_op_c", "zc op s", op, FULL, A(zc), KC(s), bop(op, zc, s), cop(op, zc, s), "zc op= s", " E as " + o + " " + tc + " v 1");
        judge(R, "c_op_C", "s op zc", op, FULL, KC(s), A(zc), bop(op, s, zc), bop(op, sz, zc), "std::complex op zc", " E sa " + o + " " + tc + " v 1");
        judge(R, "C_op_z", "zc op std::complex", op, FULL, A(zc), KC(s), bop(op, zc, sz), bop(op, zc, s), "zc op cmplx_t(std::complex)", " E as " + o + " " + tz + " v 1");
        judge(R, "z_op_C", "std::complex op zc", op, FULL, KC(s), A(zc), bop(op, sz, zc), bop(op, s, zc), "cmplx_t(std::complex) op zc", " E sa " + o + " " + tz + " v 1");
        judge(R, "C_cs_z", "zc op= std::complex", op, FULL, A(zc), KC(s), cop(op, zc, sz), bop(op, zc, s), "zc op cmplx_t(std::complex)", " CS " + o + " 1 " + tz, 1);
        // int arrays meeting real / complex operands (no token-language counterpart: oracle only)
        judge(R, "I_op_R", "ni op xr", op, REAL, A(ni), A(xr), bop(op, ni, xr), bop(op, rni, xr), "arr_real(ni) op xr", "");
        judge(R, "R_op_I", "xr op ni", op, REAL, A(xr), A(ni), bop(op, xr, ni), bop(op, xr, rni), "xr op arr_real(ni)", "");
        judge(R, "R_ca_I", "xr op= ni", op, REAL, A(xr), A(ni), cop(op, xr, ni), bop(op, xr, rni), "xr op arr_real(ni)", "");
        judge(R, "I_op_I", "ni op ni", op, REAL, A(ni), A(ni), bop(op, ni, ni), bop(op, rni, rni), "arr_real(ni) op arr_real(ni)", "");
        judge(R, "I_op_r", "ni op x", op, REAL, A(ni), KR(x), bop(op, ni, x), bop(op, rni, x), "arr_real(ni) op x", "");
        judge(R, "r_op_I", "x op ni", op, REAL, KR(x), A(ni), bop(op, x, ni), bop(op, x, rni), "x op arr_real(ni)", "");
        judge(R, "I_op_i", "ni op n", op, REAL, A(ni), KI(n), bop(op, ni, n), bop(op, rni, rn), "arr_real(ni) op real_t(n)", "");
        judge(R, "i_op_I", "n op ni", op, REAL, KI(n), A(ni), bop(op, n, ni), bop(op, rn, rni), "real_t(n) op arr_real(ni)", "");
        judge(R, "I_op_C", "ni op zc", op, FULL, A(ni), A(zc), bop(op, ni, zc), bop(op, pni, zc), "complex(arr_real(ni)) op zc", "");
        judge(R, "I_op_c", "ni op s", op, FULL, A(ni), KC(s), bop(op, ni, s), bop(op, pni, s), "complex(arr_real(ni)) op s", "");
        judge(R, "c_op_I", "s op ni", op, left_c, KC(s), A(ni), bop(op, s, ni), bop(op, s, pni), "s op complex(arr_real(ni))", "");
        judge(R, "C_op_I", "zc op ni", op, MIXED, A(zc), A(ni), bop(op, zc, ni), bop(op, zc, pni), "zc op complex(arr_real(ni))", "");
        judge(R, "C_ca_I", "zc op= ni", op, MIXED, A(zc), A(ni), cop(op, zc, ni), bop(op, zc, pni), "zc op complex(arr_real(ni))", "");
    }
    {
        judge_cat(R, "R_cat_C", xr | zc, pxr | zc, true, " E cat v 0 v 1");
        judge_cat(R, "C_cat_R", zc | xr, zc | pxr, false, " E cat v 1 v 0");
        arr_cmplx t = zc; t |= xr;
        judge_cat(R, "C_cata_R", t, zc | pxr, false, " CATA 1 v 0", 1);
    }
    // operands untouched by all of the above
    vh::unwatch();
    vh::clear_current();
}

static const double PAL[8] = {0.0, -0.0, 1.0, -1.0, 2.0, -3.0, 0.5, 5.0};
static const int IPAL[8] = {0, 1, -1, 2, -3, 5, INT_MAX, -1000003};

struct PG {
    vh::Rng& rng;
    Gen g;
    explicit PG(vh::Rng& r) : rng(r), g{r} {}
    double zero() { return rng.coin() ? 0.0 : -0.0; }
    double pick(double r1, double r2) {   // a component correlated with two reference values: exact cancellations, equal operands, signed zeros
        switch (int(rng.next() % 20)) {
        case 0: case 1: return 0.0;
        case 2: case 3: return -0.0;
        case 4: case 5: return r1;
        case 6: return -r1;
        case 7: return r2;
        case 8: return -r2;
        case 9: return 1.0;
        case 10: return -1.0;
        case 11: return double(rng.range(-9, 9));
        default: return g.value();
        }
    }
    cmplx_t scalar() {
        const double v = g.value(), w = g.value();
        switch (int(rng.next() % 12)) {
        case 0: case 1: return cmplx_t(v, zero());                       // purely real
        case 2: return cmplx_t(zero(), v);                               // purely imaginary
        case 3: return cmplx_t(zero(), zero());
        case 4: return cmplx_t(rng.coin() ? 1.0 : -1.0, zero());
        case 5: return cmplx_t(zero(), rng.coin() ? 1.0 : -1.0);
        case 6: return cmplx_t(v, v);
        case 7: return cmplx_t(v, -v);
        case 8: return cmplx_t(double(rng.range(-5, 5)), double(rng.range(-5, 5)));
        default: return cmplx_t(v, w);
        }
    }
    int integer(double near) {
        switch (int(rng.next() % 8)) {
        case 0: return IPAL[rng.next() % 8];
        case 1: return INT_MIN;
        case 2: case 3: return (std::fabs(near) < 1e6 && near == std::floor(near)) ? int(near) : rng.range(-6, 6);
        case 4: return 0;
        default: return rng.range(-9, 9);
        }
    }
};
static void random_round(PG& pg, int L, int mode, long long id, bool emit) {
    pg.g.mode = mode;
    const cmplx_t s = pg.scalar();
    arr_real xr(L);
    arr_cmplx zc(L);
    arr_int ni(L);
    const int style = int(pg.rng.next() % 8);   // 0: all elements equal, 1: real-valued complex array, 2: purely imaginary complex array
    const double x0 = pg.pick(s.re, s.im);
    const cmplx_t z0(pg.pick(x0, s.re), pg.pick(x0, s.im));
    const int n0 = pg.integer(s.re);
    for (int i = 0; i < L; ++i) {
        xr[i] = style == 0 ? x0 : pg.pick(s.re, s.im);
        zc[i] = style == 0 ? z0 : cmplx_t(style == 2 ? pg.zero() : pg.pick(xr[i], s.re), style == 1 ? pg.zero() : pg.pick(xr[i], s.im));
        ni[i] = style == 0 ? n0 : pg.integer(pg.rng.coin() ? xr[i] : s.re);
    }
    const real_t x = pg.pick(L ? zc[0].re : s.re, s.re);
    const int n = pg.integer(L ? zc[L - 1].re : s.re);
    const Round R{xr, zc, L, id, emit, mode ? "random-wide" : "random"};
    const auto sx = bits(refv(xr)), sz = bits(refv(zc));
    const std::vector<int> sn = ni.to_vec();
    round_forms(R, ni, s, x, n);
    if (bits(refv(xr)) != sx || bits(refv(zc)) != sz || ni.to_vec() != sn) out.fail("C03:operand-modified", "{\"what\":\"promotion forms: an operand changed\",\"round\":" + std::to_string(id) + "}");
    out.stat(mode ? "promo_rounds_random_wide" : "promo_rounds_random");
}
// deterministic sweep: every element / scalar-component combination of the palette {+0, -0, 1, -1, 2, -3, 0.5, 5}
static void grid(bool full, bool emit, long long& id) {
    const int L = full ? 512 : 8;
    for (int k = 0; k < 64; ++k) {
        const cmplx_t s(PAL[k % 8], PAL[k / 8]);
        arr_real xr(L);
        arr_cmplx zc(L);
        arr_int ni(L);
        for (int i = 0; i < L; ++i) {
            xr[i] = PAL[i % 8];
            zc[i] = full ? cmplx_t(PAL[(i / 8) % 8], PAL[i / 64]) : cmplx_t(PAL[(i + k) % 8], PAL[(i + k / 8) % 8]);
            ni[i] = IPAL[(i + (full ? i / 8 : k)) % 8];
        }
        const Round R{xr, zc, L, id++, emit, full ? "grid-512" : "grid-8"};
        round_forms(R, ni, s, PAL[(k + k / 8) % 8], IPAL[(k / 8 + 3 * (k % 8)) % 8]);
        out.stat(full ? "promo_rounds_grid_512" : "promo_rounds_grid_8");
    }
}
static void run(vh::Rng& rng, bool thorough) {
    long long id = 0;
    grid(false, true, id);
    grid(true, false, id);
    PG pg(rng);
    const int rounds = thorough ? 6000 : 400, emitN = thorough ? 160 : 40;
    for (int r = 0; r < rounds; ++r) {
        const bool emit = r < emitN;
        const int L = emit ? rng.range(0, 12) : (r % 5 == 0 ? rng.range(0, 3) : rng.range(0, 64));
        random_round(pg, L, (r % 4 == 3) ? 1 : 0, id++, emit);
    }
    // longer arrays; thorough: also single frames above 2^16 / 2^17 elements
    const int nbig = thorough ? 12 : 2;
    for (int r = 0; r < nbig; ++r) random_round(pg, big_len(rng), r % 2, id++, false);
    if (thorough) for (int L : {65537, 131073}) random_round(pg, L, 0, id++, false);
}
}   // namespace promo

int main(int argc, char** argv) {
    vh::Args a(argc, argv);
    vh::install_guards();
    g_seed = a.seed;
    vh::Rng rng(a.seed);
    long long pindex = 0;
    auto t0 = std::chrono::steady_clock::now();
    auto lap = [&](const char* name) {   // wall time per section (evidence)
        const auto t1 = std::chrono::steady_clock::now();
        out.stats[std::string("time_ms_") + name] = (long long)std::chrono::duration_cast<std::chrono::milliseconds>(t1 - t0).count();
        t0 = t1;
    };
    // every length 0..64
    const int perLen = a.thorough ? 120 : 14;
    for (int L = 0; L <= 64; ++L)
        for (int r = 0; r < perLen; ++r) {
            const int mode = (r % 4 == 3) ? 1 : 0;
            run_program(rng, L, mode, mode ? 3 : 6, 6, !a.thorough || r % 3 == 0, pindex++);   // thorough: every third program also goes through CORR
        }
    lap("programs_len_0_64");
    // lengths sampled up to 1e4: a few through CORR, many through the oracle only
    const int bigCorr = a.thorough ? 16 : 8, bigOracle = a.thorough ? 1500 : 150;
    for (int r = 0; r < bigCorr; ++r) run_program(rng, big_len(rng), (r % 4 == 3) ? 1 : 0, 4, 3, true, pindex++);
    for (int r = 0; r < bigOracle; ++r) run_program(rng, big_len(rng), (r % 4 == 3) ? 1 : 0, 6, 5, false, pindex++);
    lap("programs_len_65_10000");
    // single large frames (above 2^16 and 2^17 elements, the first of them arriving after the smaller ones): oracle only
    {
        const int big[] = {65536, 65537, 131072, 131073, 98304, 196608};
        const int nbig = a.thorough ? 12 : 2;
        for (int r = 0; r < nbig; ++r) {
            const int L = a.thorough ? big[r % 6] + (r >= 6 ? rng.range(1, 50) : 0) : (r == 0 ? 65537 : 131073);
            run_program(rng, L, r % 2, 3, 2, false, pindex++);
        }
    }
    lap("programs_large_frames");
    // compiled expression forms with temporaries: value categories and lifetime of operator results
    {
        FormGen fg(rng);
        int round = 0;
        if (a.thorough) {
            for (int rep = 0; rep < 3; ++rep) for (int L = 0; L <= 64; ++L) forms_round(fg, L, (round++ % 4 == 3) ? 1 : 0, rep == 0);
            for (int r = 0; r < 6; ++r) forms_round(fg, big_len(rng), (round++ % 4 == 3) ? 1 : 0, false);
        } else {
            for (int L : {0, 1, 2, 3, 4, 5, 8, 13, 16, 33, 64}) forms_round(fg, L, (round++ % 4 == 3) ? 1 : 0, true);
            forms_round(fg, rng.range(6, 64), 1, true);
            forms_round(fg, rng.range(65, 600), 0, false);   // oracle only (the thorough tier goes up to 10^4)
        }
        for (int L = 0; L <= (a.thorough ? 64 : 16); ++L)
            for (int rep = 0; rep < (a.thorough ? 6 : 2); ++rep) { fg.g.mode = (rep % 3 == 2); builder_forms<real_t>(fg, L); builder_forms<cmplx_t>(fg, L); }
    }
    lap("forms");
    // scalar operators, builders
    scalar_cases(rng, a.thorough ? 5000 : 2000);
    {
        Gen g{rng};
        const int reps = a.thorough ? 4 : 2;
        for (int rep = 0; rep < reps; ++rep)
            for (int n = 0; n <= 64; ++n) {
                g.mode = (n + rep) % 3 == 2;
                builder_cases<real_t>(g, rng, n);
                builder_cases<cmplx_t>(g, rng, n);
                math_cases(g, rng, n);
            }
        for (int r = 0; r < (a.thorough ? 5 : 2); ++r) {
            const int n = big_len(rng);
            builder_cases<real_t>(g, rng, n);
            builder_cases<cmplx_t>(g, rng, n);
            math_cases(g, rng, n);
        }
    }
    lap("scalars_builders");
    // mixed real/complex (and int) operator forms: the formula on the promoted operands, bit for bit (placed last: the random
    // streams of the sections above are unchanged)
    promo::run(rng, a.thorough);
    lap("promotion");
    out.stats["elements_claimed"] = g_claimed;
    out.stats["elements_outside_claimed_range"] = g_unclaimed;
    out.stats["worst_error_over_bound_ppm"] = (long long)(g_worst * 1e6L);
    out.finish();
    return 0;
}
