// C05 — no call corrupts memory or hangs: misuse is reported by exception.
// Boundary-directed API call programs over the public entry points of include/dsplib/*.h, run under
// clang ASan+UBSan with -DNDEBUG (cfg "asan": DSPLIB_ASSUME live).  ORACLE: every call either returns or
// throws a std::exception; a sanitizer report, a signal, a foreign exception or the watchdog is an
//   F C05:<entry-point>:<kind> {"entry":…,"args":[…]}        kind ∈ sanitizer|segv|fpe|abort|hang|foreign-exception
// line.  CORR: for the entry points modelled in Model/Guards.lean the observed outcome
//   C guard <entry> <sizes…> | ok <shape…>  |  ERR
// is predicted by the Lean model.
//
// Every section runs in a forked child, so that one dying call (sanitizers abort the process) does not hide
// the findings of the other sections; the child's statistics come back through a pipe.
// Documented ranges respected by the generators: sizes / orders / rates >= 1, scalar subscripts valid, arrays
// non-empty where a reduction needs an element (max/min/median/…), finite sample values.
#include "common.hpp"
#include <sys/wait.h>
#include <sstream>
#include <set>
#include <optional>
#include <fstream>
using namespace dsplib;
using vh::Out;

static Out out;
static bool g_thorough = false;
static uint64_t g_seed = 1;
static vh::Rng* g_rng = nullptr;

// ------------------------------------------------------------------------------------------ death reporting
static char g_entry[128] = "";
static void c05_report(const char* kind) {
    if (vh::g_cur_key[0]) {
        std::printf("\nF C05:%s:%s %s\n", g_entry, kind, vh::g_cur_json);
        std::fflush(stdout);
    }
}
static void c05_on_signal(int sig) {
    c05_report(sig == SIGALRM ? "hang" : sig == SIGSEGV || sig == SIGBUS ? "segv" : sig == SIGFPE ? "fpe" : sig == SIGABRT ? "abort" : "signal");
    std::_Exit(sig == SIGALRM ? 97 : 98);
}
static void c05_on_sanitizer() { c05_report("sanitizer"); }
static void c05_install() {
    for (int s : {SIGSEGV, SIGFPE, SIGBUS, SIGABRT, SIGILL, SIGALRM}) std::signal(s, c05_on_signal);
#ifdef VH_SANITIZER
    __sanitizer_set_death_callback(c05_on_sanitizer);
#endif
}

// ------------------------------------------------------------------------------------------ call wrapper
static std::string J(std::initializer_list<long long> v) { return vh::jints(std::vector<long long>(v)); }
static std::string J(const std::vector<int>& v) { return vh::jints(v); }

static unsigned g_watch = 20;   // seconds; every generated call is tiny (sizes <= a few thousand)

// returns 0 = returned, 1 = threw std::exception
template<class F>
static int call(const char* entry, const std::string& args, F&& f) {
    std::snprintf(g_entry, sizeof g_entry, "%s", entry);
    const std::string js = std::string("{\"entry\":\"") + entry + "\",\"args\":" + args + "}";
    vh::set_current(std::string("C05:") + entry, js);
    vh::watch(g_watch);
    int r = 0;
    try {
        f();
    } catch (const std::exception&) {
        r = 1;
    } catch (...) {
        r = 2;
    }
    vh::unwatch();
    vh::clear_current();
    out.n_oracle++;
    out.stat(std::string(r ? "throws_" : "ok_") + entry);
    if (r == 2) { out.fail(std::string("C05:") + entry + ":foreign-exception", js); r = 1; }
    if (out.n_oracle % 977 == 0) out.sample(js);
    return r;
}

// CORR line for a modelled entry point
static void guard(const std::string& entry, std::initializer_list<long long> args, int r, std::initializer_list<long long> shape) {
    std::string l = "guard " + entry;
    for (auto a : args) l += " " + std::to_string(a);
    std::string rhs = "ERR";
    if (r == 0) { rhs = "ok"; for (auto s : shape) rhs += " " + std::to_string(s); }
    out.corr(l, rhs);
}
static void guardv(const std::string& entry, const std::vector<long long>& args, int r, const std::vector<long long>& shape) {
    std::string l = "guard " + entry;
    for (auto a : args) l += " " + std::to_string(a);
    std::string rhs = "ERR";
    if (r == 0) { rhs = "ok"; for (auto s : shape) rhs += " " + std::to_string(s); }
    out.corr(l, rhs);
}

// ------------------------------------------------------------------------------------------ data
// lengths {0,1,2,3,n-1,n,n+1,2n} relative to the expected length n
static std::vector<int> lens(int n) {
    std::set<int> s{0, 1, 2, 3, n - 1, n, n + 1, 2 * n};
    std::vector<int> v;
    for (int x : s) if (x >= 0) v.push_back(x);
    return v;
}
static std::vector<int> lens1(int n) {   // the same without 0 (operand must be non-empty)
    std::vector<int> v;
    for (int x : lens(n)) if (x >= 1) v.push_back(x);
    return v;
}
// value classes: 0 gaussian, 1 zeros, 2 constant, 3 ramp, 4 sine
static arr_real rdata(int n, int cls = -1) {
    vh::Rng& g = *g_rng;
    if (cls < 0) { const int c = int(g.next() % 10); cls = c < 6 ? 0 : c - 5; }
    arr_real x(n);
    for (int i = 0; i < n; ++i) {
        switch (cls) {
        case 0: x[i] = g.gauss(); break;
        case 1: x[i] = 0; break;
        case 2: x[i] = 1.5; break;
        case 3: x[i] = i; break;
        default: x[i] = std::sin(0.7 * i) + 0.01 * g.sym(); break;
        }
    }
    return x;
}
static arr_cmplx cdata(int n, int cls = -1) {
    const arr_real a = rdata(n, cls), b = rdata(n, cls);
    arr_cmplx x(n);
    for (int i = 0; i < n; ++i) x[i] = cmplx_t(a[i], b[i]);
    return x;
}
template<class T> static base_array<T> tdata(int n, int cls = -1);
template<> arr_real tdata<real_t>(int n, int cls) { return rdata(n, cls); }
template<> arr_cmplx tdata<cmplx_t>(int n, int cls) { return cdata(n, cls); }
template<class T> static const char* tn();
template<> const char* tn<real_t>() { return "r"; }
template<> const char* tn<cmplx_t>() { return "c"; }

static volatile double g_sink = 0;
template<class T> static void use(const base_array<T>& a) {
    double s = 0;
    for (int i = 0; i < a.size(); ++i) { if constexpr (std::is_same_v<T, cmplx_t>) s += a[i].re + a[i].im; else s += double(a[i]); }
    g_sink = g_sink + s;
}
static void use(real_t v) { g_sink = g_sink + v; }
static void use(cmplx_t v) { g_sink = g_sink + v.re + v.im; }
static void use(const std::vector<bool>& v) { int c = 0; for (bool b : v) c += b; g_sink = g_sink + c; }

// ================================================================================================ A. array.h
template<class T>
static void sec_array_ops() {
    const std::string e = std::string("array.") + tn<T>() + ".";
    for (int n : {0, 1, 2, 3, 5, 8, 17}) {
        for (int lb : lens(n)) {
            const auto a = tdata<T>(n), b = tdata<T>(lb);
            const auto rb = rdata(lb);
            int r;
            int shape = -1;
            // op= with an array right-hand side
            r = call((e + "op+=").c_str(), J({n, lb}), [&] { auto t = a; t += b; use(t); shape = t.size(); });
            guard("binop", {n, lb}, r, {shape});
            r = call((e + "op-=").c_str(), J({n, lb}), [&] { auto t = a; t -= b; use(t); shape = t.size(); });
            guard("binop", {n, lb}, r, {shape});
            r = call((e + "op*=").c_str(), J({n, lb}), [&] { auto t = a; t *= b; use(t); shape = t.size(); });
            guard("binop", {n, lb}, r, {shape});
            r = call((e + "op/=").c_str(), J({n, lb}), [&] { auto t = a; t /= b; use(t); shape = t.size(); });
            guard("binop", {n, lb}, r, {shape});
            r = call((e + "op+").c_str(), J({n, lb}), [&] { auto t = a + b; use(t); shape = t.size(); });
            guard("binop", {n, lb}, r, {shape});
            r = call((e + "op-").c_str(), J({n, lb}), [&] { auto t = a - b; use(t); shape = t.size(); });
            guard("binop", {n, lb}, r, {shape});
            r = call((e + "op*").c_str(), J({n, lb}), [&] { auto t = a * b; use(t); shape = t.size(); });
            guard("binop", {n, lb}, r, {shape});
            r = call((e + "op/").c_str(), J({n, lb}), [&] { auto t = a / b; use(t); shape = t.size(); });
            guard("binop", {n, lb}, r, {shape});
            // mixed real/complex operands
            r = call((e + "op*real").c_str(), J({n, lb}), [&] { auto t = a * rb; use(t); shape = t.size(); });
            guard("binop", {n, lb}, r, {shape});
            r = call((e + "real-op").c_str(), J({lb, n}), [&] { auto t = rb - a; use(t); shape = t.size(); });
            guard("binop", {lb, n}, r, {shape});
            if constexpr (std::is_same_v<T, cmplx_t>) {
                r = call((e + "op+=real").c_str(), J({n, lb}), [&] { auto t = a; t += rb; use(t); shape = t.size(); });
                guard("binop", {n, lb}, r, {shape});
                r = call((e + "op/=real").c_str(), J({n, lb}), [&] { auto t = a; t /= rb; use(t); shape = t.size(); });
                guard("binop", {n, lb}, r, {shape});
            }
            // comparisons
            r = call((e + "cmp>").c_str(), J({n, lb}), [&] { auto t = (a > b); use(t); shape = int(t.size()); });
            guard("cmp", {n, lb}, r, {shape});
            r = call((e + "cmp<").c_str(), J({n, lb}), [&] { auto t = (a < b); use(t); shape = int(t.size()); });
            guard("cmp", {n, lb}, r, {shape});
            r = call((e + "cmp==").c_str(), J({n, lb}), [&] { auto t = (a == b); use(t); shape = int(t.size()); });
            guard("cmp", {n, lb}, r, {shape});
            r = call((e + "cmp!=").c_str(), J({n, lb}), [&] { auto t = (a != b); use(t); shape = int(t.size()); });
            guard("cmp", {n, lb}, r, {shape});
            // concatenation
            call((e + "concat").c_str(), J({n, lb}), [&] { auto t = a | b; t |= b; use(t); use(concatenate(a, b, a)); });
            // boolean mask of every length
            std::vector<bool> mk(lb);
            int cnt = 0;
            std::vector<long long> margs{n, lb};
            for (int i = 0; i < lb; ++i) { mk[i] = g_rng->coin(); cnt += mk[i]; margs.push_back(mk[i]); }
            r = call((e + "mask").c_str(), J({n, lb}), [&] { auto t = a[mk]; use(t); shape = t.size(); });
            guardv("mask", margs, r, {shape});
        }
        // scalar right-hand sides, unary, element access inside the valid range, conversions
        const auto a = tdata<T>(n);
        call((e + "scalar-ops").c_str(), J({n}), [&] {
            auto t = a; t += T(2); t -= T(1); t *= T(3); t /= T(2);
            use(t + T(1)); use(t - T(1)); use(t * T(2)); use(t / T(2)); use(T(2) + t); use(T(2) - t); use(T(2) * t); use(T(2) / t);
            use(-t); use(+t); use(t > T(0)); use(t < T(0)); use(t == T(0)); use(t != T(0));
            use(t * 2.0); use(2.0 * t); use(t / 2); use(1 - t);
        });
        call((e + "subscript").c_str(), J({n}), [&] {
            auto t = a;
            for (int i = -n; i < n; ++i) { t[i] = t[i] + T(1); use(t(i)); }
            for (size_t i = 0; i < size_t(n); ++i) use(t[i]);
            const auto& ct = t;
            for (int i = -n; i < n; ++i) use(ct[i]);
        });
        call((e + "ctor").c_str(), J({n}), [&] {
            std::vector<T> v = a.to_vec();
            base_array<T> b1(v), b2(std::move(v)), b3(a), b4(a.data(), size_t(n)), b5;
            b5 = b1; b5 = std::move(b2); b5 = b5;
            use(b3); use(b4); use(b5);
            std::vector<float> fv(n, 1.f);
            if constexpr (std::is_same_v<T, real_t>) { arr_real c1(fv); use(c1); arr_real c2(fv.data(), fv.size()); use(c2); arr_int ii(n); arr_real c3(ii); use(c3); }
            use(a.apply([](T x) { return x * T(2); }));
            use(a.apply([](T x) { return cmplx_t(0, 1) * x; }));
            base_array<T> z(n); use(z); use(base_array<T>{T(1), T(2)}); (void)a.empty(); (void)a.size();
            for (auto it = a.begin(); it != a.end(); ++it) use(*it);
        });
    }
    // array ∘ array of the other scalar kind (real lhs, complex rhs)
    if constexpr (std::is_same_v<T, real_t>)
        for (int n : {0, 1, 4})
            for (int lb : lens(n)) {
                const auto a = rdata(n); const auto b = cdata(lb);
                int shape = -1;
                int r = call("array.r.op+cmplx", J({n, lb}), [&] { auto t = a + b; use(t); use(a * b); use(a - b); use(a / b); shape = t.size(); });
                guard("binop", {n, lb}, r, {shape});
            }
}

// index lists: entries over -n..n+2, the empty list, vector<int> and arr_int forms
template<class T>
static void sec_idxlist() {
    const std::string e = std::string("array.") + tn<T>() + ".";
    const int NB = g_thorough ? 7 : 5;
    for (int n = 0; n <= NB; ++n) {
        const auto a = tdata<T>(n);
        auto one = [&](const std::vector<int>& idx, int form) {
            int shape = -1;
            std::vector<long long> args{n, (long long)idx.size()};
            for (int v : idx) args.push_back(v);
            int r;
            if (form == 0) r = call((e + "idxlist").c_str(), vh::jints(args), [&] { auto t = a[idx]; use(t); shape = t.size(); });
            else r = call((e + "idxlist-arr_int").c_str(), vh::jints(args), [&] { arr_int ii(idx); auto t = a[ii]; use(t); shape = t.size(); });
            guardv("idxlist", args, r, {shape});
        };
        one({}, 0); one({}, 1);
        for (int i = -n - 1; i <= n + 2; ++i) { one({i}, 0); one({i}, 1); }
        for (int i = -n; i <= n + 2; ++i)
            for (int j = -n; j <= n + 2; ++j) { one({i, j}, 0); if (g_thorough) one({j, i, j}, 1); }
        for (int rep = 0; rep < (g_thorough ? 300 : 60); ++rep) {
            const int k = g_rng->range(0, 2 * n + 2);
            std::vector<int> idx(k);
            const bool valid = g_rng->coin() && n > 0;
            for (auto& v : idx) v = valid ? g_rng->range(0, n - 1) : g_rng->range(-n, n + 2);
            one(idx, rep & 1);
        }
        if (n > 0) {   // all-valid permutation and a long valid list
            std::vector<int> p(n); for (int i = 0; i < n; ++i) p[i] = n - 1 - i;
            one(p, 0);
            std::vector<int> l(3 * n); for (int i = 0; i < 3 * n; ++i) l[i] = i % n;
            one(l, 1);
        }
    }
    // large array, entries near both ends
    for (int n : {1000, 4096}) {
        const auto a = tdata<T>(n);
        for (int v : {-n - 1, -n, -1, 0, n - 1, n, n + 1, n + 2, 2 * n}) {
            int shape = -1;
            std::vector<int> idx{0, n / 2, v, n - 1};
            int r = call((e + "idxlist").c_str(), J({n, 4, 0, n / 2, v, n - 1}), [&] { auto t = a[idx]; use(t); shape = t.size(); });
            guardv("idxlist", {n, 4, 0, n / 2, v, n - 1}, r, {shape});
        }
    }
}

static void sec_print() {
    for (int n : {1, 2, 3, 0}) {
        call("array.r.print", J({n}), [&] { std::ostringstream os; os << rdata(n); g_sink = g_sink + double(os.str().size()); });
        call("array.c.print", J({n}), [&] { std::ostringstream os; os << cdata(n); os << cmplx_t(1, -2); g_sink = g_sink + double(os.str().size()); });
    }
}

// ================================================================================================ B. slice.h
template<class T>
static void apply_list(slice_t<T> s, int len) {
    auto v = [](int i) { return T(200 + i); };
    switch (len) {
    case 0: s = std::initializer_list<T>{}; break;
    case 1: s = {v(0)}; break;
    case 2: s = {v(0), v(1)}; break;
    case 3: s = {v(0), v(1), v(2)}; break;
    case 4: s = {v(0), v(1), v(2), v(3)}; break;
    case 5: s = {v(0), v(1), v(2), v(3), v(4)}; break;
    case 6: s = {v(0), v(1), v(2), v(3), v(4), v(5)}; break;
    case 7: s = {v(0), v(1), v(2), v(3), v(4), v(5), v(6)}; break;
    case 8: s = {v(0), v(1), v(2), v(3), v(4), v(5), v(6), v(7)}; break;
    case 9: s = {v(0), v(1), v(2), v(3), v(4), v(5), v(6), v(7), v(8)}; break;
    case 10: s = {v(0), v(1), v(2), v(3), v(4), v(5), v(6), v(7), v(8), v(9)}; break;
    case 11: s = {v(0), v(1), v(2), v(3), v(4), v(5), v(6), v(7), v(8), v(9), v(10)}; break;
    default: s = {v(0), v(1), v(2), v(3), v(4), v(5), v(6), v(7), v(8), v(9), v(10), v(11)}; break;
    }
}
static int slice_count(long n, long i1, long i2, long m) {   // -1 = constructor throws
    if (n == 0 || m == 0) return -1;
    long a = i1 < 0 ? n + i1 : i1, b = i2 < 0 ? n + i2 : i2;
    if (a < 0 || a >= n || b < 0 || b > n) return -1;
    if ((m < 0 && a < b) || (m > 0 && a > b)) return -1;
    long d = std::labs(b - a), t = std::labs(m);
    long nc = (d % t) ? d / t + 1 : d / t;
    return nc > n ? -1 : int(nc);
}
template<class T>
static void sec_slice() {
    const std::string e = std::string("slice.") + tn<T>() + ".";
    const int NB = g_thorough ? 6 : 4;
    for (int n = 0; n <= NB; ++n)
        for (int i1 = -n - 2; i1 <= n + 2; ++i1)
            for (int i2 = -n - 2; i2 <= n + 2; ++i2)
                for (int m = -3; m <= 3; ++m) {
                    auto x = tdata<T>(n, 3);
                    int shape = -1;
                    int r = call((e + "read").c_str(), J({n, i1, i2, m}), [&] { const auto& cx = x; base_array<T> y = cx.slice(i1, i2, m); use(y); use(*x.slice(i1, i2, m)); shape = y.size(); });
                    guard("slice", {n, i1, i2, m}, r, {shape});
                    const int nc = slice_count(n, i1, i2, m);
                    if (nc < 0) continue;
                    call((e + "fill").c_str(), J({n, i1, i2, m}), [&] { x.slice(i1, i2, m) = T(7); use(x); });
                    // every right-hand-side length: array, braced list
                    for (int lr = 0; lr <= n + 2; ++lr) {
                        r = call((e + "assign-array").c_str(), J({n, i1, i2, m, lr}), [&] { auto y = x; y.slice(i1, i2, m) = tdata<T>(lr, 3); use(y); shape = y.size(); });
                        guard("sasg_arr", {n, i1, i2, m, lr}, r, {shape});
                        r = call((e + "assign-list").c_str(), J({n, i1, i2, m, lr}), [&] { auto y = x; apply_list<T>(y.slice(i1, i2, m), lr); use(y); shape = y.size(); });
                        guard("sasg_list", {n, i1, i2, m, lr}, r, {shape});
                    }
                    // slice of another array / of the same array, random geometry
                    for (int rep = 0; rep < 3; ++rep) {
                        const int n2 = g_rng->range(1, NB + 2);
                        const int s1 = g_rng->range(-n2, n2 - 1), s2 = g_rng->range(-n2, n2), sm = (rep == 0) ? 1 : g_rng->range(-3, 3);
                        auto other = tdata<T>(n2, 3);
                        r = call((e + "assign-slice").c_str(), J({n, i1, i2, m, n2, s1, s2, sm}), [&] { auto y = x; y.slice(i1, i2, m) = other.slice(s1, s2, sm); use(y); shape = y.size(); });
                        guard("sasg_slice", {n, i1, i2, m, n2, s1, s2, sm}, r, {shape});
                        const int t1 = g_rng->range(-n, n - 1), t2 = g_rng->range(-n, n), tm = g_rng->range(-3, 3);
                        r = call((e + "assign-slice-same").c_str(), J({n, i1, i2, m, n, t1, t2, tm}), [&] { auto y = x; y.slice(i1, i2, m) = y.slice(t1, t2, tm); use(y); shape = y.size(); });
                        guard("sasg_slice", {n, i1, i2, m, n, t1, t2, tm}, r, {shape});
                    }
                    if (m == 1) call((e + "assign-self-array").c_str(), J({n, i1, i2}), [&] { x.slice(i1, i2) = x; });
                }
    for (int n : {0, 1, 7}) {
        auto x = tdata<T>(n);
        for (int i1 = -n - 1; i1 <= n + 1; ++i1)
            for (int m : {1, 2, -1}) {
                int shape = -1;
                int r = call((e + "read-end").c_str(), J({n, i1, m}), [&] { auto y = *x.slice(i1, indexing::end, m); use(y); shape = y.size(); });
                guard("slice", {n, i1, n, m}, r, {shape});
            }
    }
}

// ================================================================================================ C. fft.h ifft.h czt.h
static std::vector<int> plan_sizes() {
    std::vector<int> v{1, 2, 3, 4, 5, 6, 7, 8, 9, 10, 11, 12, 15, 16, 17, 20, 30, 31, 32, 37, 41, 43, 47, 53, 60, 64, 97, 100, 127, 128, 210, 256};
    if (g_thorough) { for (int n = 13; n <= 130; ++n) v.push_back(n); for (int n : {509, 512, 1000, 1009, 1024, 2048, 2310, 4096}) v.push_back(n); }
    std::sort(v.begin(), v.end()); v.erase(std::unique(v.begin(), v.end()), v.end());
    return v;
}
static void sec_fftplan() {
    for (int n : plan_sizes()) {
        std::optional<FftPlan> pc; std::optional<FftPlanR> pr; std::optional<IfftPlan> pi;
        call("FftPlan.ctor", J({n}), [&] { pc.emplace(n); });
        call("FftPlanR.ctor", J({n}), [&] { pr.emplace(n); });
        call("IfftPlan.ctor", J({n}), [&] { pi.emplace(n); });
        if (!pc || !pr || !pi) continue;
        call("FftPlan.size", J({n}), [&] { use(real_t(pc->size() + pr->size() + pi->size())); });
        for (int len : lens(n)) {
            int shape = -1, r;
            r = call("FftPlan.solve", J({n, len}), [&] { auto y = pc->solve(cdata(len)); use(y); use((*pc)(cdata(len))); shape = y.size(); });
            guard("fftplan", {n, len}, r, {shape});
            r = call("FftPlanR.solve", J({n, len}), [&] { auto y = pr->solve(rdata(len)); use(y); use((*pr)(rdata(len))); shape = y.size(); });
            guard("rfftplan", {n, len}, r, {shape});
            r = call("IfftPlan.solve", J({n, len}), [&] { auto y = pi->solve(cdata(len)); use(y); use((*pi)(cdata(len))); shape = y.size(); });
            guard("ifftplan", {n, len}, r, {shape});
            if (len >= 1) {   // pointer interface of the base classes with buffers of the stated length
                r = call("BaseFftPlanC.solve-ptr", J({n, len}), [&] { const auto x = cdata(len); arr_cmplx y(len); const BaseFftPlanC& b = *pc; b.solve(x.data(), y.data(), len); use(y); shape = len; });
                guard("fftplan", {n, len}, r, {shape});
                r = call("BaseFftPlanR.solve-ptr", J({n, len}), [&] { const auto x = rdata(len); arr_cmplx y(len); const BaseFftPlanR& b = *pr; b.solve(x.data(), y.data(), len); use(y); shape = len; });
                guard("rfftplan", {n, len}, r, {shape});
            }
        }
    }
}
static void sec_fftfn() {
    std::vector<int> ls{0, 1, 2, 3, 4, 5, 6, 7, 8, 9, 12, 16, 17, 30, 32, 47, 64, 100};
    if (g_thorough) for (int n : {128, 210, 509, 1000, 1024, 4096}) ls.push_back(n);
    for (int lx : ls) {
        int shape = -1, r;
        r = call("fft.c", J({lx}), [&] { auto y = fft(cdata(lx)); use(y); shape = y.size(); });
        guard("fft", {lx}, r, {shape});
        r = call("fft.r", J({lx}), [&] { auto y = fft(rdata(lx)); use(y); use(rfft(rdata(lx))); shape = y.size(); });
        guard("fft", {lx}, r, {shape});
        r = call("ifft", J({lx}), [&] { auto y = ifft(cdata(lx)); use(y); shape = y.size(); });
        guard("fft", {lx}, r, {shape});
        r = call("irfft", J({lx}), [&] { auto y = irfft(cdata(lx)); use(y); shape = y.size(); });
        guard("irfft", {lx, lx}, r, {shape});
        for (int n : lens1(lx)) {
            r = call("fft.c-n", J({lx, n}), [&] { auto y = fft(cdata(lx), n); use(y); shape = y.size(); });
            guard("fftn", {lx, n}, r, {shape});
            r = call("fft.r-n", J({lx, n}), [&] { auto y = fft(rdata(lx), n); use(y); use(rfft(rdata(lx), n)); shape = y.size(); });
            guard("fftn", {lx, n}, r, {shape});
        }
        // irfft(x, n): x of length n, n/2+1 and the neighbours
        for (int n : {1, 2, 3, 4, 6, 8, 10, 12, 16, 30, 64, 2 * lx, 2 * lx - 2, lx, lx + 1}) {
            if (n < 1) continue;
            r = call("irfft-n", J({lx, n}), [&] { auto y = irfft(cdata(lx), n); use(y); shape = y.size(); });
            guard("irfft", {lx, n}, r, {shape});
        }
    }
    for (int n : {1, 2, 3, 4, 5, 6, 8, 10, 12, 14, 16, 18, 20, 22, 26, 30, 32, 34, 62, 64, 100, 106, 128}) {
        std::optional<IfftPlanR> p;
        const int rc = call("IfftPlanR.ctor", J({n}), [&] { p.emplace(n); });
        std::set<int> ll{n / 2, n / 2 + 1, n / 2 + 2};
        for (int l : lens(n)) ll.insert(l);
        for (int len : ll) {
            int shape = -1, r = 1;
            if (!rc) r = call("IfftPlanR.solve", J({n, len}), [&] { auto y = p->solve(cdata(len)); use(y); use((*p)(cdata(len))); use(real_t(p->size())); shape = y.size(); });
            guard("irfft", {len, n}, r, {shape});
        }
    }
}
static void sec_czt() {
    for (int n : {1, 2, 3, 5, 8, 13, 43}) {
        for (int m : {1, 2, 3, n - 1, n, n + 1, 2 * n, 64}) {
            if (m < 1) continue;
            const cmplx_t w = expj(-2 * pi / m);
            for (int av = 0; av < 2; ++av) {
                const cmplx_t a = av ? cmplx_t(0.8, 0.3) : cmplx_t(1);
                std::optional<CztPlan> p;
                if (call("CztPlan.ctor", J({n, m, av}), [&] { p.emplace(n, m, w, a); })) continue;
                for (int len : lens(n)) {
                    int shape = -1;
                    int r = call("CztPlan.solve", J({n, m, len}), [&] { auto y = p->solve(cdata(len)); use(y); use((*p)(cdata(len))); use(real_t(p->size())); shape = y.size(); });
                    guard("cztplan", {n, m, len}, r, {shape});
                }
                int shape = -1;
                int r = call("czt", J({n, m, av}), [&] { auto y = czt(cdata(n), m, w, a); use(y); shape = y.size(); });
                guard("cztplan", {n, m, n}, r, {shape});
            }
        }
    }
    // a contour ratio off the unit circle is accepted by the shipped build (assert compiled out)
    call("czt.w-off-circle", J({8, 8}), [&] { use(czt(cdata(8), 8, cmplx_t(0.9, 0.1))); });
}

//@@PART2@@
